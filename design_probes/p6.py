import os, shutil
from stone.backend import CodeBackend
class B(CodeBackend):
    def generate(self, api): pass
out='/tmp/probe/out/b'; shutil.rmtree(out, ignore_errors=True); os.makedirs(out)
b = B(out, [])
with b.output_to_relative_path('x.txt'):
    b.emit('a {0} {} {{ }} {name} }{ é ✓')
    with b.block('fn {x}', after='} // {y}'):
        b.emit_wrapped_text('w {z} ' * 30, prefix='{p} ', width=40)
        b.generate_multiline_list(['{i1}', '{i2}'], before='{b}', after='{a}')
    b.emit_placeholder('ph'); b.emit_raw('\n')
    b.add_named_placeholder('ph', 'VALUE {not} {{x}}')
print(open(out+'/x.txt', encoding='utf-8').read())
# path escape
for rel in ['../esc.txt', 'a/../../esc.txt', '/tmp/probe/abs.txt', 'a/./b/../c.txt', 'sub/', '.', 'a//b.txt']:
    try:
        with b.output_to_relative_path(rel):
            b.emit('x')
        print(rel, 'WROTE')
    except BaseException as e:
        print(rel, type(e).__name__, str(e)[:80])
print(sorted(os.listdir('/tmp/probe/out')), os.path.exists('/tmp/probe/abs.txt'))
