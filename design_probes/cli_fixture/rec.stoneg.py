from stone.backend import Backend
LAST = {}
class Rec(Backend):
    def generate(self, api):
        LAST['api'] = api
