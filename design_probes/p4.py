import sys, importlib, json, os, shutil
sys.path.insert(0,'/tmp/probe/out')
from gen import build
from stone.frontend.frontend import specs_to_ir
from stone.compiler import Compiler
import stone.backends.python_client as pc
def sig(api):
    out=[]
    for ns in api.namespaces.values():
        out.append((ns.name, [ (d.name,[f.name for f in d.fields]) for d in ns.data_types], [a.name for a in ns.aliases], [r.name for r in ns.routes], [t.name for t in ns.annotation_types]))
    return out
# multi patch
f1='namespace a\nstruct S\n    x Int32\n'
f2='namespace a\npatch struct S\n    y Int32?\n'
f3='namespace a\npatch struct S\n    z Int32?\n'
print(sig(specs_to_ir([('1',f1),('2',f2),('3',f3)])))
print(sig(specs_to_ir([('1',f1),('3',f3),('2',f2)])))
# annotation type order
g1='namespace a\nannotation_type Bq\n    x Int32\n'
g2='namespace a\nannotation_type Aq\n    x Int32\n'
print(sig(specs_to_ir([('1',g1),('2',g2)])))
print(sig(specs_to_ir([('2',g2),('1',g1)])))
# whitelist alias
w='''namespace nsx
route r(A, Void, Void)
struct A
    x Int32
struct B
    y Int32
alias BB = B
alias LB = List(B)
'''
api = specs_to_ir([('w',w)], route_whitelist_filter={'route_whitelist':{'nsx':['r']}, 'datatype_whitelist':{}})
print(sig(api))
try:
    build([w], '/tmp/probe/out', 'g4', route_whitelist_filter={'route_whitelist':{'nsx':['r']}, 'datatype_whitelist':{}})
    importlib.invalidate_caches()
    import g4.nsx
    print('import ok')
except BaseException as e:
    print('FAIL', type(e).__name__, str(e)[-300:])
# client with ns lacking data types
c1='namespace common\nstruct A\n    x Int32\n'
c2='namespace calc\nimport common\nroute r(common.A, Void, Void)\nroute v(Void, Void, Void)\n'
api = build([c1,c2], '/tmp/probe/out', 'g5')
api = specs_to_ir([('1',c1),('2',c2)])
Compiler(api, pc, ['-m','client','-c','Client','-t','g5'], '/tmp/probe/out/g5').build()
importlib.invalidate_caches()
import g5.client as cl
class C(cl.Client):
    def request(self, *a, **k): print('REQ', a); return 1
try:
    C().calc_r(3)
except BaseException as e: print('FAIL', type(e).__name__, e)
try:
    C().calc_v()
except BaseException as e: print('FAIL', type(e).__name__, e)
