import sys, importlib
sys.path.insert(0,'/tmp/probe/out')
from gen import build
spec = '''
namespace a
struct R
    union
        x X
    p Int32
struct X extends R
    q Bytes
struct H
    r R
    b Bytes
    t Timestamp("%Y")
union U
    r R
    s H
alias LI = List(Int32)
alias MI = Map(String, Int32)
'''
build([spec], '/tmp/probe/out', 'g1')
importlib.invalidate_caches()
import g1.a as a
from stone.backends.python_rsrc import stone_serializers as ss, stone_validators as bv
def d(v, obj, **kw):
    try:
        r = ss.json_compat_obj_decode(v, obj, **kw)
        print('decoded', repr(obj)[:50], '->', repr(r)[:80])
    except bv.ValidationError as e:
        print('VE', repr(obj)[:50], e)
    except BaseException as e:
        print('ESCAPE', repr(obj)[:50], type(e).__name__, e)
for o in [1, None, 1.5, True, [], "x", {}]:
    d(a.R_validator, o)
d(a.H_validator, {'r': 3, 'b': '', 't': '2000'})
d(a.H_validator, {'r': {'.tag':'x','p':1,'q':'é'}, 'b': 'é', 't': '2000'})
d(a.H_validator, {'r': {'.tag':'x','p':1,'q':''}, 'b': '!!!', 't': '2000'})
d(a.H_validator, {'r': {'.tag':'x','p':1,'q':''}, 'b': 'QQ', 't': '2000'})
d(a.H_validator, {'r': {'.tag':'x','p':1,'q':''}, 'b': '', 't': 2000})
d(a.H_validator, {'r': {'.tag':'x','p':1,'q':''}, 'b': '', 't': '2000', 1:2})
d(a.LI_validator, ["a", None])
d(a.MI_validator, {"a": "b"})
d(a.U_validator, {'.tag': 'r', 'r': 5})
d(a.U_validator, {'.tag': 's', 'r': 5})
d(a.U_validator, {'.tag': ['s']})
d(a.U_validator, {'.tag': 'other'})
d(a.U_validator, 'other')
d(a.U_validator, 'zzz', strict=False)
d(a.R_validator, {'.tag':'zz', 'p': 1}, strict=False)
d(a.R_validator, {'.tag':'zz', 'p': 1}, strict=True)
d(bv.Nullable(a.R_validator), 5)
d(bv.Int32(), True)
d(bv.Int32(), 1.0)
d(bv.Float64(), 10**400)
d(bv.String(), None)
d(bv.Void(), 3, strict=False)
try:
    print(ss.json_decode(a.H_validator, '{"r": NaN}'))
except Exception as e: print(type(e).__name__, e)
try:
    print(ss.json_decode(bv.Float64(), 'NaN'))
except Exception as e: print(type(e).__name__, e)
try:
    print(ss.json_decode(bv.Float64(), '1e999'))
except Exception as e: print(type(e).__name__, e)
