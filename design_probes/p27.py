import json, collections
from stone.frontend.frontend import specs_to_ir
from stone.frontend.exception import InvalidSpec
from stone.ir import *
def tsig(t):
    if is_nullable_type(t): return ['N', tsig(t.data_type)]
    if is_list_type(t): return ['L', tsig(t.data_type), t.min_items, t.max_items]
    if is_map_type(t): return ['M', tsig(t.value_data_type)]
    if is_alias(t): return ['A', t.namespace.name, t.name]
    if is_user_defined_type(t): return ['U', t.namespace.name, t.name]
    return [type(t).__name__] + [repr(getattr(t,k,None)) for k in ('min_value','max_value','min_length','max_length','pattern','format')]
def sig(api):
    out=[]
    for ns in api.namespaces.values():
        o={'ns':ns.name,'doc':ns.doc,'types':[], 'aliases':[(a.name,tsig(a.data_type),a.doc) for a in ns.aliases], 'routes':[(r.name,r.version,tsig(r.arg_data_type),tsig(r.result_data_type),tsig(r.error_data_type),r.doc,sorted((r.attrs or {}).items(), key=str).__repr__(), bool(r.deprecated)) for r in ns.routes], 'anntypes':[a.name for a in ns.annotation_types]}
        for d in ns.data_types:
            o['types'].append((d.name, type(d).__name__, d.doc, d.parent_type.name if d.parent_type else None, [(f.name,tsig(f.data_type),f.doc, getattr(f,'has_default',None) and repr(f.default)) for f in d.fields], {k:json.dumps(v.value) for k,v in d.get_examples().items()}))
        out.append(o)
    return json.dumps(out, sort_keys=True, default=repr)
spec='''namespace nsx
    "ns doc"

import other

alias Al = String(min_length=1, pattern="a#b")
    "alias doc"

struct Base
    "base doc
    second line"
    union
        kid Kid
    b Int32
        "field doc"
    l List(other.Foreign, min_items=1)?

    example default
        kid = default

struct Kid extends Base
    k Al = "a#b"
    m Map(String, List(Int32))
    example default
        b = 1
        l = null
        m = {"x": [1, 2]}

union U
    v
        "void doc"
    t Timestamp("%Y")

route r:2(Base, U, Void) deprecated by r
    "route doc"
    attrs
        a = "x"

route r(Void, Void, Void)
'''
other='namespace other\nstruct Foreign\n    x Int32\n'
cfg='namespace stone_cfg\nstruct Route\n    a String = "d"\n'
def comp(text):
    try: return sig(specs_to_ir([('nsx.stone',text),('o.stone',other),('c.stone',cfg)]))
    except InvalidSpec as e: return 'INVALID %s' % e
    except Exception as e: return 'ESC %r' % e
ref = comp(spec)
assert not ref.startswith(('INVALID','ESC')), ref
lines = spec.split('\n')
res=collections.Counter(); bad=[]
inserts = ['', '   ', '# c', '    # c', '        # c', '            # deep', '\t', '#']
for i in range(len(lines)+1):
    for ins in inserts:
        t='\n'.join(lines[:i]+[ins]+lines[i:])
        r=comp(t); k='same' if r==ref else r[:60]; res[k]+=1
        if r!=ref: bad.append((i, repr(ins), lines[i-1] if i else '', r[:90]))
for i,l in enumerate(lines):
    for suf in ['  ', ' # trailing', '# t', '\t']:
        if not l.strip(): continue
        t='\n'.join(lines[:i]+[l+suf]+lines[i+1:])
        r=comp(t); k='same' if r==ref else r[:60]; res['suffix '+k]+=1
        if r!=ref: bad.append((i, 'suffix '+repr(suf), l, r[:90]))
print(res.most_common(12))
for b in bad[:25]: print(b)
