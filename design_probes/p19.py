import sys, os, shutil, importlib, json, datetime, collections, traceback
sys.path.insert(0,'/tmp/probe/out')
from gen import build
from stone.backends.python_rsrc import stone_serializers as ss, stone_validators as bv
prims = ['Bytes','Boolean','Float32','Float64(min_value=0.5)','Int32','Int64(max_value=5)','UInt32','UInt64','String','String(pattern="a\\\\d")','Timestamp("%Y-%m-%d")']
users = ['Plain','Root','Leaf','Un','Cu','Al','AlU','Opt','Ch']
base = prims+users
shapes = list(base)
for b in base:
    shapes += ['%s?'%b, 'List(%s)'%b, 'List(%s?)'%b, 'List(%s)?'%b, 'Map(String, %s)'%b, 'Map(String, %s?)'%b, 'List(List(%s))'%b, 'Map(String, List(%s))'%b]
common = '''struct Plain
    p Int32
struct Opt
    "all optional"
    o Int32 = 7
    n String?
struct Root
    union
        leaf Leaf
        leaf2 Leaf2
    r Int32
struct Leaf extends Root
    l Int32
struct Leaf2 extends Root
    m Opt?
union Un
    a
    b String
    c Plain
    d Opt?
    e Root
union_closed Cu
    c
    d Plain
union Ch extends Cu
    x Un
alias Al = String(min_length=1)
alias AlU = Un
'''
body = 'struct S\n' + ''.join('    f%d %s\n' % (i, sh) for i, sh in enumerate(shapes)) + 'union W\n' + ''.join('    t%d %s\n' % (i, sh) for i, sh in enumerate(shapes))
build(['namespace nsx\n'+common+body], '/tmp/probe/out', 'g19'); importlib.invalidate_caches()
import g19.nsx as m
def vals(sh):
    sh=sh.strip()
    if sh.endswith('?'): return [None]+vals(sh[:-1])
    if sh.startswith('List('): 
        inner=vals(sh[5:-1]); return [[], [inner[0]], list(inner[:3])]
    if sh.startswith('Map(String, '):
        inner=vals(sh[12:-1]); return [{}, {'k':inner[0]}, {'k%d'%i:v for i,v in enumerate(inner[:3])}]
    return {
     'Bytes':[b'',b'\xff\x00'], 'Boolean':[True,False], 'Float32':[0.0,1.5,3], 'Float64(min_value=0.5)':[0.5,2], 'Int32':[-2**31,0,2**31-1],
     'Int64(max_value=5)':[-2**63,5],'UInt32':[0,2**32-1],'UInt64':[0,2**64-1],'String':['','é\U0001F600"\\'],'String(pattern="a\\\\d")':['a1'],
     'Timestamp("%Y-%m-%d")':[datetime.datetime(1970,1,1),datetime.datetime(2024,2,29)],
     'Plain':[m.Plain(p=1)], 'Opt':[m.Opt(), m.Opt(o=7), m.Opt(o=8,n='x')], 'Root':[m.Leaf(r=1,l=2), m.Leaf2(r=1), m.Leaf2(r=1,m=m.Opt())], 'Leaf':[m.Leaf(r=1,l=2)],
     'Un':[m.Un.a, m.Un.b('s'), m.Un.c(m.Plain(p=1)), m.Un.d(None), m.Un.d(m.Opt(o=1)), m.Un.e(m.Leaf(r=1,l=2)), m.Un.other],
     'Cu':[m.Cu.c, m.Cu.d(m.Plain(p=3))], 'Ch':[m.Ch.x(m.Un.a), m.Cu.c, m.Ch.c], 'Al':['z'], 'AlU':[m.Un.a],
    }[sh]
from stone.backends.python_types import generate_validator_constructor
probs=collections.Counter(); examples={}
n=0
for i, sh in enumerate(shapes):
    for door in ('field','tag'):
        for v in vals(sh):
            for strict in (True, False):
                n+=1
                try:
                    if door=='field':
                        x = m.S(); setattr(x, 'f%d'%i, v); val = m.S_validator
                        # other required fields unset -> encode would fail; use compat on field validator instead
                        fv = getattr(m.S, 'f%d'%i).validator
                        j = ss.json_compat_obj_encode(fv, getattr(x,'f%d'%i)) if v is not None else None
                        if v is None: continue
                        y = ss.json_compat_obj_decode(fv, json.loads(json.dumps(j)), strict=strict)
                        j2 = ss.json_compat_obj_encode(fv, y)
                        ok = (j2==j)
                        eq = (y==getattr(x,'f%d'%i))
                    else:
                        if v is None and not sh.endswith('?'): continue
                        u = m.W('t%d'%i, v)
                        j = ss.json_compat_obj_encode(m.W_validator, u)
                        y = ss.json_compat_obj_decode(m.W_validator, json.loads(json.dumps(j)), strict=strict)
                        j2 = ss.json_compat_obj_encode(m.W_validator, y)
                        ok = (j2==j); eq = (y==u)
                    if not ok or not eq:
                        k=(door, sh, 'json-diff' if not ok else 'neq'); probs[k]+=1; examples.setdefault(k,(repr(v)[:60], json.dumps(j)[:80]))
                except Exception as e:
                    k=(door, sh, type(e).__name__, str(e)[:70]); probs[k]+=1; examples.setdefault(k, repr(v)[:60])
print('cases', n)
for k,c in probs.items(): print(c, k, examples[k])
