import sys, os, shutil, importlib, subprocess, io, json
from stone.frontend.frontend import specs_to_ir
from stone.compiler import Compiler, BackendException
cfg = '''namespace stone_cfg
struct Route
    auth String = "user"
    host String = "api"
    style String = "rpc"
    n Int32?
    b Boolean = false
'''
spec = '''namespace files
struct Meta
    union
        file FileMeta
        folder FolderMeta
    name String
    tags List(String)?
    attribs Map(String, List(Int64))
struct FileMeta extends Meta
    size UInt64 = 3
    mode Mode = add
    when Timestamp("%Y-%m-%d")?
struct FolderMeta extends Meta
    shared Boolean = false
union Mode
    add
    update String
    meta Meta
    opt FileMeta?
    nums List(Float64)
alias M2 = Meta
alias Ln = List(String?)
struct Arg
    path String(pattern="/.*", min_length=1)
    b Bytes
    f Float32(min_value=0.5)
    m M2?
    ln Ln
route get(Arg, Meta, Mode)
    "doc :route:`put:2` and :type:`Meta`"
    attrs
        style = "download"
        n = 3
route put:2(Arg, Void, Void) deprecated by get
    attrs
        style = "upload"
        b = true
route noarg(Void, Arg, Void)
'''
texts = [('cfg.stone',cfg),('files.stone',spec)]
out='/tmp/probe/out/js'; shutil.rmtree(out, ignore_errors=True); os.makedirs(out)
open(out+'/tpl.d.ts','w').write('declare module x {\n/*TYPES*/\n}\n')
open(out+'/ctpl.d.ts','w').write('class C {\n/*ROUTES*/\n}\n')
for name,args in [('js_client',['routes.mjs','-c','Dbx','--request-options']),('js_types',['types.js']),('tsd_types',['tpl.d.ts','types.d.ts']),('tsd_client',['ctpl.d.ts','client.d.ts'])]:
    mod = importlib.import_module('stone.backends.'+name)
    try:
        Compiler(specs_to_ir(texts), mod, args, out).build(); print(name,'OK')
    except BackendException as e: print(name, e.traceback[-500:])
print(subprocess.run(['node','--check',out+'/routes.mjs'],capture_output=True,text=True))
open(out+'/h.mjs','w').write('''import { routes } from './routes.mjs';
const calls=[]; const self={request:function(){calls.push(Array.from(arguments));return 1;}};
for (const k of Object.keys(routes)) { routes[k].call(self, {a:1}, {o:1}); }
console.log(JSON.stringify({names:Object.keys(routes), calls}));
''')
print(subprocess.run(['node',out+'/h.mjs'],capture_output=True,text=True).stdout)
print(open(out+'/types.d.ts').read()[600:2400])
