import sys, importlib, json, collections
sys.path.insert(0,'/tmp/probe/out')
from gen import build
from stone.backends.python_rsrc import stone_serializers as ss, stone_validators as bv
spec='''namespace nsx
struct Plain
    p Int32
    example default
        p = 1
    example two
        p = 2
struct Opt
    "all optional"
    o Int32 = 7
    n String?
    example default
    example setn
        n = "x"
    example nulln
        n = null
struct Root
    union
        leaf Leaf
        leaf2 Leaf2
    r Int32
    example default
        leaf = default
    example second
        leaf2 = default
struct Leaf extends Root
    l Int32
    example default
        r = 1
        l = 2
struct Leaf2 extends Root
    m Opt?
    example default
        r = 1
        m = default
union Un
    a
    b String
    c Plain
    d Opt?
    e Root
    f List(Plain)
    g Map(String, Int32)
    h Inner
    i Bytes
    j Timestamp("%Y-%m-%d")
    k Float64
    example default
        a = null
    example exb
        b = "x"
    example exc
        c = two
    example exd
        d = setn
    example exe
        e = second
    example exf
        f = [default, two]
    example exg
        g = {"k": 1}
    example exh
        h = i2
    example exi
        i = "YWJj"
    example exj
        j = "2000-01-02"
    example exk
        k = 3
union Inner
    i1
    i2 Int32
    example i2
        i2 = 5
alias Ap = Plain
alias Lp = List(Plain)
struct Big
    pl Plain
    op Opt?
    rt Root
    un Un
    un2 Un = a
    lp List(Plain)
    llp List(List(Plain))
    mp Map(String, Plain)
    ml Map(String, List(Int32))
    ap Ap
    alp Lp
    nn List(String?)
    by_ Bytes
    ts Timestamp("%Y-%m-%d")
    fl Float64
    f32 Float32 = 1
    example default
        pl = default
        op = null
        rt = second
        un = exd
        lp = [default]
        llp = [[default, two], []]
        mp = {"k": default}
        ml = {"k": [1,2]}
        ap = two
        alp = []
        nn = ["a", null]
        by_ = "YWJj"
        ts = "2000-01-02"
        fl = 1
    example other
        pl = two
        op = setn
        rt = default
        un = a
        un2 = exb
        lp = []
        llp = []
        mp = {}
        ml = {}
        ap = default
        alp = []
        nn = []
        by_ = ""
        ts = "1970-01-01"
        fl = 1.5
        f32 = 2
struct Child extends Big
    extra Int32?
    example default
        pl = default
        rt = second
        un = exg
        lp = [default]
        llp = []
        mp = {}
        ml = {}
        ap = two
        alp = []
        nn = []
        by_ = ""
        ts = "2000-01-02"
        fl = 0
'''
api = build([spec], '/tmp/probe/out', 'g26'); importlib.invalidate_caches()
import g26.nsx as m
for dt in api.namespaces['nsx'].data_types:
    v = getattr(m, dt.name+'_validator')
    for label, ex in dt.get_examples().items():
        doc = json.loads(json.dumps(ex.value))
        try:
            x = ss.json_compat_obj_decode(v, doc, strict=True)
            back = ss.json_compat_obj_encode(v, x)
            ok = json.loads(json.dumps(back)) == doc
            print(dt.name, label, 'OK' if ok else 'DIFF %s vs %s' % (json.dumps(doc)[:150], json.dumps(back)[:150]))
        except Exception as e:
            print(dt.name, label, type(e).__name__, str(e)[:100], json.dumps(doc)[:120])
