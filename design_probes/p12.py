import subprocess, itertools, json
names = ['alpha','beta','gamma']
seen=set(); pairs={}
for seed in range(40):
    out = subprocess.run(['/venv/bin/python','-S','-c','import json;n=%r;print(json.dumps([list(set(n))]+[list({a,b}) for a in n for b in n if a<b]))'%names],env={'PYTHONHASHSEED':str(seed)},capture_output=True,text=True).stdout
    r = json.loads(out)
    seen.add(tuple(r[0]))
    for p in r[1:]: pairs.setdefault(frozenset(p),set()).add(tuple(p))
    if len(seen)==6 and all(len(v)==2 for v in pairs.values()):
        print('covered all 6 orders by seed', seed); break
print(len(seen), {tuple(sorted(k)):len(v) for k,v in pairs.items()})
