import sys, os, shutil, importlib, json, itertools, traceback, collections
from stone.frontend.frontend import specs_to_ir
from stone.frontend.exception import InvalidSpec
from stone.compiler import Compiler, BackendException
cfg = '''namespace stone_cfg
struct Route
    auth String = "user"
    host String = "api"
    style String = "rpc"
'''
prims = ['Bytes','Boolean','Float32','Float64(min_value=0.5)','Int32','Int64(max_value=5)','UInt32','UInt64','String','String(pattern="a\\\\d\\"x")','Timestamp("%Y-%m-%d")']
users = ['Plain','Root','Leaf','Un','Cu','Al','AlU']
base = prims+users
shapes = list(base)
for b in base:
    shapes += ['%s?'%b, 'List(%s)'%b, 'List(%s?)'%b, 'List(%s)?'%b, 'Map(String, %s)'%b, 'Map(String, %s?)'%b, 'List(List(%s))'%b, 'Map(String, List(%s))'%b, 'List(Map(String, %s))'%b, 'Map(String, Map(String, %s))'%b]
defaults = {'Boolean':'true','Float32':'1.5','Float64(min_value=0.5)':'2','Int32':'-1','Int64(max_value=5)':'5','UInt32':'0','UInt64':'18446744073709551615','String':'"x\\"y"','Bytes':'"ab"','Timestamp("%Y-%m-%d")':'"2000-01-02"','Un':'a','Cu':'c','AlU':'a'}
common = '''struct Plain
    p Int32
struct Root
    union
        leaf Leaf
    r Int32
struct Leaf extends Root
    l Int32
union Un
    a
    b String
union_closed Cu
    c
    d Plain
alias Al = String(min_length=1)
alias AlU = Un
'''
CA = json.dumps({"upload":[["upload",[["input","d","Data","doc"]]]], "download":[["download_file",[["dest","d","URL","doc"]]]]})
CAO = json.dumps({"upload":[["upload",["",[["input","d","NSData *","doc"]]]]], "download":[["download_file",["",[["dest","d","NSURL *","doc"]]]]]})
SR = json.dumps({"rpc":"RpcRequest","upload":"UploadRequest","download":"DownloadRequest","download_file":"DownloadRequestFile"})
runs = {
 'python_types':['-p','pkg'], 'python_type_stubs':['-p','pkg'], 'python_client':['-m','client','-c','C','-t','pkg'],
 'js_client':['r.js'], 'js_types':['t.js'], 'tsd_types':['tpl.d.ts'], 'tsd_client':['ctpl.d.ts','c.d.ts'],
 'swift_types':[], 'swift_types_objc':['--objc'], 'swift_client':['-m','M','-c','C','-t','T','-y',CA,'-z',SR], 'swift_client_objc':['-m','M','-c','C','-t','T','-y',CA,'-z',SR,'--objc'],'obj_c_types':[], 'obj_c_client':['-m','M','-c','C','-t','T','-y',CAO,'-z',SR,'-w','user'],
}
fails = collections.defaultdict(list)
n=0
for sh in shapes:
    variants = [('field','struct S\n    f %s\nroute r(S, S, Un)\n' % sh), ('tag','union W\n    t %s\n    v\nroute r(W, W, W)\n' % sh)]
    if sh in defaults:
        variants.append(('default','struct S\n    f %s = %s\nroute r(S, Void, Void)\n' % (sh, defaults[sh])))
    if sh in users or sh.startswith(('List','Map')) or sh in prims:
        variants.append(('routearg','route r(%s, %s, %s)\n    attrs\n        style="upload"\n' % (sh,sh,sh)))
    for vname, body in variants:
        texts=[('cfg.stone',cfg),('nsx.stone','namespace nsx\n'+common+body)]
        try:
            specs_to_ir(texts)
        except InvalidSpec as e:
            fails['frontend'].append((sh,vname,e.msg)); continue
        except Exception as e:
            fails['frontend-ESC'].append((sh,vname,repr(e))); continue
        for name,args in runs.items():
            mod = importlib.import_module('stone.backends.'+name.replace('_objc','') if name.endswith('_objc') else 'stone.backends.'+name)
            out='/tmp/probe/out/sw'; shutil.rmtree(out, ignore_errors=True); os.makedirs(out)
            open(out+'/tpl.d.ts','w').write('/*TYPES*/\n'); open(out+'/ctpl.d.ts','w').write('/*ROUTES*/\n')
            n+=1
            try:
                Compiler(specs_to_ir(texts), mod, args, out).build()
            except BackendException as e:
                last = e.traceback.strip().splitlines()
                where = [l for l in last if 'stone/backends' in l][-1].strip().split('/')[-1]
                fails[name].append((sh,vname,last[-1][:100], where))
print('runs', n)
for k,v in fails.items():
    print('==',k,len(v))
    seen=set()
    for item in v:
        key=item[2:] 
        if key in seen: continue
        seen.add(key); print('   ',item)
