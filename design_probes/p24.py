import sys, importlib, os
sys.path.insert(0,'/tmp/probe/out')
from gen import build
from stone.frontend.frontend import specs_to_ir
from stone.compiler import Compiler
import stone.backends.python_client as pc
spec='''namespace nsx
alias AlN = String?
struct Arg
    an AlN
    b Int32
route r(Arg, Void, Void)
'''
build([spec], '/tmp/probe/out', 'g24')
Compiler(specs_to_ir([('a',spec)]), pc, ['-m','client','-c','Client','-t','g24'], '/tmp/probe/out/g24').build()
importlib.invalidate_caches()
import g24.client as cl, g24.nsx as m
import inspect
print(inspect.signature(m.Arg.__init__), inspect.signature(cl.Client.nsx_r))
class C(cl.Client):
    def request(self, route, ns, arg, body, timeout=None): print('REQ', arg); return 1
try: C().nsx_r(5, an='x')
except Exception as e: print(type(e).__name__, e)
try: C().nsx_r(5)
except Exception as e: print(type(e).__name__, e)
