import sys, importlib
sys.path.insert(0,'/tmp/probe/out')
from gen import build
spec='''namespace nsq
alias V = Void
alias Ns = String?
struct S
    b Bytes = "abc"
    t Timestamp("%Y") = "2000"
    f Float64 = 1
    n Ns = "x"
union U
    w V
'''
build([spec], '/tmp/probe/out', 'g14'); importlib.invalidate_caches()
try:
    import g14.nsq as m
    s = m.S()
    for k in 'btfn':
        v = getattr(s,k); print(k, repr(v), end=' ')
        try: setattr(s,k,v); print('accepted')
        except Exception as e: print(type(e).__name__, e)
except Exception as e:
    import traceback; traceback.print_exc()
