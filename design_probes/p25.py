import sys, os, shutil, importlib
from stone.frontend.frontend import specs_to_ir
from stone.compiler import Compiler
spec='''namespace nsx
alias Al = String(min_length=1)
alias AlP = Plain
struct Plain
    p Int32
struct S
    m Map(String, Al)
    mp Map(String, AlP)
    lm List(Map(String, Al))
    l List(Al)
route r(S, Void, Void)
'''
for name,args in [('swift_types',[]),('obj_c_types',[]),('python_client',['-m','client','-c','C','-t','pkg'])]:
    out='/tmp/probe/out/al_'+name; shutil.rmtree(out, ignore_errors=True)
    mod=importlib.import_module('stone.backends.'+name)
    Compiler(specs_to_ir([('a',spec),('c','namespace stone_cfg\nstruct Route\n    auth String = "user"\n    host String = "api"\n    style String = "rpc"\n')]), mod, args, out).build()
import subprocess
print(subprocess.run('grep -rn "Al\\b\\|AlP" /tmp/probe/out/al_swift_types/Nsx.swift | head -12; grep -rln "DBNSXAl\\|Al \\*\\|AlP" /tmp/probe/out/al_obj_c_types | head; grep -rn "Al\\b" /tmp/probe/out/al_obj_c_types/ApiObjects/Nsx/Headers/DBNSXS.h | head', shell=True, capture_output=True, text=True).stdout)
