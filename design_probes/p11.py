import sys, importlib, json, datetime
sys.path.insert(0,'/tmp/probe/out')
from gen import build
from stone.backends.python_rsrc import stone_serializers as ss, stone_validators as bv
spec = '''
namespace nsa
struct E
    "empty"
struct O
    a Int32 = 5
    b String?
union Inner
    i1
    i2 Int32
union_closed CU
    c1
    c2 E?
    c3 O?
    c4 Inner
    c5 Inner?
    c6 List(String?)
    c7 Map(String, O?)
    c8 O
    c9 E
union Child extends CU
    d1 Float64
struct W
    f Float64
    u CU
    ch Child
    lo List(O)
    l2 List(List(Int32))?
'''
build([spec], '/tmp/probe/out', 'g11'); importlib.invalidate_caches()
import g11.nsa as a
def rt(v, x, strict=True):
    try:
        j = ss.json_compat_obj_encode(v, x)
        y = ss.json_compat_obj_decode(v, json.loads(json.dumps(j)), strict=strict)
        j2 = ss.json_compat_obj_encode(v, y)
        print(json.dumps(j), '| eq' if y == x else '| NEQ %r' % (y,), '| same' if j2==j else '| DIFF %s' % json.dumps(j2))
    except Exception as e:
        print('EXC', type(e).__name__, e)
U=a.Cu
for x in [U.c1, U.c2(None), U.c2(a.E()), U.c3(None), U.c3(a.O()), U.c3(a.O(a=5)), U.c3(a.O(b='x')), U.c4(a.Inner.i1), U.c4(a.Inner.i2(3)), U.c5(None), U.c5(a.Inner.i1), U.c6([None,'a']), U.c7({'k':None,'j':a.O()}), U.c8(a.O()), U.c9(a.E())]:
    rt(a.Cu_validator, x)
rt(a.Child_validator, a.Child.d1(1))
rt(a.Child_validator, a.Child.c1)
rt(a.Child_validator, a.Cu.c1)
w = a.W(f=1, u=U.c1, ch=a.Cu.c1, lo=[a.O()], l2=[[1],[]])
rt(a.W_validator, w)
print(repr(w.f), type(w.f))
