import sys, os, shutil, importlib
from stone.frontend.frontend import specs_to_ir
from stone.compiler import Compiler
spec='''namespace nsx
import other
struct Plain
    p Int32
struct Root
    union
        leaf Leaf
    r Int32
struct Leaf extends Root
    l Int32
union Un
    a
    b String
    c Plain?
    d Root
    e List(Root)
    f Map(String, Root)
    g other.Foreign
    h String?
union Ch extends Un
    z Int64
alias Al = String(min_length=1)
alias AlN = String?
alias AlR = Root
alias AlL = List(Plain)
alias AlF = other.Foreign
struct S
    a Al
    an AlN
    ar AlR
    al AlL
    lr List(Root)
    lnr List(Root?)
    mr Map(String, Root)
    mlr Map(String, List(Plain))
    ln List(String?)
    nl List(String)?
    ts Timestamp("%Y")
    by_ Bytes
    d Int32 = 3
    fo other.Foreign
    un Un
'''
other='''namespace other
struct Foreign
    x Int32
'''
out='/tmp/probe/out/ts'; shutil.rmtree(out, ignore_errors=True); os.makedirs(out)
open(out+'/tpl.d.ts','w').write('/*TYPES*/\n')
for name,args in [('tsd_types',['tpl.d.ts','all.d.ts']),('tsd_types',['tpl.d.ts']),('js_types',['t.js'])]:
    mod=importlib.import_module('stone.backends.'+name)
    Compiler(specs_to_ir([('a',spec),('b',other)]), mod, args, out).build()
print(open(out+'/nsx.d.ts').read()[560:])
print('=====JS')
print(open(out+'/t.js').read()[900:3500])
