import sys, os, shutil, traceback, importlib
from stone.frontend.frontend import specs_to_ir
from stone.compiler import Compiler, BackendException
cfg = '''namespace stone_cfg
struct Route
    auth String = "user"
    host String = "api"
    style String = "rpc"
'''
spec = '''namespace files
struct Meta
    union
        file FileMeta
        folder FolderMeta
    name String
    tags List(String)?
    attribs Map(String, List(Int64))
struct FileMeta extends Meta
    size UInt64 = 3
    mode Mode = add
    when Timestamp("%Y-%m-%d")?
struct FolderMeta extends Meta
    shared Boolean = false
union Mode
    add
    update String
    meta Meta
    opt FileMeta?
    nums List(Float64)
struct Arg
    path String(pattern="/.*", min_length=1)
    b Bytes
    f Float32(min_value=0.5)
    m Meta?
route get(Arg, Meta, Mode)
    "doc"
    attrs
        style = "download"
route put:2(Arg, Void, Void) deprecated by get
    attrs
        style = "upload"
'''
api_texts = [('cfg.stone',cfg),('files.stone',spec)]
runs = [
 ('swift_types', []),
 ('swift_types', ['--objc']),
 ('swift_client', ['-m','Client','-c','ClientBase','-t','Transport','-y','x','-z','{}']),
 ('obj_c_types', []),
 ('obj_c_client', ['-m','Client','-c','ClientBase','-t','Transport','-y','x','-z','{}']),
]
for name, args in runs:
    mod = importlib.import_module('stone.backends.'+name)
    out = '/tmp/probe/out/'+name
    shutil.rmtree(out, ignore_errors=True)
    try:
        Compiler(specs_to_ir(api_texts), mod, args, out).build()
        print(name, args, 'OK', sorted(os.listdir(out))[:8])
    except BackendException as e:
        print(name, args, 'BackendException', e.traceback[-600:])
    except SystemExit as e:
        print(name, args, 'SystemExit')
