import sys, os, importlib, shutil, subprocess
from stone.frontend.frontend import specs_to_ir
from stone.compiler import Compiler
import stone.backends.python_types as pt
def build(texts, out, pkg='gen', **kw):
    api = specs_to_ir([('f%d.stone'%i, s) for i,s in enumerate(texts)], **kw)
    d = os.path.join(out, pkg)
    shutil.rmtree(d, ignore_errors=True)
    c = Compiler(api, pt, ['-p', pkg], d)
    c.build()
    return api
