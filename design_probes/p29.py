# throwaway: size of a simplified spec-construction state space (canonical states per depth)
import itertools, collections, time
PRIMS=['I','S']
def types_menu(state):
    names=[d[1] for d in state if d[0] in ('struct','union','alias')]
    base=PRIMS+names
    out=list(base)
    for b in base: out += [b+'?', 'L('+b+')', 'M('+b+')']
    return out
def canon(state):
    # relabel by structural sort: iterate to fixpoint (cheap approximation: sort by shape with names erased, then rename)
    defs=list(state)
    def shape(d, ren):
        def r(t):
            for k,v in ren.items(): t=t.replace('<%s>'%k, '<%s>'%v)
            return t
        return (d[0],)+tuple(r(str(x)) for x in d[2:])
    # names are wrapped as <name> inside type strings
    order=sorted(defs, key=lambda d:(d[0], len(str(d)), str(d[2:])))
    ren={}; cnt=collections.Counter()
    for d in order:
        cnt[d[0]]+=1; ren[d[1]]='%s%d'%(d[0][0].upper(),cnt[d[0]])
    out=[]
    for d in defs:
        s=str(d[2:])
        for k,v in ren.items(): s=s.replace('<%s>'%k,'<%s>'%v)
        out.append((d[0],ren[d[1]],s))
    return tuple(sorted(out))
def actions(state):
    n=len(state)
    names=[d[1] for d in state]
    fresh='n%d'%n
    succ=[]
    succ.append(('struct+', state+(('struct',fresh,None,()),)))
    succ.append(('union+', state+(('union',fresh,None,()),)))
    menu=PRIMS+['<%s>'%d[1] for d in state if d[0] in ('struct','union','alias')]
    menu2=list(menu)
    for b in menu: menu2+=[b+'?','L(%s)'%b,'M(%s)'%b]
    for t in menu2: succ.append(('alias+', state+(('alias',fresh,t),)))
    for i,d in enumerate(state):
        if d[0]=='struct':
            if len(d[3])<3:
                for t in menu2:
                    nd=(d[0],d[1],d[2],d[3]+(t,)); succ.append(('field+', state[:i]+(nd,)+state[i+1:]))
            if d[2] is None:
                for e in state:
                    if e[0]=='struct' and e[1]!=d[1] and e[2] is None:  # avoid cycles crudely
                        nd=(d[0],d[1],'<%s>'%e[1],d[3]); succ.append(('extends+', state[:i]+(nd,)+state[i+1:]))
        if d[0]=='union' and len(d[3])<3:
            for t in ['void']+menu2:
                nd=(d[0],d[1],d[2],d[3]+(t,)); succ.append(('tag+', state[:i]+(nd,)+state[i+1:]))
    ud=[ '<%s>'%d[1] for d in state if d[0] in ('struct','union')]+['Void']
    if sum(1 for d in state if d[0]=='route')<2:
        for a in ud:
            for r in ud[:2]+['Void']:
                succ.append(('route+', state+(('route',fresh,a,r),)))
    return succ
seen={canon(())}; frontier=[()]; trans=0
t0=time.time()
for depth in range(1,6):
    nxt=[]
    for s in frontier:
        for lab,ns in actions(s):
            trans+=1
            c=canon(ns)
            if c not in seen: seen.add(c); nxt.append(ns)
    frontier=nxt
    print('depth',depth,'new',len(nxt),'total',len(seen),'transitions',trans,'t=%.1fs'%(time.time()-t0))
    if len(seen)>400000: break
