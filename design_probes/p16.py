import sys, os, shutil, importlib, json
from stone.frontend.frontend import specs_to_ir
from stone.compiler import Compiler, BackendException
src = open('p8.py').read()
cfg = src.split("cfg = '''")[1].split("'''")[0]; spec = src.split("spec = '''")[1].split("'''")[0]
texts=[('cfg.stone',cfg),('files.stone',spec)]
CA = json.dumps({"upload":[["upload",["",[["input","Data","doc"]]]]], "download":[["download_file",["",[["dest","URL","doc"]]]]]})
SR = json.dumps({"rpc":"RpcRequest","upload":"UploadRequest","download":"DownloadRequest","download_file":"DownloadRequestFile"})
runs = {
 'python_types':['-p','pkg'], 'python_type_stubs':['-p','pkg'], 'python_client':['-m','client','-c','C','-t','pkg'],
 'js_client':['r.js'], 'js_types':['t.js'], 'tsd_types':['tpl.d.ts'], 'tsd_client':['ctpl.d.ts','c.d.ts'],
 'swift_types':[], 'swift_client':['-m','M','-c','C','-t','T','-y',CA,'-z',SR], 'obj_c_types':[], 'obj_c_client':['-m','M','-c','C','-t','T','-y',CA,'-z',SR,'-w','user'],
}
def files(d):
    r=[]
    for root,_,fs in os.walk(d):
        for f in fs: r.append(os.path.relpath(os.path.join(root,f),d))
    return sorted(r)
for name,args in runs.items():
    mod = importlib.import_module('stone.backends.'+name)
    res=[]
    for manifest in (False, True):
        out='/tmp/probe/out/m_%s_%d'%(name,manifest); shutil.rmtree(out, ignore_errors=True); os.makedirs(out)
        open(out+'/tpl.d.ts','w').write('/*TYPES*/\n'); open(out+'/ctpl.d.ts','w').write('/*ROUTES*/\n')
        try:
            c=Compiler(specs_to_ir(texts), mod, args, out, output_manifest=manifest); c.build()
            res.append((files(out), c.output_manifest()))
        except BackendException as e:
            res.append(('EXC', e.traceback[-300:])); 
    real, man = res
    if real[0]=='EXC' or man[0]=='EXC': print(name, 'EXC', real if real[0]=='EXC' else man); continue
    tpl={'tpl.d.ts','ctpl.d.ts'}
    print(name, 'real', len(set(real[0])-tpl), 'manifest-run files', sorted(set(man[0])-tpl), 'equal:', sorted(set(real[0])-tpl)==man[1])
    if sorted(set(real[0])-tpl)!=man[1]: print('   real-only', sorted(set(real[0])-tpl-set(man[1]))[:5], 'manifest-only', sorted(set(man[1])-set(real[0]))[:5])
