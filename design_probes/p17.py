import sys, os, shutil, importlib, json, hashlib
from stone.frontend.frontend import specs_to_ir
from stone.compiler import Compiler, BackendException
cfg = '''namespace stone_cfg
struct Route
    auth String = "user"
    host String = "api"
    style String = "rpc"
'''
spec1 = '''namespace files
import common
import annots
annotation OA = Omitted("alpha")
annotation OB = Omitted("beta")
annotation OC = Omitted("gamma")
annotation N1 = annots.Note("a")
annotation N2 = annots.Mark("b")
struct Meta
    union
        file FileMeta
        folder FolderMeta
    name String
        @OA
        @N1
        @N2
    tags List(String)?
        @OB
    owner common.User
        @OC
struct FileMeta extends Meta
    size UInt64 = 3
        @OB
    mode Mode = add
struct FolderMeta extends Meta
    shared Boolean = false
        @OA
union Mode
    "doc :route:`get` :route:`put:2` :type:`common.User`"
    add
        @OA
    update String
        @OB
    meta Meta
        @OC
route get(Meta, Meta, Mode)
    attrs
        style = "download"
route put:2(Meta, Void, Void) deprecated by get
    attrs
        style = "upload"
'''
spec2 = '''namespace common
import annots
struct User
    id String
    n annots.Num
alias Uid = String
'''
spec3 = '''namespace annots
annotation_type Note
    x String
annotation_type Mark
    y String
alias Num = Int32
'''
texts=[('cfg.stone',cfg),('files.stone',spec1),('common.stone',spec2),('annots.stone',spec3)]
CA = json.dumps({"upload":[["upload",[["input","d","Data","doc"]]]], "download":[["download_file",[["dest","d","URL","doc"]]]]})
CAO = json.dumps({"upload":[["upload",["",[["input","d","NSData *","doc"]]]]], "download":[["download_file",["",[["dest","d","NSURL *","doc"]]]]]})
SR = json.dumps({"rpc":"RpcRequest","upload":"UploadRequest","download":"DownloadRequest","download_file":"DownloadRequestFile"})
runs = {
 'python_types':['-p','pkg'], 'python_type_stubs':['-p','pkg'], 'python_client':['-m','client','-c','C','-t','pkg'],
 'js_client':['r.js'], 'js_types':['t.js'], 'tsd_types':['tpl.d.ts'], 'tsd_client':['ctpl.d.ts','c.d.ts'],
 'swift_types':[], 'swift_client':['-m','M','-c','C','-t','T','-y',CA,'-z',SR], 'obj_c_types':[], 'obj_c_client':['-m','M','-c','C','-t','T','-y',CAO,'-z',SR,'-w','user'],
}
res={}
for name,args in runs.items():
    mod = importlib.import_module('stone.backends.'+name)
    out='/tmp/probe/out/d_%s'%name; shutil.rmtree(out, ignore_errors=True); os.makedirs(out)
    open(out+'/tpl.d.ts','w').write('/*TYPES*/\n'); open(out+'/ctpl.d.ts','w').write('/*ROUTES*/\n')
    try:
        Compiler(specs_to_ir(texts), mod, args, out).build()
        h={}
        for root,_,fs in os.walk(out):
            for f in fs:
                p=os.path.join(root,f); h[os.path.relpath(p,out)]=hashlib.md5(open(p,'rb').read()).hexdigest()
        res[name]=h
    except BackendException as e:
        res[name]='EXC '+e.traceback.strip().splitlines()[-1]
print(json.dumps(res))
