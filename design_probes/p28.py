import itertools, collections
from p27 import comp, spec, ref
import re
# split into header + definitions (blank-line separated top-level blocks)
blocks = re.split(r'\n(?=\S)', spec.strip('\n'))
header = blocks[:2]   # namespace (with doc), import
defs = blocks[2:]
print(len(defs), [d.split('\n')[0] for d in defs])
res=collections.Counter(); bad=[]
for perm in itertools.permutations(range(len(defs))):
    t='\n'.join(header+[defs[i] for i in perm])+'\n'
    r=comp(t); k='same' if r==ref else r[:80]; res[k]+=1
    if r!=ref and len(bad)<5: bad.append((perm, r[:200]))
print(res.most_common(5)); print(bad)
# splits into two files: each subset of defs goes to file 2
res=collections.Counter()
from stone.frontend.frontend import specs_to_ir
import p27
for mask in range(1, 2**len(defs)-1):
    a=[defs[i] for i in range(len(defs)) if not mask>>i&1]; b=[defs[i] for i in range(len(defs)) if mask>>i&1]
    t1='\n'.join(header+a)+'\n'; t2='namespace nsx\nimport other\n'+'\n'.join(b)+'\n'
    for order in (0,1):
        files=[('1.stone',t1),('2.stone',t2)]
        if order: files.reverse()
        try:
            r=p27.sig(specs_to_ir(files+[('o.stone',p27.other),('c.stone',p27.cfg)]))
        except Exception as e: r='EXC %r'%e
        res['same' if r==ref else r[:100]]+=1
print(res.most_common(5))
