import sys, io, contextlib
import stone.cli as cli
def run(argv, stdin=None):
    old = sys.argv, sys.stdin
    sys.argv = ['stone.cli'] + argv
    if stdin is not None:
        class S: buffer = io.BytesIO(stdin.encode())
        sys.stdin = S()
    err = io.StringIO(); out = io.StringIO()
    try:
        with contextlib.redirect_stderr(err), contextlib.redirect_stdout(out):
            api = cli.main()
        code = 0
    except SystemExit as e:
        code = e.code; api=None
    finally:
        sys.argv, sys.stdin = old
    return code, api, err.getvalue()
base = ['/tmp/probe/cli/rec.stoneg.py', '/tmp/probe/out/cliout', 'cli/cfg.stone','cli/a.stone','cli/b.stone']
for extra in [[], ['-f','auth="app" or b=true and n=null'], ['-f','(auth="app" or b=true) and n=null'], ['-f','n=null and'], ['-f','zz=1'],['-w','na'],['-b','na'],['-w','zz'],['-a','auth','-a','n'],['-a',':all'],['-a','zz'], ['-f', 'f=2'], ['-f','f!=2.0'], ['-f', "auth='app'"]]:
    code, api, err = run(extra + base)
    if api:
        print(extra, code, {ns.name: [(r.name_with_version(), dict(r.attrs)) for r in ns.routes] for ns in api.namespaces.values()}, [f.name for f in api.route_schema.fields], err[:100])
    else:
        print(extra, code, err[:200])
txt = open('cli/cfg.stone').read()+open('cli/a.stone').read()+open('cli/b.stone').read()
code, api, err = run(['/tmp/probe/cli/rec.stoneg.py', '/tmp/probe/out/cliout'], stdin=txt)
print('stdin', code, list(api.namespaces) if api else err)
code, api, err = run(['/tmp/probe/cli/rec.stoneg.py', '/tmp/probe/out/cliout'], stdin='namespace a\nstruct S\n    "about this namespace"\n    x Int32\n')
print('stdin2', code, list(api.namespaces) if api else err)
