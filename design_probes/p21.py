import sys, os, shutil, importlib, ast, inspect
sys.path.insert(0,'/tmp/probe/out')
from stone.frontend.frontend import specs_to_ir
from stone.compiler import Compiler
import stone.backends.python_types as pt, stone.backends.python_type_stubs as ps
src = open('p17.py').read()
def grab(n): return src.split(n+" = '''")[1].split("'''")[0]
texts=[('cfg.stone',grab('cfg')),('files.stone',grab('spec1')),('common.stone',grab('spec2')),('annots.stone',grab('spec3'))]
out='/tmp/probe/out/g21'; shutil.rmtree(out, ignore_errors=True)
Compiler(specs_to_ir(texts), pt, ['-p','g21'], out).build()
Compiler(specs_to_ir(texts), ps, ['-p','g21'], out).build()
importlib.invalidate_caches()
for ns in ['files','common','annots']:
    mod = importlib.import_module('g21.'+ns)
    tree = ast.parse(open(out+'/%s.pyi'%ns).read())
    stub_top=set(); stub_cls={}
    for node in tree.body:
        if isinstance(node, ast.ClassDef):
            stub_top.add(node.name); mem=set()
            for b in node.body:
                if isinstance(b,(ast.FunctionDef,)): mem.add(b.name)
                elif isinstance(b, ast.AnnAssign): mem.add(b.target.id)
            stub_cls[node.name]=(mem,[ast.unparse(x) for x in node.bases])
        elif isinstance(node, ast.AnnAssign): stub_top.add(node.target.id)
        elif isinstance(node, ast.Assign): stub_top.update(t.id for t in node.targets)
    rt_top={n for n in vars(mod) if not n.startswith('__') and not inspect.ismodule(getattr(mod,n))}
    print(ns, 'runtime-only', sorted(rt_top-stub_top), 'stub-only', sorted(stub_top-rt_top))
    for cname,(mem,bases) in stub_cls.items():
        cls=getattr(mod,cname,None)
        if cls is None: continue
        rt={n for n in dir(cls) if not n.startswith('__')} 
        own={n for n in vars(cls) if not n.startswith('__')}
        print('  ',cname, bases, [b.__name__ for b in cls.__bases__], 'stub-not-rt', sorted(mem-rt), 'rt-own-not-stub', sorted(n for n in own-mem if not n.startswith('_')))
