import traceback
from stone.frontend.frontend import specs_to_ir
from stone.frontend.exception import InvalidSpec
def t(name, *texts):
    try:
        api = specs_to_ir([('f%d.stone'%i, s) for i,s in enumerate(texts)])
        print(name, '-> OK', list(api.namespaces))
        return api
    except InvalidSpec as e:
        print(name, '-> InvalidSpec', e)
    except BaseException as e:
        print(name, '-> ESCAPE', type(e).__name__, e)
t('trunc1', 'namespace')
t('trunc2', 'namespace a\nstruct')
t('trunc3', 'namespace a\nstruct S\n    f')
t('trunc4', 'namespace a\nroute r(')
t('empty', '')
t('onlyimport', 'import x\n')
t('two ns', 'namespace a\nnamespace b\n')
t('not namespace kw', 'alias a\n')
t('kw', 'doc a\n')
t('list default', 'namespace a\nstruct S\n    f List(String) = 3\n')
t('map default', 'namespace a\nstruct S\n    f Map(String, String) = 3\n')
t('struct default', 'namespace a\nstruct T\n    x Int32\nstruct S\n    f T = 3\n')
t('float default str', 'namespace a\nstruct S\n    f Float64 = "x"\n')
t('float default null', 'namespace a\nstruct S\n    f Float64 = null\n')
t('union default nontag', 'namespace a\nunion U\n    a\nstruct S\n    f U = 3\n')
t('void attr', 'namespace stone_cfg\nstruct Route\n    f Int32\n', 'namespace a\nroute r(Void,Void,Void)\n    attrs\n        f="x"\n')
t('list attr', 'namespace stone_cfg\nstruct Route\n    f List(Int32)\n', 'namespace a\nroute r(Void,Void,Void)\n    attrs\n        f=1\n')
t('ts bad', 'namespace a\nstruct S\n    f Timestamp(3)\n')
t('list bad arg', 'namespace a\nstruct S\n    f List(3)\n')
t('list min str', 'namespace a\nstruct S\n    f List(String, min_items="a")\n')
t('map ex', 'namespace a\nstruct S\n    f Map(String, Int32)\n    example default\n        f = 3\n')
t('string pattern int', 'namespace a\nstruct S\n    f String(pattern=3)\n')
t('int min float', 'namespace a\nstruct S\n    f Int32(min_value=1.5)\n')
t('typeref as arg', 'namespace a\nstruct S\n    f Int32(min_value=String)\n')
t('annotation args bad', 'namespace a\nannotation A = Omitted()\n')
t('annotation args bad2', 'namespace a\nannotation A = Omitted("a","b")\n')
t('annotation args kw', 'namespace a\nannotation A = Omitted(x="a")\n')
t('annotation Deprecated args', 'namespace a\nannotation A = Deprecated("a")\n')
