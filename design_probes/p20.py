import sys, importlib, json
sys.path.insert(0,'/tmp/probe/out')
from gen import build
from stone.backends.python_rsrc import stone_serializers as ss, stone_validators as bv
A = '''namespace nsx
struct Plain
    p Int32
struct Root
    union
        leaf Leaf
    r Int32
struct Leaf extends Root
    l Int32
union Un
    a
    v
    b String
    c Plain
union_closed Cu
    c
    u Un
struct H
    lp List(Plain)
    mp Map(String, Plain)
    lu List(Un)
    mu Map(String, Un?)
    lr List(Root)
    r Root?
    cu Cu
    un Un
'''
B = A.replace('struct Plain\n    p Int32\n','struct Plain\n    p Int32\n    q String?\n    d Int32 = 4\n').replace('    b String\n','    b String\n    nw Int32\n    nv\n').replace('    v\n    b String','    v Plain?\n    b String').replace('struct Leaf extends Root\n    l Int32\n','struct Leaf extends Root\n    l Int32\nstruct Leaf2 extends Root\n    z Int32\n').replace('        leaf Leaf\n','        leaf Leaf\n        leaf2 Leaf2\n')
build([A], '/tmp/probe/out', 'ga'); build([B], '/tmp/probe/out', 'gb'); importlib.invalidate_caches()
import ga.nsx as a, gb.nsx as b
def P(**k): return b.Plain(p=1, **k)
vals = {
 'plainnew': b.H(lp=[P(q='x',d=5)], mp={'k':P(q='y')}, lu=[b.Un.nw(3), b.Un.nv, b.Un.v(P(q='z')), b.Un.v(None), b.Un.c(P(q='w'))], mu={'k': b.Un.nw(1), 'n': None}, lr=[b.Leaf2(r=1,z=2), b.Leaf(r=1,l=1)], r=b.Leaf2(r=5,z=6), cu=b.Cu.u(b.Un.nv), un=b.Un.nw(9)),
}
for name, v in vals.items():
    j = json.loads(ss.json_encode(b.H_validator, v))
    print(json.dumps(j))
    for strict in (False, True):
        try:
            y = ss.json_compat_obj_decode(a.H_validator, j, strict=strict)
            print(' strict' if strict else ' lenient', y)
        except bv.ValidationError as e: print(' strict' if strict else ' lenient', 'VE', e)
        except Exception as e: print('ESC', type(e).__name__, e)
# A -> B
va = a.H(lp=[a.Plain(p=1)], mp={}, lu=[a.Un.v, a.Un.a], mu={}, lr=[a.Leaf(r=1,l=2)], cu=a.Cu.c, un=a.Un.v)
j = json.loads(ss.json_encode(a.H_validator, va))
for strict in (False, True):
    try:
        y = ss.json_compat_obj_decode(b.H_validator, j, strict=strict); print('A->B', strict, y, y.lp[0].d, y.lp[0].q)
    except Exception as e: print('A->B', strict, type(e).__name__, e)
