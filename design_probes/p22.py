import sys, importlib, json
sys.path.insert(0,'/tmp/probe/out')
from gen import build
from stone.backends.python_rsrc import stone_serializers as ss, stone_validators as bv
spec='''namespace nsx
struct Plain
    p Int32
struct Opt
    "all optional"
    o Int32 = 7
    n String?
struct Root
    union
        leaf Leaf
    r Int32
struct Leaf extends Root
    l Int32
struct RootC
    union_closed
        leafc LeafC
    r Int32
struct LeafC extends RootC
    l Int32
union Un
    a
    b String
    c Plain
    d Opt?
    e Root
    f String?
union_closed Cu
    c
    d Plain
struct H
    i Int32(min_value=1, max_value=5)
    fl Float64
    s String(min_length=1, max_length=3, pattern="a*")
    bt Bytes
    li List(Int32, min_items=1, max_items=2)
    op Opt
    df Int32 = 3
'''
build([spec], '/tmp/probe/out', 'g22'); importlib.invalidate_caches()
import g22.nsx as m
def d(v, obj):
    out=[]
    for strict in (True, False):
        try:
            r = ss.json_compat_obj_decode(v, obj, strict=strict); out.append('OK %r' % (r,))
        except bv.ValidationError as e: out.append('VE')
        except BaseException as e: out.append('ESC %s' % type(e).__name__)
    print(json.dumps(obj)[:70].ljust(70), '| strict', out[0][:50].ljust(50), '| lenient', out[1][:50])
H = {'i':1,'fl':1,'s':'a','bt':'','li':[1],'op':{}}
print('--- struct H')
for k,v in [('i',1.0),('i',True),('i',0),('i',6),('fl',True),('fl','1'),('s',''),('s','aaaa'),('s','ab'),('bt','Zg='),('bt','Zg'),('bt','Z g=='),('li',[]),('li',[1,2,3]),('li',[1.5]),('op',None),('df',None),('df',3),('op',[]),('zz',1),('.tagx',1),('.tag','q')]:
    o=dict(H); o[k]=v; d(m.H_validator,o)
o=dict(H); del o['fl']; d(m.H_validator,o)
print('--- Opt'); 
for o in [None, {}, [], 'x', {'o':None}, {'n':None}]: d(m.Opt_validator,o)
print('--- Un')
for o in ['a','b','c','d','e','f','other','zz', {'.tag':'a'}, {'.tag':'a','a':None}, {'.tag':'a','a':1}, {'.tag':'a','zz':1}, {'.tag':'b'}, {'.tag':'b','b':'x','zz':1}, {'.tag':'c','p':1}, {'.tag':'c','p':1,'zz':1}, {'.tag':'c','c':{'p':1}}, {'.tag':'d'}, {'.tag':'d','o':1}, {'.tag':'d','d':None}, {'.tag':'e','e':{'.tag':'leaf','r':1,'l':1}}, {'.tag':'e','.tag2':'leaf','r':1,'l':1}, {'.tag':'f'}, {'.tag':'f','f':None}, {'.tag':'f','f':'x'}, {'.tag':'zz'}, {'.tag':'other'}, {'.tag':None}, {}, [], 3, None]:
    d(m.Un_validator,o)
print('--- Cu')
for o in ['c','zz',{'.tag':'zz'},'other']: d(m.Cu_validator,o)
print('--- Root / RootC / Leaf')
for o in [{'.tag':'leaf','r':1,'l':1},{'.tag':'leaf','r':1},{'.tag':'zz','r':1},{'.tag':'zz'},{'r':1},{'.tag':'leaf','r':1,'l':1,'zz':1}]: d(m.Root_validator,o)
for o in [{'.tag':'zz','r':1},{'.tag':'leafc','r':1,'l':1}]: d(m.RootC_validator,o)
for o in [{'r':1,'l':1},{'.tag':'leaf','r':1,'l':1},{'.tag':'zz','r':1,'l':1}]: d(m.Leaf_validator,o)
