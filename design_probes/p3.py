import sys, importlib, json
sys.path.insert(0,'/tmp/probe/out')
from gen import build
from stone.backends.python_rsrc import stone_serializers as ss, stone_validators as bv
from stone.frontend.frontend import specs_to_ir
spec = '''
namespace a
annotation OA = Omitted("alpha")
annotation OB = Omitted("beta")
struct G
    g1 String
    g2 String
        @OA
struct P extends G
    p1 String
struct C extends P
    c1 String
    c2 String
        @OA
union U
    x
    y String
        @OA
    z String
        @OB
struct D
    s String(pattern="abc") = "abcdef"
'''
api = build([spec], '/tmp/probe/out', 'g3')
importlib.invalidate_caches()
import g3.a as a
class Perm:
    def __init__(s, p): s.permissions = p
c = a.C(g1='g1', p1='p1', c1='c1')
c.c2 = 'c2'; c.g2 = 'g2'
print('none :', ss.json_encode(a.C_validator, c))
print('alpha:', ss.json_encode(a.C_validator, c, caller_permissions=Perm(['alpha'])))
p = a.P(g1='g1', p1='p1'); p.g2='g2'
print('P alpha:', ss.json_encode(a.P_validator, p, caller_permissions=Perm(['alpha'])))
print(open('/tmp/probe/out/g3/a.py').read().split('U._permissioned_tagmaps')[1][:60])
d = a.D()
print('default', repr(d.s))
try:
    d.s = d.s; print('assign ok')
except Exception as e: print('assign', type(e).__name__, e)
