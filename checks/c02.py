"""C02 - the API description is a faithful, closed image of the accepted specs.

Oracle A: for every valid state of the construction machine (same exploration as C01) and every valid
item of the parameter/literal space, impl.signature(api) must equal refsem.expected_signature(model).
Oracle B: closure/ordering invariants on every accepted input, including accepted text mutants of C03.
"""
import collections

from mc import explore, render, impl, refsem, paramspace, textspace
from mc.explore import viol
from checks import c01

PROP = 'C02'


def judge(model, specs, trace=()):
    out = impl.compile_specs(specs)
    if out.kind != 'ok':
        return 'not-accepted:' + out.kind, []      # C01's business
    v = []
    try:
        sig = impl.signature(out.api)
    except Exception as e:   # the description cannot even be walked
        et, inner, _ = explore.stone_frame_identity(e)
        return 'signature-crash', [viol('describe:%s@%s' % (et, inner), 'walking the Api raised %r' % (e,), {'specs': specs})]
    if model is not None:
        exp = refsem.expected_signature(model)
        d = refsem.first_diff(exp, sig)
        if d:
            v.append(viol('diff:' + refsem.diff_identity(d[0]), 'Api differs from the declared spec at %s: expected %r, got %r' % d,
                          {'specs': specs, 'trace': list(trace)}, repr(d[2])[:1000], repr(d[1])[:1000]))
    for c in impl.closure_invariants(out.api):
        import re
        v.append(viol('invariant:' + re.sub(r"[A-Za-z_]*\d+|'[^']*'|\b[A-Z][a-z]+\w*", '_', c)[:70], c, {'specs': specs, 'trace': list(trace)}))
    return 'accepted', v


def task(item):
    model, trace, pname = item[:3]
    specs = render.render(model)
    oc, v = judge(model, specs, trace)
    n = 1
    # nested definitions are identical to top-level ones (lang_ref): every inline rendering must give the same description
    for lab, ispecs in render.render_inline_variants(model):
        n += 1
        o2, v2 = judge(model, ispecs, tuple(trace) + (lab,))
        for x in v2:
            x['id'] = 'nested-definition:' + x['id']
        v += v2
    return {'outcome': oc, 'viol': v, 'n': n, 'transitions': n}


def ptask(item):
    label, ok, rule, specs, model = item
    oc, v = judge(model, specs)
    return {'outcome': 'param:' + oc, 'viol': v}


def ttask(item):
    label, specs = item
    oc, v = judge(None, specs)
    return {'outcome': 'text:' + oc, 'viol': v}


def run(tier, seed):
    r = explore.Run(PROP, tier, seed)
    states = c01.gather_states(tier, r)
    for s, tr, pn, fl, d in states[:2] + states[-2:]:
        r.sample({'profile': pn, 'trace': list(tr), 'specs': render.render(s)})
    r.run_tasks(task, states, budget=120)
    pitems = [i for i in paramspace.items(tier, with_models=True) if i[1]]
    r.bounds['parameter_space_items'] = len(pitems)
    r.run_tasks(ptask, pitems, order_base=len(states))
    titems = list(textspace.items('quick'))
    r.bounds['text_mutants_checked_for_invariants'] = len(titems)
    r.run_tasks(ttask, titems, order_base=len(states) + len(pitems), budget=30)
    r.assumptions = ['expected signature computed from the model by mc/refsem.py using only the documented elaboration',
                     'doc text after annotation-driven warning injection is not compared (lang_ref promises only that warnings are injected)']
    r.finish('every valid state of the C01 exploration: whole-description equality between impl.signature(api) and '
             'refsem.expected_signature(model); closure/ordering invariants additionally on every accepted text mutant of C03')


def replay(rep):
    specs = [tuple(x) for x in rep['inputs']['specs']]
    out = impl.compile_specs(specs)
    print('compile:', out.brief())
    if out.kind != 'ok':
        return 0
    bad = impl.closure_invariants(out.api)
    print('invariants:', bad)
    print('recorded difference: %s' % rep.get('what'))
    if bad or rep['identity'].startswith('diff:'):
        # the diff oracle needs the model; re-run the check to re-evaluate it
        print('VIOLATION property=%s replay=replayed' % PROP)
        return 1
    return 0
