"""C14 - generated Python client methods send the right route and argument.

Route shapes are enumerated as a complete bounded product and packed into specs: argument struct = every sequence of
field kinds (required, nullable, defaulted with every literal kind, defaulted with a local / foreign tag reference,
aliased) up to the length bound, flat and split over inheritance depth 1-2; plus union and Void arguments; x result in
{Void, struct} x version {1,2,3} x deprecation {none, plain, by} x style {rpc, upload, download} x namespace layout
{types and routes together, routes in a namespace without types, argument type imported}.
python_types + python_client are generated into one package; a subclass records request(); every method is called
all-positional, all-keyword and required-only.
"""
import collections
import inspect
import itertools
import os
import warnings

from mc import explore, impl
from mc.explore import viol
from checks import rtbase

PROP = 'C14'
_U = {}

# kind -> (type text, default text or None, python default, a non-default value, optional?)
KINDS = {
    'r': ('Int32', None, None, 7, False),
    's': ('String', None, None, 'xyz', False),
    'n': ('String?', None, None, 'nn', True),
    'd': ('Int32', '3', 3, 9, True),
    'e': ('String', '"dd"', 'dd', 'ee', True),
    'b': ('Boolean', 'true', True, False, True),
    'f': ('Float64', '2', 2.0, 1.5, True),
    'g': ('Float64', '1.0', 1.0, 0.5, True),
    'c': ('Boolean', 'false', False, True, True),
    'h': ('Float32', '0', 0.0, 2.5, True),
    'i': ('Int64', '1', 1, 0, True),
    't': ('Mode', 'fast', ('tag', 'rt', 'Mode', 'fast'), ('tag', 'rt', 'Mode', 'slow'), True),
    'x': ('other.Xmode', 'on', ('tag', 'other', 'Xmode', 'on'), ('tag', 'other', 'Xmode', 'off'), True),
    'y': ('Amode', 'slow', ('tag', 'rt', 'Mode', 'slow'), ('tag', 'rt', 'Mode', 'fast'), True),              # local alias of a local union
    'z': ('Axmode', 'on', ('tag', 'other', 'Xmode', 'on'), ('tag', 'other', 'Xmode', 'off'), True),          # local alias of a foreign union
    'w': ('other.Oxmode', 'off', ('tag', 'other', 'Xmode', 'off'), ('tag', 'other', 'Xmode', 'on'), True),   # foreign alias of a foreign union
    'a': ('Aint', None, None, 5, False),
    'l': ('List(Int32)', None, None, [1, 2], False),
}
QUICK_KINDS = ['r', 'n', 'd', 'e', 'b', 'g', 't', 'x', 'z', 'w', 'a']
LEN4_KINDS = ['r', 'n', 'd', 't', 'x', 'a']
ALL_KINDS = list(KINDS)


def struct_shapes(tier):
    maxlen = 3 if tier == 'quick' else 4
    out = []
    for n in range(1, maxlen + 1):
        # thorough: every kind up to length 3, the quick kinds at length 4 (18^4 sequences would be one spec of 400k structs)
        kinds = QUICK_KINDS if tier == 'quick' else (LEN4_KINDS if n == 4 else ALL_KINDS)
        for seq in itertools.product(kinds, repeat=n):
            splits = [(n,)]
            if n >= 2:
                splits.append((1, n - 1))
                splits.append((n - 1, 1))
            if n >= 3:
                splits.append((1, 1, n - 2))
            if n == 4:
                splits = [(n,), (1, n - 1), (1, 1, n - 2)]
            if tier == 'quick' and n == 3:
                # the interleavings that matter: keep every sequence flat, and inheritance splits for sequences mixing required/optional
                if all(KINDS[k][4] for k in seq) or not any(KINDS[k][4] for k in seq):
                    splits = splits[:1]
            for sp in splits:
                out.append((seq, sp))
    return out


def build_specs(tier):
    shapes = struct_shapes(tier)
    lines = ['namespace rt', '', 'import other', '', 'alias Aint = Int32(min_value=0)', '', 'union Mode', '    fast', '    slow', '',
             'alias Amode = Mode', '', 'alias Axmode = other.Xmode', '',
             'struct Res', '    ok Boolean', '', 'alias Anull = String?', '', 'struct Qarg', '    q Anull', '    r Int32', '',
             'route rq(Qarg, Void, Void)', '', 'union Uarg', '    ua', '    ub String', '']
    routes = []      # (ns, route name, version, method suffix kind, shape index or 'union'/'void', result kind, deprecated, style)
    structs = {}     # struct name -> [(field name, kind)] in all_fields declaration order (root first)
    versions = [1, 2, 3]
    deps = [None, 'plain', 'by']
    styles = ['rpc', 'upload', 'download']
    for i, (seq, sp) in enumerate(shapes):
        pos = 0
        parent = None
        level_names = []
        for li, cnt in enumerate(sp):
            nm = 'A%dL%d' % (i, li) if li < len(sp) - 1 else 'A%d' % i
            lines.append('struct %s%s' % (nm, ' extends %s' % parent if parent else ''))
            if cnt == 0:
                lines.append('    "empty"')
            for j in range(cnt):
                k = seq[pos]
                ttext, dtext = KINDS[k][0], KINDS[k][1]
                lines.append('    %s%d %s%s' % (k, pos, ttext, ' = ' + dtext if dtext else ''))
                pos += 1
            lines.append('')
            parent = nm
            level_names.append(nm)
        structs['A%d' % i] = [('%s%d' % (k, j), k) for j, k in enumerate(seq)]
        ver = versions[i % 3]
        dep = deps[(i // 3) % 3]
        style = styles[(i // 9) % 3]
        res = ['Void', 'Res'][(i // 27) % 2]
        routes.append(('rt', 'r%d' % i, ver, i, res, dep, style))
    # a successor route for "deprecated by"
    lines.append('route succ(Void, Void, Void)')
    lines.append('')
    for ns, rname, ver, shape, res, dep, style in routes:
        head = 'route %s%s(A%d, %s, Void)' % (rname, ':%d' % ver if ver != 1 else '', shape, res)
        if dep == 'plain':
            head += ' deprecated'
        elif dep == 'by':
            head += ' deprecated by succ'
        lines.append(head)
        lines.append('    attrs')
        lines.append('        style = "%s"' % style)
        lines.append('')
    # union / void arguments in every version x deprecation x style
    extra = []
    for vi, ver in enumerate(versions):
        for dep in deps:
            for style in styles:
                for argk, argt in (('union', 'Uarg'), ('void', 'Void')):
                    for res in ('Void', 'Res'):
                        name = '%s_%s_%s_%s' % (argk, dep or 'nodep', style, res.lower())
                        head = 'route %s%s(%s, %s, Void)' % (name, ':%d' % ver if ver != 1 else '', argt, res)
                        if dep == 'plain':
                            head += ' deprecated'
                        elif dep == 'by':
                            head += ' deprecated by succ'
                        lines.append(head)
                        lines.append('    attrs')
                        lines.append('        style = "%s"' % style)
                        lines.append('')
                        extra.append(('rt', name, ver, argk, res, dep, style))
    other = ['namespace other', '', 'union Xmode', '    on', '    off', '', 'alias Oxmode = Xmode', '', 'struct Oarg', '    o Int32', '    m Xmode = on', '']
    # namespace with routes but no types of its own: arguments imported, and all-Void routes
    noty = ['namespace noty', '', 'import rt', 'import other', '',
            'route imp(rt.A0, rt.Res, Void)', '    attrs', '        style = "rpc"', '',
            'route imp:2(other.Oarg, Void, Void)', '    attrs', '        style = "upload"', '',
            'route allvoid(Void, Void, Void)', '', 'route uni(rt.Uarg, Void, Void) deprecated', '']
    cfg = ['namespace stone_cfg', '', 'struct Route', '    style String = "rpc"', '']
    specs = [('other.stone', '\n'.join(other) + '\n'), ('rt.stone', '\n'.join(lines) + '\n'), ('noty.stone', '\n'.join(noty) + '\n'),
             ('cfg.stone', '\n'.join(cfg) + '\n')]
    return specs, shapes, structs, routes, extra


class U14:
    def __init__(self, tier):
        self.specs, self.shapes, self.structs, self.routes, self.extra = build_specs(tier)
        out = impl.compile_specs(self.specs)
        if out.kind != 'ok':
            raise rtbase.UniverseError('compile', out.brief(), self.specs)
        self.api = out.api
        pkg, fail = impl.build_python_package(self.api, extra_backends=[('python_client', None)])
        self.pkg = pkg
        self.fail = fail


def universe(tier):
    if tier not in _U:
        specs, shapes, structs, routes, extra = build_specs(tier)
        out = impl.compile_specs(specs)
        if out.kind != 'ok':
            raise rtbase.UniverseError('compile', out.brief(), specs)
        import importlib
        root = explore.fresh_dir('c14')
        pkgname = impl.fresh_pkg_name('c')
        outdir = os.path.join(root, pkgname)
        b = impl.run_backend(out.api, 'python_types', ['-p', pkgname], outdir)
        if not b.ok:
            raise rtbase.UniverseError('generate', b.identity + '\n' + (b.tb or ''), specs)
        b = impl.run_backend(out.api, 'python_client', ['-m', 'client', '-c', 'Base', '-t', pkgname], outdir)
        if not b.ok:
            raise rtbase.UniverseError('generate', 'python_client ' + b.identity + '\n' + (b.tb or ''), specs)
        import sys
        sys.path.insert(0, root)
        importlib.invalidate_caches()
        pkg = impl.Package(root, pkgname)
        try:
            mods = {n: pkg.mod(n) for n in ('rt', 'other', 'noty')}
            client = importlib.import_module(pkgname + '.client')
        except Exception:
            import traceback
            raise rtbase.UniverseError('import', traceback.format_exc()[-2500:], specs)
        _U[tier] = dict(specs=specs, shapes=shapes, structs=structs, routes=routes, extra=extra, api=out.api, pkg=pkg, mods=mods, client=client)
    return _U[tier]


def pyval(u, v):
    if isinstance(v, tuple) and v and v[0] == 'tag':
        return getattr(getattr(u['mods'][v[1]], v[2]), v[3])
    return v


class Recorder:
    def __init__(self):
        self.calls = []
        self.saved = []


def make_client(u):
    rec = Recorder()
    Base = u['client'].Base

    class Client(Base):
        def request(self, route, namespace, request_arg, request_binary, timeout=None):
            rec.calls.append((route, namespace, request_arg, request_binary))
            return ('RESULT', 'BODY')

        def _save_body_to_file(self, path, body):
            rec.saved.append((path, body))
    return Client(), rec


def check_call(u, method_name, call_args, call_kwargs, exp_route, exp_ns, exp_arg, exp_body, deprecated, res_void, to_file, inputs):
    bad = []
    client, rec = make_client(u)
    fn = getattr(client, method_name, None)
    if fn is None:
        return [('missing-method', 'client has no method %s' % method_name)]
    with warnings.catch_warnings(record=True) as w:
        warnings.simplefilter('always')
        try:
            ret = fn(*call_args, **call_kwargs)
        except Exception as e:  # noqa
            return [('call-raised:%s' % type(e).__name__, 'calling %s(*%r, **%r) raised %r' % (method_name, call_args, call_kwargs, e))]
    warned = any(issubclass(x.category, DeprecationWarning) for x in w)
    if warned != deprecated:
        bad.append(('deprecation-warning', '%s: DeprecationWarning %s, route deprecated=%s' % (method_name, 'raised' if warned else 'not raised', deprecated)))
    if len(rec.calls) != 1:
        bad.append(('request-count', '%s issued %d requests' % (method_name, len(rec.calls))))
        return bad
    route, ns, arg, body = rec.calls[0]
    if route is not exp_route:
        bad.append(('wrong-route-object', '%s sent route %r, expected %r' % (method_name, route, exp_route)))
    if ns != exp_ns:
        bad.append(('wrong-namespace', '%s sent namespace %r, expected %r' % (method_name, ns, exp_ns)))
    if exp_arg is None:
        if arg is not None:
            bad.append(('wrong-arg:void', '%s sent %r for a Void argument' % (method_name, arg)))
    else:
        try:
            same = (arg == exp_arg) and type(arg) is type(exp_arg)
        except Exception as e:  # noqa
            same = False
        if not same:
            bad.append(('wrong-arg', '%s sent %r, expected %r' % (method_name, arg, exp_arg)))
    if body != exp_body:
        bad.append(('wrong-body', '%s sent body %r, expected %r' % (method_name, body, exp_body)))
    if to_file:
        exp_ret = None if res_void else 'RESULT'
        if rec.saved != [('PATH', 'BODY')]:
            bad.append(('download-to-file', '%s saved %r' % (method_name, rec.saved)))
    else:
        exp_ret = None if res_void else ('RESULT', 'BODY')
    if ret != exp_ret:
        bad.append(('wrong-return', '%s returned %r, expected %r' % (method_name, ret, exp_ret)))
    return bad


def build(cls, values):
    """The expected argument: an instance whose fields are assigned one by one (independent of constructor parameter order)."""
    inst = cls()
    for k, v in values.items():
        setattr(inst, k, v)
    return inst


def method_name_for(ns, rname, ver, suffix=''):
    return '%s_%s%s%s' % (ns, rname, suffix, '_v%d' % ver if ver != 1 else '')


def task(item):
    kind, idx = item
    u = universe(TIER[0])
    oc = collections.Counter()
    out_v = []
    n = 0

    def record(bad, inputs):
        nonlocal n
        n += 1
        if bad:
            oc['differs'] += 1
            for ident, what in bad:
                out_v.append(viol(ident + ':' + inputs.get('shape_class', ''), what, inputs))
        else:
            oc['ok:%s:%s' % (inputs.get('style', inputs.get('shape_class', 'call')), 'deprecated' if inputs.get('deprecated') else 'current')] += 1

    if kind == 'struct':
        ns, rname, ver, shape, res, dep, style = u['routes'][idx]
        seq, sp = u['shapes'][shape]
        fields = u['structs']['A%d' % shape]
        rt = u['mods']['rt']
        cls = getattr(rt, 'A%d' % shape)
        route_obj = getattr(rt, 'r%d' % shape if ver == 1 else 'r%d_v%d' % (shape, ver))
        req = [(f, k) for f, k in fields if not KINDS[k][4]]
        opt = [(f, k) for f, k in fields if KINDS[k][4]]
        shape_class = '%s/%s' % (''.join('O' if KINDS[k][4] else 'R' for k in seq), 'x'.join(map(str, sp)))
        base_inputs = {'route': rname, 'version': ver, 'fields': fields, 'inheritance_split': sp, 'style': style, 'deprecated': dep, 'result': res,
                       'shape_class': shape_class, 'kinds': ''.join(seq)}
        variants = [('', False)] + ([('_to_file', True)] if style == 'download' else [])
        for suffix, to_file in variants:
            mname = method_name_for('rt', rname, ver, suffix)
            fn = getattr(u['client'].Base, mname, None)
            if fn is None:
                record([('missing-method', 'no method %s' % mname)], base_inputs)
                continue
            # signature: required positional in declaration order (inherited first), optional keyword with spec defaults
            params = list(inspect.signature(fn).parameters.values())[1:]
            lead = []
            if to_file:
                lead = ['download_path']
            if style == 'upload':
                lead = lead + ['f']
            exp_names = lead + [f for f, k in req] + [f for f, k in opt]
            got_names = [p.name for p in params]
            bad = []
            if got_names != exp_names:
                bad.append(('signature-order', '%s has parameters %r, expected %r' % (mname, got_names, exp_names)))
            else:
                for p in params:
                    k = dict(fields).get(p.name)
                    if k is None:
                        continue
                    if KINDS[k][4]:
                        expd = pyval(u, KINDS[k][2])
                        if p.default is inspect.Parameter.empty or p.default != expd or type(p.default) is not type(expd):
                            bad.append(('signature-default', 'parameter %s of %s has default %r, expected %r' % (p.name, mname, p.default, expd)))
                    elif p.default is not inspect.Parameter.empty:
                        bad.append(('signature-default', 'required parameter %s of %s has a default' % (p.name, mname)))
            record(bad, dict(base_inputs, method=mname, call='signature'))
            lead_vals = (['PATH'] if to_file else []) + (['BYTES'] if style == 'upload' else [])
            body = 'BYTES' if style == 'upload' else None
            vals = {f: pyval(u, KINDS[k][3]) for f, k in fields}
            dflt = {f: pyval(u, KINDS[k][2]) for f, k in opt}
            # all positional
            ordered = [f for f, k in req] + [f for f, k in opt]
            exp_arg = build(cls, vals)
            record(check_call(u, mname, lead_vals + [vals[f] for f in ordered], {}, route_obj, 'rt', exp_arg, body, dep is not None, res == 'Void', to_file, base_inputs),
                   dict(base_inputs, method=mname, call='all-positional'))
            # all keyword
            kw = dict(vals)
            if to_file:
                kw['download_path'] = 'PATH'
            if style == 'upload':
                kw['f'] = 'BYTES'
            record(check_call(u, mname, [], kw, route_obj, 'rt', exp_arg, body, dep is not None, res == 'Void', to_file, base_inputs),
                   dict(base_inputs, method=mname, call='all-keyword'))
            # required only: optional parameters take the spec defaults
            exp_req = build(cls, dict({f: vals[f] for f, k in req}, **{f: v for f, v in dflt.items() if v is not None}))
            record(check_call(u, mname, lead_vals + [vals[f] for f, k in req], {}, route_obj, 'rt', exp_req, body, dep is not None, res == 'Void', to_file, base_inputs),
                   dict(base_inputs, method=mname, call='required-only'))
    elif kind == 'extra':
        ns, name, ver, argk, res, dep, style = u['extra'][idx]
        rt = u['mods']['rt']
        route_obj = getattr(rt, name if ver == 1 else '%s_v%d' % (name, ver))
        base_inputs = {'route': name, 'version': ver, 'arg': argk, 'style': style, 'deprecated': dep, 'result': res, 'shape_class': argk}
        for suffix, to_file in [('', False)] + ([('_to_file', True)] if style == 'download' else []):
            mname = method_name_for('rt', name, ver, suffix)
            lead_vals = (['PATH'] if to_file else []) + (['BYTES'] if style == 'upload' else [])
            body = 'BYTES' if style == 'upload' else None
            if argk == 'union':
                for uv in (rt.Uarg.ua, rt.Uarg.ub('pay')):
                    record(check_call(u, mname, lead_vals + [uv], {}, route_obj, 'rt', uv, body, dep is not None, res == 'Void', to_file, base_inputs),
                           dict(base_inputs, method=mname, call='union-positional'))
                    kw = {'arg': uv}
                    if to_file:
                        kw['download_path'] = 'PATH'
                    if style == 'upload':
                        kw['f'] = 'BYTES'
                    record(check_call(u, mname, [], kw, route_obj, 'rt', uv, body, dep is not None, res == 'Void', to_file, base_inputs),
                           dict(base_inputs, method=mname, call='union-keyword'))
            else:
                record(check_call(u, mname, lead_vals, {}, route_obj, 'rt', None, body, dep is not None, res == 'Void', to_file, base_inputs),
                       dict(base_inputs, method=mname, call='void'))
    else:
        # the namespace that has routes but defines no types
        noty, rt, other = u['mods']['noty'], u['mods']['rt'], u['mods']['other']
        a0_fields = u['structs']['A0']
        vals = {f: pyval(u, KINDS[k][3]) for f, k in a0_fields}
        req0 = [f for f, k in a0_fields if not KINDS[k][4]]
        opt0 = [f for f, k in a0_fields if KINDS[k][4]]
        bi = {'shape_class': 'namespace-without-types'}
        record(check_call(u, 'noty_imp', [vals[f] for f in req0 + opt0], {}, noty.imp, 'noty', build(rt.A0, vals), None, False, False, False, bi), dict(bi, method='noty_imp'))
        record(check_call(u, 'noty_imp_v2', ['BYTES', 4], {}, noty.imp_v2, 'noty', build(other.Oarg, {'o': 4, 'm': other.Xmode.on}), 'BYTES', False, True, False, bi), dict(bi, method='noty_imp_v2'))
        # a field whose type is an alias of a nullable type is optional: positional call with the required field first
        bq = {'shape_class': 'alias-of-nullable-field'}
        record(check_call(u, 'rt_rq', [5, 'qq'], {}, rt.rq, 'rt', build(rt.Qarg, {'q': 'qq', 'r': 5}), None, False, True, False, bq), dict(bq, method='rt_rq'))
        record(check_call(u, 'rt_rq', [], {'r': 5, 'q': 'qq'}, rt.rq, 'rt', build(rt.Qarg, {'q': 'qq', 'r': 5}), None, False, True, False, bq), dict(bq, method='rt_rq'))
        record(check_call(u, 'noty_allvoid', [], {}, noty.allvoid, 'noty', None, None, False, True, False, bi), dict(bi, method='noty_allvoid'))
        record(check_call(u, 'noty_uni', [rt.Uarg.ua], {}, noty.uni, 'noty', rt.Uarg.ua, None, True, True, False, bi), dict(bi, method='noty_uni'))
        # exactly one method per route version (+ _to_file for download style)
        Base = u['client'].Base
        methods = {k for k, v in vars(Base).items() if inspect.isfunction(v) and k != 'request'}
        expected = set()
        for ns, rname, ver, shape, res, dep, style in u['routes']:
            expected.add(method_name_for('rt', rname, ver))
            if style == 'download':
                expected.add(method_name_for('rt', rname, ver, '_to_file'))
        for ns, name, ver, argk, res, dep, style in u['extra']:
            expected.add(method_name_for('rt', name, ver))
            if style == 'download':
                expected.add(method_name_for('rt', name, ver, '_to_file'))
        expected |= {'noty_imp', 'noty_imp_v2', 'noty_allvoid', 'noty_uni', 'rt_succ', 'rt_rq'}
        bad = []
        if methods != expected:
            bad.append(('method-set', 'methods missing: %r; unexpected: %r' % (sorted(expected - methods)[:10], sorted(methods - expected)[:10])))
        record(bad, dict(bi, method='(method set)'))
    return {'outcome': oc, 'viol': out_v, 'n': n, 'transitions': n}


# ---------------------------------------------------------------------------
# isolated scenarios
#
# The packed universe exercises every shape, but in one big API: anything the backend decides from the API as a whole (is
# any route deprecated?  which namespaces are imported?  was this literal formatted before?) is decided once, by the union
# of all shapes.  The scenarios below are complete small products in which each spec contains ONE situation and nothing
# else, generated and imported on its own, in a process forked from the pristine parent.

def gen_client(specs):
    import importlib
    import sys
    out = impl.compile_specs(specs)
    if out.kind != 'ok':
        raise explore.InternalError('isolated C14 spec not accepted: %s\n%s' % (out.brief(), specs))
    root = explore.fresh_dir('c14i')
    pkgname = impl.fresh_pkg_name('ci')
    outdir = os.path.join(root, pkgname)
    for be, args in (('python_types', ['-p', pkgname]), ('python_client', ['-m', 'client', '-c', 'Base', '-t', pkgname])):
        b = impl.run_backend(out.api, be, args, outdir)
        if not b.ok:
            return None, None, ('generate:%s:%s' % (be, b.identity), b.tb)
    sys.path.insert(0, root)
    importlib.invalidate_caches()
    pkg = impl.Package(root, pkgname)
    try:
        mods = {}
        for n in out.api.namespaces:
            if n == 'stone_cfg':
                continue
            try:
                mods[n] = pkg.mod(n)
            except ModuleNotFoundError:
                # a namespace named like a Python keyword lives in a module with a respelled name; the name handed to request() stays the spec's
                mods[n] = importlib.import_module('%s.%s_' % (pkgname, n))
        client = importlib.import_module(pkgname + '.client')
    except Exception as e:  # noqa
        import traceback
        pkg.close()
        return None, None, ('import:%s' % type(e).__name__, traceback.format_exc()[-1500:])
    return pkg, dict(mods=mods, client=client), None


CFG = ('cfg.stone', 'namespace stone_cfg\n\nstruct Route\n    style String = "rpc"\n')


def iso_scenarios(tier):
    """[(label, specs, [call])]; call = (method, route ns, route attr, arg spec, positional, keyword, deprecated, res_void, style)
    arg spec: None | ('struct', ns, cls, {field: value}) | ('union', ns, cls, tag, payload|None); values may be ('tag', ns, Union, tag)."""
    out = []
    # (a) one route per spec: version x deprecation x argument kind x style x {alone, next to an undeprecated version 1}
    for ver in (1, 2, 3):
        for dep in (None, 'plain', 'by'):
            for argk in ('struct', 'union', 'void'):
                for style in ('rpc', 'upload', 'download'):
                    for with_v1 in ((False, True) if ver > 1 else (False,)):
                        lines = ['namespace iso', '', 'struct Arg', '    a Int32', '    b String = "x"', '', 'union Uarg', '    ua', '    ub String', '']
                        if dep == 'by':
                            lines += ['route succ(Void, Void, Void)', '']
                        if with_v1:
                            lines += ['route r(Void, Void, Void)', '']
                        argt = {'struct': 'Arg', 'union': 'Uarg', 'void': 'Void'}[argk]
                        head = 'route r%s(%s, Void, Void)' % (':%d' % ver if ver != 1 else '', argt)
                        head += {None: '', 'plain': ' deprecated', 'by': ' deprecated by succ'}[dep]
                        lines += [head, '    attrs', '        style = "%s"' % style, '']
                        mname = method_name_for('iso', 'r', ver)
                        rattr = 'r' if ver == 1 else 'r_v%d' % ver
                        lead = ['BYTES'] if style == 'upload' else []
                        if argk == 'struct':
                            call = (mname, 'iso', rattr, ('struct', 'iso', 'Arg', {'a': 4, 'b': 'x'}), lead + [4], {}, dep is not None, True, style)
                        elif argk == 'union':
                            call = (mname, 'iso', rattr, ('union', 'iso', 'Uarg', 'ub', 'p'), lead + [('union', 'iso', 'Uarg', 'ub', 'p')], {}, dep is not None, True, style)
                        else:
                            call = (mname, 'iso', rattr, None, lead, {}, dep is not None, True, style)
                        out.append(('iso:v%d:%s:%s:%s:%s' % (ver, dep, argk, style, 'with-v1' if with_v1 else 'alone'), [('iso.stone', '\n'.join(lines) + '\n'), CFG], [call]))
    # (b) namespace chains: the argument struct reaches a third namespace only through what it inherits or aliases
    far = ('far.stone', 'namespace far\n\nunion Fm\n    on\n    off\n\nstruct Fs\n    z Int32 = 7\n')
    for mid_has_route in (False, True):
        for far_has_route in (False, True):
            mid_t = 'namespace mid\n\nimport far\n\nalias Mfm = far.Fm\n\nstruct Mp\n    m far.Fm = on\n    k Int32\n\nstruct Marg\n    q Mfm = off\n    fs far.Fs?\n' + (
                '\nroute mr(Void, Void, Void)\n' if mid_has_route else '')
            far_t = far[1] + ('\nroute fr(Void, Void, Void)\n' if far_has_route else '')
            near = ('namespace near\n\nimport mid\n\nstruct Narg extends mid.Mp\n    n Int32 = 2\n\nalias Nal = mid.Marg\n\nstruct Nhold\n    h mid.Mfm = on\n\n'
                    'route inh(Narg, Void, Void)\n\nroute foreign(mid.Marg, Void, Void)\n\nroute aliased(Nal, Void, Void)\n\nroute viaalias(Nhold, Void, Void)\n')
            calls = [
                ('near_inh', 'near', 'inh', ('struct', 'near', 'Narg', {'k': 5, 'm': ('tag', 'far', 'Fm', 'on'), 'n': 2}), [5], {}, False, True, 'rpc'),
                ('near_inh', 'near', 'inh', ('struct', 'near', 'Narg', {'k': 5, 'm': ('tag', 'far', 'Fm', 'off'), 'n': 3}), [5], {'m': ('tag', 'far', 'Fm', 'off'), 'n': 3}, False, True, 'rpc'),
                ('near_foreign', 'near', 'foreign', ('struct', 'mid', 'Marg', {'q': ('tag', 'far', 'Fm', 'off')}), [], {}, False, True, 'rpc'),
                ('near_aliased', 'near', 'aliased', ('struct', 'mid', 'Marg', {'q': ('tag', 'far', 'Fm', 'on')}), [], {'q': ('tag', 'far', 'Fm', 'on')}, False, True, 'rpc'),
                ('near_viaalias', 'near', 'viaalias', ('struct', 'near', 'Nhold', {'h': ('tag', 'far', 'Fm', 'on')}), [], {}, False, True, 'rpc'),
            ]
            out.append(('iso:chain:mid-route=%s:far-route=%s' % (mid_has_route, far_has_route), [('near.stone', near), ('mid.stone', mid_t), ('far.stone', far_t), CFG], calls))
    # (b2) a namespace that defines no alias of its own and types its argument fields with imported aliases (of nullable, defaulted, plain types)
    for routes_in_lib in (False, True):
        lib = ('namespace lib\n\nunion Lm\n    on\n    off\n\nalias OptRev = String?\nalias Mode = Lm\nalias Cnt = Int32\nalias Names = List(String)\n\nstruct Larg\n    l Int32\n' +
               ('\nroute lr(Larg, Void, Void)\n' if routes_in_lib else ''))
        use = ('namespace use\n\nimport lib\n\nstruct Uarg\n    path String\n    cnt lib.Cnt = 3\n    rev lib.OptRev\n    mode lib.Mode = off\n    names lib.Names?\n\nstruct Uchild extends Uarg\n    extra lib.OptRev\n\n'
               'route get(Uarg, Void, Void)\n\nroute getc(Uchild, Void, Void)\n')
        calls = [('use_get', 'use', 'get', ('struct', 'use', 'Uarg', {'path': 'p', 'cnt': 3, 'mode': ('tag', 'lib', 'Lm', 'off')}), ['p'], {}, False, True, 'rpc'),
                 ('use_get', 'use', 'get', ('struct', 'use', 'Uarg', {'path': 'p', 'cnt': 4, 'rev': 'r', 'mode': ('tag', 'lib', 'Lm', 'on'), 'names': ['a']}), ['p'],
                  {'cnt': 4, 'rev': 'r', 'mode': ('tag', 'lib', 'Lm', 'on'), 'names': ['a']}, False, True, 'rpc'),
                 ('use_getc', 'use', 'getc', ('struct', 'use', 'Uchild', {'path': 'p', 'cnt': 3, 'mode': ('tag', 'lib', 'Lm', 'off'), 'extra': 'e'}), ['p'], {'extra': 'e'}, False, True, 'rpc')]
        out.append(('iso:imported-aliases:lib-routes=%s' % routes_in_lib, [('use.stone', use), ('lib.stone', lib), CFG], calls))
    # (b4) route names with a path: the method is named from namespace, route (with '/' as '_') and version
    text = ('namespace iso\n\nstruct Arg\n    a Int32\n    b String = "x"\n\nroute get/metadata(Arg, Void, Void)\n\nroute files/list/continue:2(Arg, Void, Void) deprecated\n\n'
            'route files/list/continue(Void, Void, Void)\n')
    out.append(('iso:path-routes', [('iso.stone', text), CFG], [
        ('iso_get_metadata', 'iso', 'get_metadata', ('struct', 'iso', 'Arg', {'a': 4, 'b': 'x'}), [4], {}, False, True, 'rpc'),
        ('iso_files_list_continue_v2', 'iso', 'files_list_continue_v2', ('struct', 'iso', 'Arg', {'a': 5, 'b': 'y'}), [5], {'b': 'y'}, True, True, 'rpc'),
        ('iso_files_list_continue', 'iso', 'files_list_continue', None, [], {}, False, True, 'rpc')]))
    # (b5) a tag default whose union and tag names are respelled by the Python backends (HTTPMethod -> HttpMethod, readOnly -> read_only)
    text = ('namespace iso\n\nunion HTTPMethod\n    getIt\n    put_it\n    DELETE\n\nunion plainMode\n    readOnly\n    rw\n\nstruct Arg\n    a Int32\n    m HTTPMethod = getIt\n    p plainMode = readOnly\n    d HTTPMethod = DELETE\n\n'
            'route r(Arg, Void, Void)\n')
    out.append(('iso:respelled-tag-default', [('iso.stone', text), CFG], 'respelled'))
    # (b6) namespaces named like Python keywords (the module is respelled; the namespace name handed to request() is the spec's)
    for kw_ns in ('async', 'pass', 'while', 'class', 'for', 'break', 'continue'):
        for with_other in (False, True):
            files = [('%s.stone' % kw_ns, 'namespace %s\n\nstruct Arg\n    a Int32\n    b String = "x"\n\nroute get(Arg, Void, Void)\n\nroute get:2(Void, Void, Void)\n' % kw_ns), CFG]
            calls = [('%s_get' % kw_ns, kw_ns, 'get', ('struct', kw_ns, 'Arg', {'a': 4, 'b': 'x'}), [4], {}, False, True, 'rpc'),
                     ('%s_get_v2' % kw_ns, kw_ns, 'get_v2', None, [], {}, False, True, 'rpc')]
            if with_other:
                files.insert(1, ('plain.stone', 'namespace plain\n\nstruct Parg\n    p Int32\n\nroute get(Parg, Void, Void)\n'))
                calls.append(('plain_get', 'plain', 'get', ('struct', 'plain', 'Parg', {'p': 2}), [2], {}, False, True, 'rpc'))
            out.append(('iso:keyword-namespace:%s:%s' % (kw_ns, 'with-plain' if with_other else 'alone'), files, calls))
    # (b3) route names that differ only in style map to one Python name: the backends must refuse them, whatever else the namespace holds
    for a, b in (('get/metadata', 'get_metadata'), ('getMeta', 'get_meta'), ('a/b', 'a_b')):
        for extra_v2 in (False, True):
            text = 'namespace st\n\nstruct Arg\n    a Int32\n\nstruct Brg\n    b String\n\nroute %s(Arg, Void, Void)\n\nroute %s(Brg, Void, Void)\n' % (a, b)
            if extra_v2:
                text += '\nroute other(Void, Void, Void)\n\nroute other:2(Void, Void, Void)\n'
            out.append(('iso:style-clash:%s~%s:%s' % (a, b, 'with-v2' if extra_v2 else 'v1-only'), [('st.stone', text), CFG], 'must-refuse'))
    # (c) pairs of literal defaults: every ordered pair of literals of different kinds in one argument struct
    lits = [('Boolean', 'true', True), ('Boolean', 'false', False), ('Float64', '1.0', 1.0), ('Float64', '0.0', 0.0), ('Float32', '1', 1.0), ('Int32', '1', 1), ('Int64', '0', 0),
            ('String', '"1"', '1'), ('String', '"true"', 'true'), ('UInt32', '1', 1), ('Float64', '-0.0', -0.0), ('String', '"1.0"', '1.0')]
    for i, (t1, l1, v1) in enumerate(lits):
        for j, (t2, l2, v2) in enumerate(lits):
            if i == j:
                continue
            text = 'namespace iso\n\nstruct Arg\n    x %s = %s\n    y %s = %s\n\nroute r(Arg, Void, Void)\n' % (t1, l1, t2, l2)
            out.append(('iso:literal-pair:%s=%s,%s=%s' % (t1, l1, t2, l2), [('iso.stone', text), CFG],
                        [('iso_r', 'iso', 'r', ('struct', 'iso', 'Arg', {'x': v1, 'y': v2}), [], {}, False, True, 'rpc')]))
    return out


def iso_task(item):
    label, specs, calls = item
    pkg, u, fail = gen_client(specs)
    inputs = {'scenario': label, 'specs': specs, 'shape_class': label.split(':')[1]}
    if calls == 'respelled':
        # how the names are respelled is the backends' business; the defaults of the method must be the runtime's own tag instances
        if pkg is None:
            return {'outcome': 'iso:' + fail[0].split(':')[0], 'viol': [viol('isolated:respelled-tag-default:%s' % fail[0], 'isolated scenario %s: %s\n%s' % (label, fail[0], (fail[1] or '')[-600:]), inputs)], 'n': 1}
        try:
            mod = u['mods']['iso']
            arg_cls = getattr(mod, 'Arg')
            blank = arg_cls(a=1)
            sig = inspect.signature(u['client'].Base.iso_r)
            bad = []
            for pname in ('m', 'p', 'd'):
                want = getattr(blank, pname)        # the runtime's own default instance
                got = sig.parameters[pname].default if pname in sig.parameters else inspect.Parameter.empty
                if got is inspect.Parameter.empty or got != want or type(got) is not type(want):
                    bad.append(('signature-default', 'parameter %s of iso_r has default %r, the argument struct reads %r' % (pname, got, want)))
            client, rec = make_client(u)
            client.iso_r(5)
            if len(rec.calls) != 1 or rec.calls[0][2] != arg_cls(a=5):
                bad.append(('wrong-arg', 'iso_r(5) sent %r' % (rec.calls,)))
            v = [viol('%s:isolated:respelled-tag-default' % i, w + ' [isolated scenario %s]' % label, inputs) for i, w in bad]
            return {'outcome': 'iso:respelled:' + ('differs' if bad else 'ok'), 'viol': v, 'n': 1}
        except Exception as e:  # noqa
            return {'outcome': 'iso:respelled:raised', 'viol': [viol('call-raised:%s:isolated:respelled-tag-default' % type(e).__name__, 'scenario %s raised %r' % (label, e), inputs)], 'n': 1}
        finally:
            pkg.close()
    if calls == 'must-refuse':
        # two routes whose Python names coincide cannot both get "one method per route version, named from namespace, route and version"
        if pkg is not None:
            pkg.close()
            return {'outcome': 'iso:clash-accepted', 'viol': [viol('style-clash-accepted:isolated', 'routes whose generated names coincide were accepted by the Python backends (%s)' % label, inputs)], 'n': 1}
        return {'outcome': 'iso:clash-refused', 'viol': [], 'n': 1}
    if pkg is None:
        return {'outcome': 'iso:' + fail[0].split(':')[0], 'viol': [viol('isolated:%s:%s' % (label.split(':')[1], fail[0]), 'isolated scenario %s: %s\n%s' % (label, fail[0], (fail[1] or '')[-600:]), inputs)], 'n': 1}
    oc = collections.Counter()
    out_v = []
    try:
        def val(v):
            if isinstance(v, tuple) and v and v[0] == 'tag':
                return getattr(getattr(u['mods'][v[1]], v[2]), v[3])
            if isinstance(v, tuple) and v and v[0] == 'union':
                cls = getattr(u['mods'][v[1]], v[2])
                return getattr(cls, v[3]) if v[4] is None else getattr(cls, v[3])(v[4])
            return v
        for mname, rns, rattr, argspec, pos, kw, deprecated, res_void, style in calls:
            route_obj = getattr(u['mods'][rns], rattr, None)
            if argspec is None:
                exp_arg = None
            elif argspec[0] == 'struct':
                exp_arg = build(getattr(u['mods'][argspec[1]], argspec[2]), {k: val(v) for k, v in argspec[3].items()})
            else:
                exp_arg = val(argspec)
            fn = getattr(u['client'].Base, mname, None)
            bad = []
            if fn is not None and argspec is not None and argspec[0] == 'struct':
                # defaults in the signature are type-exact
                for p in list(inspect.signature(fn).parameters.values())[1:]:
                    if p.name in argspec[3] and p.default is not inspect.Parameter.empty and p.name not in kw:
                        expd = val(argspec[3][p.name])
                        if p.default != expd or type(p.default) is not type(expd) or repr(p.default) != repr(expd):
                            bad.append(('signature-default', 'parameter %s of %s has default %r, expected %r' % (p.name, mname, p.default, expd)))
            body = 'BYTES' if style == 'upload' else None
            bad += check_call(u, mname, [val(x) for x in pos], {k: val(v) for k, v in kw.items()}, route_obj, rns, exp_arg, body, deprecated, res_void, False, inputs)
            if bad:
                oc['iso:differs'] += 1
                for ident, what in bad:
                    out_v.append(viol('%s:isolated:%s' % (ident, label.split(':')[1]), '%s [isolated scenario %s]' % (what, label), dict(inputs, method=mname)))
            else:
                oc['iso:ok:%s' % label.split(':')[1]] += 1
    finally:
        pkg.close()
    return {'outcome': oc, 'viol': out_v, 'n': len(calls), 'transitions': len(calls)}


TIER = ['quick']


def run(tier, seed):
    TIER[0] = tier
    r = explore.Run(PROP, tier, seed)
    # the isolated scenarios run first, while this process is still small and has generated nothing (cheap, pristine forks)
    iso = iso_scenarios(tier)
    r.bounds['isolated_scenarios'] = len(iso)
    r.sample({'isolated_scenario': iso[5][0], 'specs': iso[5][1][:1]})
    r.run_tasks(iso_task, iso, budget=120, fresh=True)
    try:
        u = universe(tier)
    except rtbase.UniverseError as e:
        rtbase.universe_failure(r, PROP, e)
        return r.finish('client universe could not be built')
    items = [('struct', i) for i in range(len(u['routes']))] + [('extra', i) for i in range(len(u['extra']))] + [('layout', 0)]
    r.bounds.update({'struct_argument_shapes': len(u['shapes']), 'field_kinds': {k: KINDS[k][:2] for k in (QUICK_KINDS if tier == 'quick' else ALL_KINDS)}, 'kinds_at_length_4': None if tier == 'quick' else LEN4_KINDS,
                     'max_fields': 3 if tier == 'quick' else 4, 'union_and_void_routes': len(u['extra']), 'versions': [1, 2, 3],
                     'deprecation': ['none', 'plain', 'by'], 'styles': ['rpc', 'upload', 'download'], 'calls': ['all-positional', 'all-keyword', 'required-only']})
    r.sample({'shape': u['shapes'][10], 'fields': u['structs']['A10'], 'route': u['routes'][10]})
    r.run_tasks(task, items, budget=120, chunksize=16, order_base=len(iso))
    r.assumptions = ['alias-of-nullable fields are exercised separately (their required/optional status is not settled by backend_ref.rst)']
    r.finish('complete product of argument-struct shapes (field-kind sequences x inheritance splits) + union/Void arguments over versions, '
             'deprecation, styles and result kinds; namespace layouts; each method: signature and three call forms against a recording request(); '
             'isolated scenarios (one situation per spec, fresh process): version x deprecation x argument kind x style, namespace chains, ordered pairs of literal defaults')


def replay(rep):
    TIER[0] = 'quick'
    if isinstance(rep.get('inputs'), dict) and rep['inputs'].get('scenario'):
        for it in iso_scenarios('quick'):
            if it[0] == rep['inputs']['scenario']:
                if iso_task(it)['viol']:
                    print('VIOLATION property=%s replay=replayed' % PROP)
                    return 1
                return 0
        return 2
    u = universe('quick')
    for it in [('struct', i) for i in range(len(u['routes']))] + [('extra', i) for i in range(len(u['extra']))] + [('layout', 0)]:
        if any(v['id'] == rep['identity'] for v in task(it)['viol']):
            print('VIOLATION property=%s replay=replayed' % PROP)
            return 1
    return 0
