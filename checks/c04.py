"""C04 - encoding then decoding any valid value returns the same value.

Same (shape, position, value) space as C05.  For every value, in strict and lenient mode, through the object and the
string entry points: decode(encode(v)) observed through public attributes equals the (normalised) value, the generated
__eq__ agrees, and encoding the decoded value gives the same JSON again.
"""
import collections
import json

from mc import explore, impl, rt
from mc.explore import viol
from checks import rtbase
from stone.ir import data_types as dt

PROP = 'C04'
TIER = ['quick']


def expected_readback(api, t, v):
    """normalize() plus the one documented exception: a nullable plain-struct union member whose value serialises to
    no keys reads back as the null member (json_serializer.rst, 'Nullable')."""
    if isinstance(t, dt.Alias):
        return expected_readback(api, t.data_type, v)
    if isinstance(t, dt.Nullable):
        return None if v is None else expected_readback(api, t.data_type, v)
    if isinstance(t, dt.List):
        return [expected_readback(api, t.data_type, x) for x in v]
    if isinstance(t, dt.Map):
        return {k: expected_readback(api, t.value_data_type, x) for k, x in v.items()}
    if isinstance(t, dt.Struct):
        actual = rt.find_struct(api, v.ns, v.name)
        fields = []
        given = dict(v.fields)
        for f in rt.struct_fields(actual):
            if f.name in given:
                nv = expected_readback(api, f.data_type, given[f.name])
                if nv is None and rt.strip(f.data_type)[1]:
                    continue
                fields.append((f.name, nv))
        return rt.SV(v.ns, v.name, tuple(fields))
    if isinstance(t, dt.Union):
        field = [f for f in rt.union_tags(t) if f.name == v.tag][0]
        ft, nullable = rt.strip(field.data_type)
        if isinstance(ft, dt.Void) or v.value is None:
            return rt.UV(t.namespace.name, t.name, v.tag, None)
        inner = expected_readback(api, field.data_type, v.value)
        if nullable and isinstance(ft, dt.Struct) and not ft.has_enumerated_subtypes() and not inner.fields:
            return rt.UV(t.namespace.name, t.name, v.tag, None)
        return rt.UV(t.namespace.name, t.name, v.tag, inner)
    return rt.normalize(api, t, v)


def has_collapsing_member(api, t, v):
    """Does the value contain a nullable plain-struct union member without set fields (equality not required there)?"""
    return expected_readback(api, t, v) != rt.normalize(api, t, v)


# ---------------------------------------------------------------------------
# re-specification history: two revisions of a spec generated one after the other into the SAME package name in one process (the first
# unloaded before the second is imported), values round-tripped under each through the package's own serializer module and through the
# library's long-lived one.  The oracle is unchanged (round trip); what is explored is what the first revision leaves behind.

REV_FIELDS = {
    'base': [('id', 'UInt64', 7), ('label', 'String', 'bolt')],
    'plus-optional': [('id', 'UInt64', 7), ('label', 'String', 'bolt'), ('note', 'String?', 'metric')],
    'plus-defaulted': [('id', 'UInt64', 7), ('label', 'String', 'bolt'), ('count', 'Int32 = 1', 12)],
    'retyped': [('id', 'String', 'seven'), ('label', 'List(String)', ['a', 'b'])],
    'fewer': [('label', 'String', 'bolt')],
    'reordered': [('label', 'String', 'bolt'), ('id', 'UInt64', 7)],
}
REV_PKG = 'respecpkg'


def rev_spec(rev):
    lines = ['namespace inventory', '', 'struct Item']
    lines += ['    %s %s' % (n, t) for n, t, _ in REV_FIELDS[rev]]
    lines += ['', 'struct Crate extends Item', '    depth Int32?', '', 'union Entry', '    item Item', '    crate Crate', '    missing', '']
    return [('inventory.stone', '\n'.join(lines))]


def respec_items():
    return [('respec', a, b) for a in REV_FIELDS for b in REV_FIELDS if a != b]


def respec_task(item):
    _, first, second = item
    import stone.backends.python_rsrc.stone_serializers as lib_ss
    out_v = []
    oc = collections.Counter()
    n = 0
    for rev in (first, second):
        specs = rev_spec(rev)
        out = impl.compile_specs(specs)
        if out.kind != 'ok':
            raise explore.InternalError('revision %s is not accepted: %s' % (rev, out.brief()))
        pkg, fail = impl.build_python_package(out.api, pkg=REV_PKG)
        if pkg is None:
            raise explore.InternalError('revision %s does not generate: %s' % (rev, fail.identity))
        try:
            inv = pkg.mod('inventory')
            kw = {nm: v for nm, _, v in REV_FIELDS[rev]}
            values = [('Item', inv.Item_validator, inv.Item(**kw)), ('Crate', inv.Crate_validator, inv.Crate(depth=3, **kw)),
                      ('Entry.item', inv.Entry_validator, inv.Entry.item(inv.Item(**kw))), ('Entry.crate', inv.Entry_validator, inv.Entry.crate(inv.Crate(**kw))),
                      ('Entry.missing', inv.Entry_validator, inv.Entry.missing)]
            for ssname, ss in (('package', pkg.ss), ('library', lib_ss)):
                for vname, val, v in values:
                    for strict in (True, False):
                        n += 1
                        inputs = {'first_revision': first, 'second_revision': second, 'revision_in_use': rev, 'value': vname, 'serializer': ssname, 'strict': strict,
                                  'specs': rev_spec(first) + rev_spec(second)}
                        try:
                            o = ss.json_compat_obj_encode(val, v)
                            back = ss.json_compat_obj_decode(val, json.loads(json.dumps(o)), strict=strict)
                            o2 = ss.json_compat_obj_encode(val, back)
                        except Exception as e:  # noqa
                            if ssname == 'library' and isinstance(e, (AssertionError, AttributeError, TypeError)) and rev == first:
                                oc['library-serializer-not-usable'] += 1
                                continue
                            out_v.append(viol('respec:%s:%s' % (rtbase.runtime_identity(e, 'roundtrip-raised'), ssname),
                                              'round trip of %s under revision %s (%s serializer) raised %r%s' % (vname, rev, ssname, e, '' if rev == first else ' [history: revision %s was generated, used and unloaded first]' % first), inputs))
                            continue
                        want_keys = None
                        if vname in ('Item', 'Crate'):
                            want_keys = sorted([nm for nm, _, _ in REV_FIELDS[rev]] + (['depth'] if vname == 'Crate' else []))
                        if not (back == v) or back != v or json.dumps(o2, sort_keys=True) != json.dumps(o, sort_keys=True) or (want_keys is not None and sorted(o) != want_keys):
                            out_v.append(viol('respec:roundtrip-value:%s:%s' % (ssname, 'second-revision' if rev == second else 'first-revision'),
                                              '%s under revision %s (%s serializer): wire %s, read back %r, re-encoded %s%s' % (
                                                  vname, rev, ssname, json.dumps(o), back, json.dumps(o2), '' if rev == first else ' [history: revision %s was generated, used and unloaded first]' % first), inputs))
                        else:
                            oc['respec-ok:' + ssname] += 1
        finally:
            pkg.close()
    return {'outcome': oc, 'viol': out_v, 'n': n, 'transitions': n}


def task(item):
    if item[0] == 'respec':
        return respec_task(item)
    if item[0] == 'namecase':
        return rtbase.name_case_task(['roundtrip'])
    if item[0] == 'history':
        return rtbase.history_task(task, item, TIER[0])
    pos, i = item
    u = rtbase.universe(TIER[0])
    t = u.ir_type(pos, i)
    val = u.validator(pos, i)
    shape = u.shapes[i]
    out_v = []
    oc = collections.Counter()
    n = 0
    for v in rt.ref_values(t):
        inputs = {'shape': shape, 'position': pos, 'value': rt.show(v)}
        try:
            inst = rt.instantiate(u.pkg, u.api, t, v)
        except Exception as e:  # noqa   (C08 reports values that the generated classes refuse)
            oc['not-constructible'] += 1
            continue
        try:
            enc_obj = u.ss.json_compat_obj_encode(val, inst)
            enc_str = u.ss.json_encode(val, inst)
        except Exception as e:  # noqa
            # a valid value that was built through the public constructors has no encoding: there is nothing to decode
            oc['encode-raised'] += 1
            out_v.append(viol('%s:%s' % (rtbase.runtime_identity(e, 'encode-raised'), rtbase.shape_kind(shape)),
                              'encoding a valid value raised %r (%s at %s)' % (e, rt.show(v), shape), inputs, repr(e)))
            continue
        exp = expected_readback(u.api, t, v)
        collapsing = has_collapsing_member(u.api, t, v)
        for strict in (True, False):
            for entry in ('obj', 'str'):
                n += 1
                mode = '%s/%s' % ('strict' if strict else 'lenient', entry)
                inputs2 = dict(inputs, mode=mode, encoding=enc_str[:500])
                try:
                    if entry == 'obj':
                        dec = u.ss.json_compat_obj_decode(val, json.loads(json.dumps(enc_obj)), strict=strict)
                    else:
                        dec = u.ss.json_decode(val, enc_str, strict=strict)
                except Exception as e:  # noqa
                    oc['decode-raised'] += 1
                    out_v.append(viol('%s:%s' % (rtbase.runtime_identity(e, 'decode-own-encoding'), rtbase.shape_kind(shape)),
                                      'decoding the encoding of a valid value raised %r (%s, %s at %s)' % (e, mode, rt.show(v), shape), inputs2, repr(e)))
                    continue
                try:
                    got = rt.observe(u.pkg, u.api, t, dec)
                except Exception as e:  # noqa
                    got = ('!unobservable', repr(e))
                if got != exp:
                    oc['value-differs'] += 1
                    out_v.append(viol('roundtrip-value:%s:%s' % (pos, rtbase.shape_kind(shape)), 'decode(encode(v)) != v (%s): %s -> %s at %s' % (
                        mode, rt.show(exp), rt.show(got), shape), inputs2, rt.show(got), rt.show(exp)))
                    continue
                try:
                    eq = (dec == inst)
                except Exception as e:  # noqa
                    eq = 'raised %r' % (e,)
                if eq is not True and not collapsing:
                    oc['eq-differs'] += 1
                    out_v.append(viol('roundtrip-eq:%s:%s' % (pos, rtbase.shape_kind(shape)), 'generated __eq__ says decode(encode(v)) != v (%s) for %s at %s: %r' % (
                        mode, rt.show(v), shape, eq), inputs2))
                    continue
                try:
                    again = json.loads(u.ss.json_encode(val, dec))
                except Exception as e:  # noqa
                    oc['reencode-raised'] += 1
                    out_v.append(viol('%s:%s' % (rtbase.runtime_identity(e, 'reencode'), pos), 're-encoding the decoded value raised %r (%s at %s)' % (e, rt.show(v), shape), inputs2))
                    continue
                if not rtbase.json_equal(again, json.loads(enc_str)):
                    oc['reencode-differs'] += 1
                    out_v.append(viol('roundtrip-json:%s:%s' % (pos, rtbase.shape_kind(shape)), 'encode(decode(encode(v))) != encode(v) (%s): %s vs %s' % (
                        mode, json.dumps(again)[:200], enc_str[:200]), inputs2))
                    continue
                oc['roundtrip-ok:%s' % rtbase.json_kind(enc_obj)] += 1
    return {'outcome': oc, 'viol': out_v, 'n': n, 'transitions': n}


def run(tier, seed):
    TIER[0] = tier
    r = explore.Run(PROP, tier, seed)
    try:
        u = rtbase.universe(tier)
    except rtbase.UniverseError as e:
        rtbase.universe_failure(r, PROP, e)
        return r.finish('packed universe could not be built')
    items = rtbase.items(tier) + [('namecase', 0)]
    r.bounds.update({'shapes': len(u.shapes), 'positions': list(rtbase.POSITIONS), 'nesting': 2 if tier == 'quick' else 3,
                     'modes': ['strict/obj', 'strict/str', 'lenient/obj', 'lenient/str']})
    for it in items[:1] + items[len(items) // 3:len(items) // 3 + 2]:
        t = u.ir_type(*it)
        r.sample({'position': it[0], 'shape': u.shapes[it[1]], 'values': [rt.show(v) for v in rt.ref_values(t)[:3]]})
    r.run_tasks(task, items, budget=120)
    hist = rtbase.history_items(tier)
    r.bounds['history_pairs'] = len(hist)
    r.run_tasks(task, hist, budget=240, order_base=len(items), fresh=True)
    resp = respec_items()
    r.bounds['respecification_pairs'] = len(resp)
    r.run_tasks(task, resp, budget=240, order_base=len(items) + len(hist), fresh=True)
    r.assumptions = ['values with the catch-all tag selected are not part of the value set (C06 requires decoders to refuse it)',
                     'a nullable plain-struct union member without set fields reads back as the null member (documented)']
    r.finish('every type shape at every position x every boundary value x {strict, lenient} x {object, string} entry points: '
             'decode(encode(v)) == v through public attributes and __eq__, and encode(decode(encode(v))) == encode(v)')


def replay(rep):
    if 'first_revision' in rep['inputs']:
        out = respec_task(('respec', rep['inputs']['first_revision'], rep['inputs']['second_revision']))
        if out['viol']:
            print('VIOLATION property=%s replay=replayed' % PROP)
            return 1
        return 0
    TIER[0] = 'thorough'
    u = rtbase.universe('thorough')
    shape, pos = rep['inputs']['shape'], rep['inputs']['position']
    if shape not in u.shapes:
        return 2
    if rep['inputs'].get('history') in u.shapes:
        task(('alias', u.shapes.index(rep['inputs']['history'])))
    out = task((pos, u.shapes.index(shape)))
    if out['viol']:
        print('VIOLATION property=%s replay=replayed' % PROP)
        return 1
    return 0
