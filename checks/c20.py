"""C20 - a route whitelist yields a dependency-closed, minimal API.

States: (spec model, whitelist).  Spec models are (i) a gadget family built for the purpose - one gadget per dependency
edge kind (field directly / through List / Map / Nullable / alias / alias chain, parent, enumerated subtypes both ways, union
tag, union parent, tag default, doc references of every kind from type / field / route / namespace docs, route result / error,
patched fields, route versions), same-namespace and cross-namespace, each with bystander types, aliases and routes, alone and
in pairs - and (ii) the C01 construction-machine states that contain routes.  Whitelists: every subset of the route
versions (plus the '*' form) x {no data type, each candidate data type}.
Every state runs specs_to_ir(route_whitelist_filter=...) and python_types + import of the filtered API.
Oracle: reachability over the *model* (not over stone's IR): L (must be retained) and U >= L (may be retained).
"""
import collections
import itertools
import re
import sys

from mc import explore, render, impl
from mc import model as mm
from mc.model import (P, L, M, N, R, VOID, Struct, Union, Alias, Route, Patch, File, Namespace, Model, mkfield, mktag, mkstruct, mkunion, mkroute)
from mc.explore import viol
from checks import c01

PROP = 'C20'
I32 = P('Int32', ())

# ---------------------------------------------------------------------------
# reference closure over the model

REF_RE = re.compile(r':(type|field|route):`([^`]+)`')


def doc_refs(doc):
    return REF_RE.findall(doc or '')


class Closure(object):
    def __init__(self, model, follow_ns_docs, follow_pulled_route_docs):
        self.model = model
        self.types = set()
        self.aliases = set()
        self.routes = set()
        self.follow_ns_docs = follow_ns_docs
        self.follow_pulled = follow_pulled_route_docs

    def route_def(self, ns, name, ver):
        for n, fi, di, d in mm.all_defs(self.model, ns):
            if isinstance(d, Route) and d.name == name and d.version == ver:
                return d
        return None

    def visit_texpr(self, ns, t):
        for r in mm.type_refs(t):
            self.visit_ref(ns, r)

    def visit_ref(self, ns, r):
        res = mm.resolve(self.model, ns, r)
        if res is None:
            return
        dns, d = res
        if isinstance(d, Alias):
            if (dns, d.name) in self.aliases:
                return
            self.aliases.add((dns, d.name))
            self.visit_texpr(dns, d.type)
            self.visit_doc(dns, d.doc)
        else:
            self.visit_def(dns, d)

    def visit_def(self, ns, d):
        if (ns, d.name) in self.types:
            return
        self.types.add((ns, d.name))
        if d.parent is not None:
            self.visit_ref(ns, d.parent)
        for m in mm.own_members(self.model, ns, d):
            if m.type is not None:
                self.visit_texpr(ns, m.type)
            self.visit_doc(ns, m.doc)
        if isinstance(d, Struct) and d.subtypes is not None:
            for tag, ref in d.subtypes[1]:
                self.visit_ref(ns, ref)
        self.visit_doc(ns, d.doc)

    def visit_doc(self, ns, doc):
        for tag, val in doc_refs(doc):
            parts = val.split('.')
            if tag == 'type':
                r = R(parts[0], parts[1]) if len(parts) == 2 else R(None, parts[0])
                self.visit_ref(ns, r)
            elif tag == 'field':
                if len(parts) == 1:
                    continue
                r = R(parts[0], parts[1]) if len(parts) == 3 else R(None, parts[0])
                self.visit_ref(ns, r)
            else:
                rns = ns
                name = val
                if '.' in val:
                    rns, name = val.split('.', 1)
                ver = 1
                if ':' in name:
                    name, v = name.split(':')
                    ver = int(v)
                self.pull_route(rns, name, ver)

    def visit_route_io(self, ns, rd):
        for t in (rd.arg, rd.result, rd.error):
            self.visit_texpr(ns, t)

    def pull_route(self, ns, name, ver):
        if (ns, name, ver) in self.routes:
            return
        rd = self.route_def(ns, name, ver)
        if rd is None:
            return
        self.routes.add((ns, name, ver))
        self.visit_route_io(ns, rd)
        if self.follow_pulled:
            self.visit_doc(ns, rd.doc)
            if isinstance(rd.deprecated, tuple):
                self.pull_route(ns, rd.deprecated[0], rd.deprecated[1])

    def seed(self, route_wl, type_wl):
        for ns, name, ver in route_wl:
            rd = self.route_def(ns, name, ver)
            self.routes.add((ns, name, ver))
            self.visit_route_io(ns, rd)
            self.visit_doc(ns, rd.doc)
            if self.follow_pulled and isinstance(rd.deprecated, tuple):
                self.pull_route(ns, rd.deprecated[0], rd.deprecated[1])
        for ns, name in type_wl:
            fi, di, d = mm.find_def(self.model, ns, name)
            self.visit_def(ns, d)
        return self


def closures(model, route_wl, type_wl, named_ns):
    lo = Closure(model, False, False).seed(route_wl, type_wl)
    hi = Closure(model, True, True).seed(route_wl, type_wl)
    for ns in named_ns:
        for f in mm.get_ns(model, ns).files:
            hi.visit_doc(ns, f.doc)
    # types the route attribute schema mentions may stay as well
    for n, fi, di, d in mm.all_defs(model, 'stone_cfg') if any(x.name == 'stone_cfg' for x in model.namespaces) else ():
        if isinstance(d, Struct) and d.name == 'Route':
            for m in mm.own_members(model, 'stone_cfg', d):
                hi.visit_texpr('stone_cfg', m.type)
    return lo, hi


# ---------------------------------------------------------------------------
# the filtered Api, as data

def user_types(t):
    from stone.ir import data_types as dt
    out = []
    stack = [t]
    n = 0
    while stack:
        n += 1
        if n > 200:
            break
        x = stack.pop()
        if isinstance(x, (dt.Nullable, dt.List, dt.Alias)):
            stack.append(x.data_type)
        elif isinstance(x, dt.Map):
            stack.append(x.key_data_type)
            stack.append(x.value_data_type)
        elif isinstance(x, dt.UserDefined):
            out.append(x)
    return out


def dangling(api):
    """References from retained items to data types that the filtered Api no longer lists."""
    from stone.ir import data_types as dt
    retained = {id(d) for ns in api.namespaces.values() for d in ns.data_types}
    out = []
    for ns in api.namespaces.values():
        for d in ns.data_types:
            for f in d.fields:
                for u in user_types(f.data_type):
                    if id(u) not in retained:
                        out.append(('field', '%s.%s.%s' % (ns.name, d.name, f.name), '%s.%s' % (u.namespace.name, u.name)))
            if d.parent_type is not None and id(d.parent_type) not in retained:
                out.append(('parent', '%s.%s' % (ns.name, d.name), '%s.%s' % (d.parent_type.namespace.name, d.parent_type.name)))
            if isinstance(d, dt.Struct) and d.has_enumerated_subtypes():
                for sf in d.get_enumerated_subtypes():
                    for u in user_types(sf.data_type):
                        if id(u) not in retained:
                            out.append(('subtype', '%s.%s' % (ns.name, d.name), '%s.%s' % (u.namespace.name, u.name)))
        for a in ns.aliases:
            for u in user_types(a.data_type):
                if id(u) not in retained:
                    out.append(('alias', '%s.%s' % (ns.name, a.name), '%s.%s' % (u.namespace.name, u.name)))
        for r in ns.routes:
            for slot in ('arg_data_type', 'result_data_type', 'error_data_type'):
                for u in user_types(getattr(r, slot)):
                    if id(u) not in retained:
                        out.append(('route', '%s.%s:%d' % (ns.name, r.name, r.version), '%s.%s' % (u.namespace.name, u.name)))
    return out


def import_all(api, retained_types, retained_routes, tag):
    """python_types of the api into a package; every namespace module imported first once.  Returns a list of failure strings."""
    pkg, b = impl.build_python_package(api)
    if pkg is None:
        return ['python_types fails: %s' % (b.identity,)], 'backend:%s' % b.identity
    fails, ident = [], None
    try:
        names = [n for n in api.namespaces]
        for first in names:
            for k in [k for k in sys.modules if k == pkg.name or k.startswith(pkg.name + '.')]:
                if not k.endswith(('stone_base', 'stone_validators', 'stone_serializers')):
                    del sys.modules[k]
            pkg.modules.clear()
            try:
                for n in [first] + [x for x in names if x != first]:
                    pkg.mod(n)
            except Exception as e:  # noqa
                fails.append('import of %s first: %s: %s' % (first, type(e).__name__, str(e)[:200]))
                ident = 'import:%s' % type(e).__name__
                break
        if not fails:
            from stone.backends.python_helpers import fmt_class
            for ns, name in sorted(retained_types):
                if not hasattr(pkg.mod(ns), fmt_class(name)):
                    fails.append('module %s lacks class %s' % (ns, fmt_class(name)))
                    ident = 'module-lacks-class'
            for ns, name, ver in sorted(retained_routes):
                routes = getattr(pkg.mod(ns), 'ROUTES', {})
                key = name if ver == 1 else '%s:%d' % (name, ver)
                if key not in routes:
                    fails.append('module %s lacks route %s (has %r)' % (ns, key, sorted(routes)[:6]))
                    ident = 'module-lacks-route'
    finally:
        pkg.close()
    return fails, ident


# ---------------------------------------------------------------------------
# gadgets

KINDS = ['field', 'list', 'map', 'nullable', 'nested', 'alias', 'alias_chain', 'alias_list', 'parent', 'subtypes_down', 'subtypes_up', 'union_tag', 'union_tag_list',
         'union_parent', 'default_tag', 'doc_type', 'doc_field', 'fielddoc_type', 'tagdoc_type', 'doc_route', 'routedoc_type', 'routedoc_route', 'routedoc_field', 'result', 'error',
         'route_alias', 'route_list', 'nsdoc_type', 'patch', 'version2', 'aliasdoc_type', 'deep_doc',
         'doc_field_alias', 'routedoc_field_alias', 'parent_fielddoc', 'grandparent_fielddoc', 'same_field_first', 'same_field_second', 'same_alias_field_first', 'same_alias_field_second']
SAME_NS_ONLY = {'subtypes_down', 'subtypes_up', 'patch'}


def gadget(kind, s, cross):
    """Returns (home_defs, other_defs, home_doc, routes, must-know names).  s: name suffix ('Xa' / 'Xb')."""
    tn = 'wb' if cross else None           # namespace qualifier of the target as seen from the home namespace
    T = lambda name: R(tn, name + s)
    home, other = [], []
    tdefs = other if cross else home
    home_doc = None
    go_arg, go_res, go_err, go_doc = R(None, 'Start' + s), VOID, VOID, None
    start = None
    # the target with something behind it
    deep = mkstruct('Deep' + s, fields=[mkfield('c', R(None, 'OtherCommon' if cross else 'Common'))])
    target = mkstruct('Target' + s, fields=[mkfield('deep', R(None, 'Deep' + s))])
    extra_routes = []
    if kind == 'field':
        start = mkstruct('Start' + s, fields=[mkfield('f', T('Target'))])
    elif kind == 'list':
        start = mkstruct('Start' + s, fields=[mkfield('f', L(T('Target'), None, None))])
    elif kind == 'map':
        start = mkstruct('Start' + s, fields=[mkfield('f', M(T('Target')))])
    elif kind == 'nullable':
        start = mkstruct('Start' + s, fields=[mkfield('f', N(T('Target')))])
    elif kind == 'nested':
        start = mkstruct('Start' + s, fields=[mkfield('f', N(L(M(L(N(T('Target')), None, None)), None, None)))])
    elif kind == 'alias':
        home.append(Alias('Al' + s, T('Target'), None, ()))
        start = mkstruct('Start' + s, fields=[mkfield('f', R(None, 'Al' + s))])
    elif kind == 'alias_chain':
        tdefs.append(Alias('Alt' + s, L(R(None, 'Target' + s), None, None), None, ()))
        home.append(Alias('Al' + s, T('Alt'), None, ()))
        start = mkstruct('Start' + s, fields=[mkfield('f', N(R(None, 'Al' + s)))])
    elif kind == 'alias_list':
        home.append(Alias('Al' + s, M(N(T('Target'))), None, ()))
        start = mkunion('Start' + s, tags=[mktag('v'), mktag('f', R(None, 'Al' + s))])
    elif kind == 'parent':
        start = mkstruct('Start' + s, parent=T('Target'), fields=[mkfield('f', I32)])
    elif kind == 'parent_fielddoc':
        # the parent's own field doc names a type by its local name: it must be read in the parent's namespace
        target = mkstruct('Target' + s, fields=[mkfield('deep', I32, doc='Counts :type:`Deep%s` and :field:`Deep%s.c`.' % (s, s))])
        start = mkstruct('Start' + s, parent=T('Target'), fields=[mkfield('f', I32)])
    elif kind == 'grandparent_fielddoc':
        tdefs.append(mkstruct('Top' + s, fields=[mkfield('t', I32, doc='See :type:`Deep%s`.' % s)], doc='Top of :type:`Deep%s`.' % s))
        target = mkstruct('Target' + s, parent=R(None, 'Top' + s), fields=[mkfield('deep', I32)])
        start = mkstruct('Start' + s, parent=T('Target'), fields=[mkfield('f', I32)])
    elif kind == 'subtypes_down':
        start = mkstruct('Start' + s, fields=[mkfield('f', I32)], subtypes=(False, (('tt', R(None, 'Target' + s)),)))
        target = mkstruct('Target' + s, parent=R(None, 'Start' + s), fields=[mkfield('deep', R(None, 'Deep' + s))])
    elif kind == 'subtypes_up':
        target = mkstruct('Target' + s, fields=[mkfield('deep', R(None, 'Deep' + s))], subtypes=(False, (('st', R(None, 'Start' + s)), ('sb', R(None, 'Sib' + s)))))
        start = mkstruct('Start' + s, parent=R(None, 'Target' + s), fields=[mkfield('f', I32)])
        home.append(mkstruct('Sib' + s, parent=R(None, 'Target' + s), fields=[mkfield('sd', R(None, 'SibDeep' + s))]))
        home.append(mkstruct('SibDeep' + s, fields=[mkfield('x', I32)]))
    elif kind == 'union_tag':
        start = mkunion('Start' + s, tags=[mktag('v'), mktag('f', T('Target'))])
    elif kind == 'union_tag_list':
        start = mkunion('Start' + s, closed=True, tags=[mktag('v'), mktag('f', L(N(T('Target')), None, None))])
    elif kind == 'union_parent':
        target = mkunion('Target' + s, tags=[mktag('tv'), mktag('deep', R(None, 'Deep' + s))])
        start = mkunion('Start' + s, parent=T('Target'), tags=[mktag('v')])
    elif kind == 'default_tag':
        target = mkunion('Target' + s, tags=[mktag('tv'), mktag('deep', R(None, 'Deep' + s))])
        start = mkstruct('Start' + s, fields=[mkfield('f', T('Target'), mm.TagLit('tv'))])
    elif kind == 'doc_type':
        start = mkstruct('Start' + s, fields=[mkfield('f', I32)], doc='See :type:`%s`.' % ((tn + '.' if tn else '') + 'Target' + s))
    elif kind == 'doc_field':
        start = mkunion('Start' + s, tags=[mktag('v')], doc='See :field:`%s.deep`.' % ((tn + '.' if tn else '') + 'Target' + s))
    elif kind == 'doc_field_alias':
        tdefs.append(Alias('Alt' + s, R(None, 'Target' + s), None, ()))
        start = mkstruct('Start' + s, fields=[mkfield('f', I32)], doc='See :field:`%s.deep`.' % ((tn + '.' if tn else '') + 'Alt' + s))
    elif kind == 'routedoc_field_alias':
        tdefs.append(Alias('Alt' + s, R(None, 'Target' + s), None, ()))
        start = mkstruct('Start' + s, fields=[mkfield('f', I32)])
        go_doc = 'See :field:`%s.deep`.' % ((tn + '.' if tn else '') + 'Alt' + s)
    elif kind == 'fielddoc_type':
        start = mkstruct('Start' + s, fields=[mkfield('f', I32, doc='Holds a :type:`%s`.' % ((tn + '.' if tn else '') + 'Target' + s))])
    elif kind in ('same_field_first', 'same_field_second', 'same_alias_field_first', 'same_alias_field_second'):
        # two structs with a field of the same name and the same user-defined (or alias) type; only one of the two field docs names the target
        ref_doc = 'Holds a :type:`%s`.' % ((tn + '.' if tn else '') + 'Target' + s)
        docs = (ref_doc, 'Nothing here.') if kind.endswith('first') else ('Nothing here.', ref_doc)
        ftype = R(None, 'ComAl' + s) if 'alias' in kind else R(None, 'Common')
        home.append(Alias('ComAl' + s, R(None, 'Common'), None, ()))
        home.append(mkstruct('HoldA' + s, fields=[mkfield('shared', ftype, doc=docs[0])]))
        home.append(mkstruct('HoldB' + s, fields=[mkfield('shared', ftype, doc=docs[1])]))
        start = mkstruct('Start' + s, fields=[mkfield('a', R(None, 'HoldA' + s)), mkfield('b', N(R(None, 'HoldB' + s)))])
    elif kind == 'tagdoc_type':
        start = mkunion('Start' + s, tags=[mktag('v', doc='Like :field:`%s.deep`.' % ((tn + '.' if tn else '') + 'Target' + s))])
    elif kind == 'doc_route':
        start = mkstruct('Start' + s, fields=[mkfield('f', I32)], doc='Use :route:`%s`.' % ((tn + '.' if tn else '') + 'aux' + s.lower()))
        (other if cross else home).append(mkroute('aux' + s.lower(), 1, R(None, 'Target' + s), VOID, VOID))
        extra_routes.append(('wb' if cross else 'wa', 'aux' + s.lower(), 1))
    elif kind == 'routedoc_type':
        start = mkstruct('Start' + s, fields=[mkfield('f', I32)])
        go_doc = 'Returns something like :type:`%s`.' % ((tn + '.' if tn else '') + 'Target' + s)
    elif kind == 'routedoc_field':
        start = mkstruct('Start' + s, fields=[mkfield('f', I32)])
        go_doc = 'See :field:`%s.deep`.' % ((tn + '.' if tn else '') + 'Target' + s)
    elif kind == 'routedoc_route':
        start = mkstruct('Start' + s, fields=[mkfield('f', I32)])
        go_doc = 'Prefer :route:`%s`.' % ((tn + '.' if tn else '') + 'aux' + s.lower() + ':2')
        (other if cross else home).append(mkroute('aux' + s.lower(), 2, VOID, R(None, 'Target' + s), VOID))
        extra_routes.append(('wb' if cross else 'wa', 'aux' + s.lower(), 2))
    elif kind == 'result':
        start = mkstruct('Start' + s, fields=[mkfield('f', I32)])
        go_res = N(T('Target'))
    elif kind == 'error':
        start = mkstruct('Start' + s, fields=[mkfield('f', I32)])
        go_err = T('Target')
    elif kind == 'route_alias':
        home.append(Alias('Al' + s, T('Target'), None, ()))
        start = mkstruct('Start' + s, fields=[mkfield('f', I32)])
        go_res = R(None, 'Al' + s)
    elif kind == 'route_list':
        start = mkstruct('Start' + s, fields=[mkfield('f', I32)])
        go_arg = L(T('Target'), None, None)
        go_res = M(R(None, 'Start' + s))
    elif kind == 'nsdoc_type':
        start = mkstruct('Start' + s, fields=[mkfield('f', I32)])
        home_doc = 'Everything about :type:`%s`.' % ((tn + '.' if tn else '') + 'Target' + s)
    elif kind == 'patch':
        start = mkstruct('Start' + s, fields=[mkfield('f', I32)])
        home.append(Patch('struct', 'Start' + s, (mkfield('p', N(R(None, 'Target' + s))),), ()))
    elif kind == 'version2':
        start = mkstruct('Start' + s, fields=[mkfield('f', I32)])
        home.append(mkroute('go' + s.lower(), 2, T('Target'), VOID, VOID))
        extra_routes.append(('wa', 'go' + s.lower(), 2))
    elif kind == 'aliasdoc_type':
        home.append(Alias('Al' + s, I32, 'Counts :type:`%s`.' % ((tn + '.' if tn else '') + 'Target' + s), ()))
        start = mkstruct('Start' + s, fields=[mkfield('f', R(None, 'Al' + s))])
    elif kind == 'deep_doc':
        # the reference sits two steps away from the route: Start -> Mid (field), Mid's field doc -> Target
        home.append(mkstruct('Mid' + s, fields=[mkfield('m', I32, doc='See :type:`%s`.' % ((tn + '.' if tn else '') + 'Target' + s))]))
        start = mkstruct('Start' + s, fields=[mkfield('f', L(R(None, 'Mid' + s), None, None))])
    else:
        raise ValueError(kind)
    home.append(start)
    tdefs += [target, deep]
    # bystanders: nothing whitelisted reaches them unless the idle route is whitelisted
    home += [mkstruct('Idle' + s, fields=[mkfield('i', R(None, 'IdleDeep' + s))]), mkstruct('IdleDeep' + s, fields=[mkfield('x', I32)]),
             mkunion('IdleU' + s, tags=[mktag('v'), mktag('w', R(None, 'Idle' + s))]), Alias('IdleAl' + s, L(R(None, 'Idle' + s), None, None), None, ())]
    home.append(mkroute('go' + s.lower(), 1, go_arg, go_res, go_err, doc=go_doc))
    home.append(mkroute('loaf' + s.lower(), 1, R(None, 'Idle' + s), VOID, VOID))
    routes = [('wa', 'go' + s.lower(), 1), ('wa', 'loaf' + s.lower(), 1)] + extra_routes
    return home, other, home_doc, routes


def gadget_model(parts):
    """parts: [(kind, suffix, cross)] -> (Model, routes, candidate types)."""
    home = [mkstruct('Common', fields=[mkfield('x', I32)]), mkstruct('Island', fields=[mkfield('x', I32)])]
    other = [mkstruct('OtherIsland', fields=[mkfield('x', I32)]), mkstruct('OtherCommon', fields=[mkfield('x', I32)]), Alias('OtherAl', R(None, 'OtherIsland'), None, ())]
    docs, routes = [], []
    need_cross = False
    for kind, s, cross in parts:
        h, o, d, r = gadget(kind, s, cross)
        home += h
        other += o
        need_cross = need_cross or cross
        if d:
            docs.append(d)
        routes += r
    wa = Namespace('wa', (File(' '.join(docs) if docs else None, ('wb',) if need_cross else (), tuple(sorted(home, key=mm.def_sort_key))),))
    wb = Namespace('wb', (File(None, (), tuple(sorted(other, key=mm.def_sort_key))),))
    return Model((wa, wb)), routes


def whitelists(routes, type_candidates, limit_routes=5):
    """Every subset of the routes (first `limit_routes` of them), the '*' forms, x {no data type, each candidate}."""
    rs = routes[:limit_routes]
    out = []
    for k in range(len(rs) + 1):
        for sub in itertools.combinations(rs, k):
            for tc in [None] + list(type_candidates):
                out.append((list(sub), [tc] if tc else [], None))
    for ns in sorted({r[0] for r in routes}):
        for tc in [None] + list(type_candidates[:1]):
            out.append(([r for r in routes if r[0] == ns], [tc] if tc else [], ns))
    return out


def wl_json(route_wl, type_wl, star_ns):
    rw = collections.OrderedDict()
    if star_ns:
        rw[star_ns] = ['*']
    else:
        for ns, name, ver in route_wl:
            rw.setdefault(ns, []).append(name if ver == 1 else '%s:%d' % (name, ver))
    tw = collections.OrderedDict()
    for ns, name in type_wl:
        tw.setdefault(ns, []).append(name)
    return {'route_whitelist': rw, 'datatype_whitelist': tw}


def api_view(api):
    return {ns.name: {'types': sorted(d.name for d in ns.data_types), 'routes': sorted((r.name, r.version) for r in ns.routes), 'aliases': sorted(a.name for a in ns.aliases),
                      'by_name': sorted(ns.data_type_by_name), 'routes_by_name': sorted((k, v2) for k, v in ns.routes_by_name.items() for v2 in v.at_version)}
            for ns in api.namespaces.values()}


def task(item):
    label, model, routes, cands, do_import = item
    specs = render.render(model)
    oc = collections.Counter()
    out_v = []
    full = impl.compile_specs(specs)
    if full.kind != 'ok':
        if label[0] == 'gadget':
            raise explore.InternalError('gadget spec %r not accepted: %s\n%s' % (label, full.brief(), specs))
        return {'outcome': {'not-accepted': 1}, 'viol': [], 'n': 1, 'transitions': 0}
    full_import_ok = None
    n = 0
    for route_wl, type_wl, star_ns in whitelists(routes, cands):
        n += 1
        if star_ns:
            route_wl = [(nsn, d.name, d.version) for nsn, fi, di, d in mm.all_defs(model, star_ns) if isinstance(d, Route)]
        wl = wl_json(route_wl, type_wl, star_ns)
        inputs = {'specs': specs, 'whitelist': wl, 'label': list(label)}
        out = impl.compile_specs(specs, route_whitelist_filter=wl)
        if out.kind != 'ok':
            oc['filter-fails'] += 1
            out_v.append(viol('filter-fails:%s' % (out.escape_identity() if out.kind == 'escape' else 'invalid'), 'a valid whitelist makes compilation fail: %s' % out.brief(), inputs, out.tb))
            continue
        named = sorted(set(wl['route_whitelist']) | set(wl['datatype_whitelist']))
        lo, hi = closures(model, route_wl, type_wl, named)
        view = api_view(out.api)
        bad = False
        for ns in model.namespaces:
            if ns.name == 'stone_cfg':
                continue
            got = view.get(ns.name)
            if got is None:
                out_v.append(viol('namespace-missing', 'namespace %s disappeared' % ns.name, inputs))
                bad = True
                continue
            need = sorted(nm for n2, nm in lo.types if n2 == ns.name)
            may = {nm for n2, nm in hi.types if n2 == ns.name}
            for nm in need:
                if nm not in got['types']:
                    bad = True
                    out_v.append(viol('dependency-dropped', 'data type %s.%s is needed by the whitelist but was removed (kept %r)' % (ns.name, nm, got['types']), inputs, None, need))
            for nm in got['types']:
                if nm not in may:
                    bad = True
                    out_v.append(viol('bystander-retained', 'data type %s.%s is retained although nothing whitelisted depends on it' % (ns.name, nm), inputs, got['types'], sorted(may)))
            if got['by_name'] != got['types']:
                bad = True
                out_v.append(viol('data-type-by-name', 'namespace %s: data_types %r, data_type_by_name %r' % (ns.name, got['types'], got['by_name']), inputs))
            rneed = sorted((nm, ver) for n2, nm, ver in lo.routes if n2 == ns.name)
            rmay = {(nm, ver) for n2, nm, ver in hi.routes if n2 == ns.name}
            for rid in rneed:
                if rid not in got['routes']:
                    bad = True
                    kind = 'whitelisted' if (ns.name,) + rid in [tuple(x) for x in route_wl] else 'doc-referenced'
                    out_v.append(viol('route-dropped:%s' % kind, 'route %s.%s:%d is %s but missing (kept %r)' % (ns.name, rid[0], rid[1], kind, got['routes']), inputs))
            for rid in got['routes']:
                if tuple(rid) not in rmay:
                    bad = True
                    out_v.append(viol('route-bystander-retained', 'route %s.%s:%d is retained although not whitelisted nor referenced' % (ns.name, rid[0], rid[1]), inputs))
            if got['routes_by_name'] != got['routes']:
                bad = True
                out_v.append(viol('routes-by-name', 'namespace %s: routes %r, routes_by_name %r' % (ns.name, got['routes'], got['routes_by_name']), inputs))
        for kind, holder, target in dangling(out.api):
            bad = True
            out_v.append(viol('dangling:%s' % kind, '%s %s still refers to %s, which was removed' % (kind, holder, target), inputs))
        if do_import:
            if full_import_ok is None:
                f, _ = import_all(impl.compile_specs(specs).api, [], [], 'full')
                full_import_ok = not f
            if full_import_ok:
                retained_types = [(n2, nm) for n2, nm in lo.types if n2 != 'stone_cfg']
                retained_routes = [r for r in lo.routes]
                fails, ident = import_all(impl.compile_specs(specs, route_whitelist_filter=wl).api, retained_types, retained_routes, 'filtered')
                if fails:
                    bad = True
                    out_v.append(viol('filtered-code:%s' % ident, 'python_types of the filtered API does not load like the full one: %s' % fails[0], inputs, fails))
            else:
                oc['full-api-does-not-import'] += 1
        nt = sum(len(x['types']) for x in view.values())
        oc['%s:types=%s:routes=%d' % ('violating' if bad else 'closed', nt if nt < 6 else '6+', min(sum(len(x['routes']) for x in view.values()), 4))] += 1
    return {'outcome': oc, 'viol': out_v, 'n': n, 'transitions': n * (3 if do_import else 1)}


def gadget_items(tier):
    items = []
    variants = [(k, c) for k in KINDS for c in (False, True) if not (c and k in SAME_NS_ONLY)]
    for k, c in variants:
        model, routes = gadget_model([(k, 'Xa', c)])
        cands = [('wa', 'StartXa'), ('wb' if c else 'wa', 'TargetXa'), ('wa', 'IdleUXa'), ('wa', 'Island')]
        items.append((('gadget', k, 'cross' if c else 'same'), model, routes, cands, True))
    pairs = list(itertools.combinations(variants, 2)) + [(v, v) for v in variants]
    for (k1, c1), (k2, c2) in pairs:
        if tier == 'quick' and not (c1 != c2 or (k1, c1) == (k2, c2)):
            continue
        model, routes = gadget_model([(k1, 'Xa', c1), (k2, 'Xb', c2)])
        go = [r for r in routes if r[1].startswith(('go', 'aux'))] + [r for r in routes if r[1] == 'loafxa']
        cands = [('wb' if c2 else 'wa', 'TargetXb')]
        items.append((('gadget-pair', k1, 'cross' if c1 else 'same', k2, 'cross' if c2 else 'same'), model, go, cands, tier != 'quick'))
    return items


def mirror_items():
    """Two namespaces that define the SAME names with the SAME doc texts (unqualified references resolve per namespace), alone and
    with a third namespace that uses both: whatever is keyed by a bare type name or by a doc text must not confuse the two."""
    def defs(other_ns):
        d = [mkstruct('Common', fields=[mkfield('x', I32)]),
             mkstruct('Deep', fields=[mkfield('c', R(None, 'Common'))], doc='Deep part, see :type:`Common`.'),
             mkstruct('Island', fields=[mkfield('x', I32)]),
             mkstruct('Second', fields=[mkfield('s', N(R(None, 'Deep')))]),
             mkstruct('Start', fields=[mkfield('f', I32, doc='Counted in :type:`Target` and :field:`Target.deep`.')], doc='Starts at :type:`Target`; see :route:`aux`.'),
             mkstruct('Target', fields=[mkfield('deep', R(None, 'Deep'))]),
             mkunion('Pick', tags=[mktag('pv'), mktag('pt', R(None, 'Target'))], doc='Picks :type:`Second`.'),
             mkroute('aux', 1, R(None, 'Second'), VOID, VOID, doc='Helper for :route:`go`.'),
             mkroute('go', 1, R(None, 'Start'), R(None, 'Pick'), VOID, doc='Goes to :type:`Target` via :route:`aux`.'),
             mkroute('hop', 1, VOID, VOID, VOID, doc='First :route:`%saux`, then :route:`idle` and :type:`Island`.' % (other_ns + '.' if other_ns else '')),
             mkroute('idle', 1, R(None, 'Island'), VOID, VOID)]
        return tuple(sorted(d, key=mm.def_sort_key))
    out = []
    for order in (('wa', 'wb'), ('wb', 'wa')):
        # wa's `hop` route doc names wb.aux with a qualifier and then wa's own idle without one; wb's hop names its own aux (qualified)
        nss = [Namespace(n, (File(None, ('wb',) if n == 'wa' else (), defs('wb' if n == 'wa' else None)),)) for n in order]
        routes = [(n, r, 1) for n in ('wa', 'wb') for r in ('go', 'aux')] + [('wa', 'hop', 1)]
        out.append((('mirror', 'two namespaces, same names and docs', ' '.join(order)), Model(tuple(nss)), routes, [('wb', 'Target'), ('wa', 'Deep')], True))
        third = Namespace('wc', (File(None, ('wa', 'wb'), (mkstruct('Both', fields=[mkfield('a', R('wa', 'Start')), mkfield('b', N(R('wb', 'Start')))], doc='Both :type:`wa.Target` and :type:`wb.Second`.'),
                                                           mkroute('reach', 1, R(None, 'Both'), R('wb', 'Pick'), R('wa', 'Pick')))),))
        out.append((('mirror', 'plus a namespace that uses both', ' '.join(order)), Model(tuple(nss) + (third,)), [('wc', 'reach', 1)] + routes[:4], [('wb', 'Island')], True))
    return out


def machine_items(tier, r):
    # family pairs in both tiers (deeper in the thorough tier): the whitelist dimension multiplies every model by its route subsets
    states = c01.gather_states('quick', r, budget=150 if tier == 'quick' else 1200)
    items = []
    for model, trace, pname, flags, depth in states:
        routes = [(nsn, d.name, d.version) for nsn, fi, di, d in mm.all_defs(model) if isinstance(d, Route) and nsn != 'stone_cfg']
        if not routes:
            continue
        types = [(nsn, d.name) for nsn, fi, di, d in mm.all_defs(model) if isinstance(d, (Struct, Union)) and nsn != 'stone_cfg']
        items.append((('machine', pname, list(trace)[-3:]), model, routes[:4], types[:2], depth <= 4))
    return items


def run(tier, seed):
    r = explore.Run(PROP, tier, seed)
    items = gadget_items(tier) + mirror_items()
    ng = len(items)
    items += machine_items(tier, r)
    r.bounds.update({'edge_kinds': KINDS, 'gadget_specs': ng, 'machine_models_with_routes': len(items) - ng,
                     'whitelists': 'every subset of up to 5 route versions x {no data type, each candidate data type}, plus the * form per namespace'})
    r.sample({'gadget': list(items[3][0]), 'spec': render.render(items[3][1])[0][1][:400]})
    r.run_tasks(task, items, budget=900, chunksize=1)
    r.assumptions = ['doc references in namespace docs and in docs of routes that are themselves only doc-referenced may or may not seed the closure (upper closure U)',
                     'unreachable aliases whose targets are all retained are not judged']
    r.finish('for every (spec, whitelist): L <= retained data types and routes <= U per namespace; by-name tables agree; no field, parent, subtype list, alias target or route '
             'signature refers to a removed type; python_types of the filtered API imports with every namespace first and exposes the retained items')


def replay(rep):
    specs = [tuple(x) for x in rep['inputs']['specs']]
    out = impl.compile_specs(specs, route_whitelist_filter=rep['inputs']['whitelist'])
    print(out.brief())
    if out.kind == 'ok':
        print(api_view(out.api))
        d = dangling(out.api)
        print('dangling:', d)
        if d and rep['identity'].startswith('dangling'):
            print('VIOLATION property=%s replay=replayed' % PROP)
            return 1
    return 0
