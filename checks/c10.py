"""C10 - defaults and examples the compiler accepts are valid for the generated runtime.

A. Defaults: a packed spec with one defaulted field per (parameterised primitive type, boundary literal) - directly and
   through an alias - plus union-tag defaults (local, imported, through an alias, inherited tag).  Reading the never-set
   field must return the declared default (the ready void instance for tag defaults) and that value must be accepted by
   the field itself.
B. Examples: every model of the construction machine's example-family profiles (all pairs with F10) plus hand-written
   rich example specs; every example the compiler computes (except the implicit catch-all one) must decode strictly with
   the generated classes and encode back to the same document.
"""
import collections
import datetime
import json

from mc import explore, impl, render, paramspace, profiles, rt
from mc.machine import valid_literals
from mc.explore import viol
from checks import rtbase
from stone.ir import data_types as dt

PROP = 'C10'
_D = {}

RICH_EXAMPLES = [
    ('rich1', [('nb.stone', '''namespace nb

struct Foreign
    x Int32
    example default
        x = 1
    example other
        x = 2

union Funion
    fa
    fb Int32
    example default
        fb = 5
'''), ('na.stone', '''namespace na

import nb

alias AP = Plain
alias AL = List(Plain)
alias AFile = File

struct Plain
    a Int32
    b String = "dflt"
    c Int32?
    example default
        a = 1
    example full
        "all fields"
        a = 2
        b = "x"
        c = 3
    example nulls
        a = 3
        c = null

struct Kid extends Plain
    f nb.Foreign
    lf List(nb.Foreign)
    mf Map(String, nb.Foreign)
    nf nb.Foreign?
    u nb.Funion = fa
    ap AP
    fl Float64 = 2
    ts Timestamp("%Y-%m-%dT%H:%M:%SZ")
    byt Bytes?
    example default
        a = 1
        f = default
        lf = [default, other]
        mf = {"k": default}
        ap = full
        ts = "2015-05-12T15:50:38Z"
    example second
        a = 9
        f = other
        lf = []
        mf = {}
        nf = other
        u = default
        ap = nulls
        fl = 1.5
        ts = "1970-01-01T00:00:00Z"
        byt = "YWJj"

struct Res
    union
        file File
        folder Folder
    name String
    example default
        file = default
    example fol
        folder = default

struct File extends Res
    size UInt64 = 0
    example default
        name = "f"
        size = 7

struct Folder extends Res
    "leaf"
    example default
        name = "d"

union_closed UC
    v
    s Plain
    ns Plain?
    r Res
    l List(Int32)
    m Map(String, List(String))
    u2 nb.Funion
    k Kid
    lf File
    nlf Folder?
    alf AFile
    example default
        s = default
    example leaf
        lf = default
    example nleaf
        nlf = default
    example nleafnull
        nlf = null
    example aleaf
        alf = default
    example n1
        ns = null
    example n2
        ns = full
    example tree
        r = fol
    example lst
        l = [1, 2]
    example mp
        m = {"a": ["x"], "b": []}
    example inner
        u2 = default
    example innerv
        u2 = fa
    example kid
        k = second

union UO extends UC
    extra String
    example ex
        extra = "e"
    example inherited
        s = full

struct Nested
    "void tags two levels below the examples that embed this one"
    pick nb.Funion
    uc UC
    nuc UC?
    example default
        pick = fa
        uc = v
    example second
        pick = default
        uc = v
        nuc = v

struct Wrapper
    n Nested
    ln List(Nested)
    mn Map(String, Nested)
    example default
        n = default
        ln = [default, second]
        mn = {"k": second}

struct SameS
    "members of USame: a field named like the tag that carries the struct, of every JSON kind"
    same Plain
    lab String
    example default
        same = full
        lab = "o"

struct SameM
    samem Map(String, Int32)
    example default
        samem = {"a": 1}

struct SameU
    sameu nb.Funion
    example default
        sameu = fa
    example typed
        sameu = default

struct SameP
    samep String
    example default
        samep = "x"

struct SameL
    samel List(Plain)
    example default
        samel = [default, nulls]

struct SameT
    samet Res
    example default
        samet = fol

union_closed USame
    same SameS
    samem SameM
    sameu SameU
    samep SameP
    samel SameL
    samet SameT
    nsame SameS?
    example a
        same = default
    example b
        samem = default
    example c
        sameu = default
    example c2
        sameu = typed
    example d
        samep = default
    example e
        samel = default
    example f
        samet = default
    example g
        nsame = default

struct SameHolder
    one USame
    many List(USame)
    example default
        one = a
        many = [a, b, c, c2, d, e, f, g]

struct Holder
    uc UC
    uo UO = v
    lu List(UC)
    example default
        uc = tree
        lu = [default, v, n1]
    example second
        uc = v
        uo = ex
        lu = []
    example third
        uc = leaf
        uo = inherited
        lu = [leaf, aleaf, nleaf, nleafnull]
''')]),
]


def _reordered(specs):
    out = []
    for path, text in specs:
        head, _, body = text.partition('\n\n')
        blocks = [b for b in body.split('\n\n') if b.strip()]
        decls = [b for b in blocks if b.startswith(('import', 'alias', 'annotation'))]
        rest = [b for b in blocks if b not in decls]
        # group "struct X ... example ..." blocks: a block that does not start at column 0 with a keyword belongs to the previous one
        groups = []
        for b in rest:
            if b.startswith(('struct ', 'union ', 'union_closed ', 'route ', 'patch ')):
                groups.append([b])
            else:
                groups[-1].append(b)
        groups.reverse()
        out.append((path, head + '\n\n' + '\n\n'.join(decls + ['\n\n'.join(g) for g in groups]) + '\n'))
    return out


RICH_EXAMPLES.append(('rich1-reversed', _reordered(RICH_EXAMPLES[0][1])))


def defaults_spec():
    types = paramspace.valid_param_types('thorough')
    lines = ['namespace dn', '', 'import du', '', 'union Lunion', '    la', '    lb', '    lc Int32', '', 'union Lchild extends Lunion', '    ld', '',
             'alias Alunion = Lunion', '', 'alias Aflocal = du.Funion', '', 'alias Achain = du.Afunion', '', 'alias Azlocal = du.Azunion', '', 'struct Dhold', '    "defaults holder"']
    fields = []
    i = 0
    for t in types:
        lits = list(valid_literals(t, rich=True))
        for via_alias in (False, True):
            for v in lits:
                tt = render.texpr(t)
                if via_alias:
                    lines_alias.append('alias DA%d = %s' % (i, tt))
                    tt = 'DA%d' % i
                lines.append('    d%d %s = %s' % (i, tt, render.lit(v)))
                fields.append(('d%d' % i, t, v, via_alias))
                i += 1
    for j, (tt, tag) in enumerate([('Lunion', 'la'), ('Lunion', 'lb'), ('Lchild', 'la'), ('Lchild', 'ld'), ('Alunion', 'lb'), ('du.Funion', 'fa'), ('du.Afunion', 'fa'), ('Aflocal', 'fa'), ('Achain', 'fa'), ('du.Azunion', 'fa'), ('Azlocal', 'fa')]):
        lines.append('    u%d %s = %s' % (j, tt, tag))
        fields.append(('u%d' % j, ('tag', tt), tag, False))
    lines.append('')
    return '\n'.join(lines + lines_alias) + '\n', fields


lines_alias = []

DU = 'namespace du\n\nimport dz\n\nunion Funion\n    fa\n    fb String\n\nalias Afunion = Funion\n\nalias Azunion = dz.Zunion\n'
DZ = 'namespace dz\n\nunion Zunion\n    fa\n    zb Int32\n'


def defaults_universe():
    if 'u' not in _D:
        del lines_alias[:]
        text, fields = defaults_spec()
        specs = [('du.stone', DU), ('dz.stone', DZ), ('dn.stone', text)]
        out = impl.compile_specs(specs)
        if out.kind != 'ok':
            raise rtbase.UniverseError('compile', out.brief(), specs)
        pkg, fail = impl.build_python_package(out.api)
        if pkg is None:
            raise rtbase.UniverseError('generate', fail.identity, specs)
        try:
            pkg.mod('dn')
        except Exception:
            import traceback
            raise rtbase.UniverseError('import', traceback.format_exc()[-2000:], specs)
        _D['u'] = (out.api, pkg, fields, specs)
    return _D['u']


def defaults_task(item):
    _, lo, hi = item
    api, pkg, fields, specs = defaults_universe()
    dn = pkg.mod('dn')
    du = pkg.mod('du')
    VE = pkg.bv.ValidationError
    oc = collections.Counter()
    out_v = []
    irf = {f.name: f for f in api.namespaces['dn'].data_type_by_name['Dhold'].fields}
    for fname, t, lit, via_alias in fields[lo:hi]:
        inst = dn.Dhold()
        inputs = {'field': fname, 'type': render.texpr(t) if not (type(t) is tuple) else t[1], 'default': repr(lit), 'via_alias': via_alias}
        kind = (t.kind if not (type(t) is tuple) else 'tag') + ('@alias' if via_alias else '')
        try:
            got = getattr(inst, fname)
        except Exception as e:  # noqa
            oc['read-raised'] += 1
            out_v.append(viol('default-read-raised:%s:%s' % (kind, type(e).__name__), 'reading the unset defaulted field raised %r' % (e,), inputs))
            continue
        # expected Python value of the declared default
        if (type(t) is tuple):
            tt = t[1]
            cls = {'Lunion': dn.Lunion, 'Lchild': dn.Lchild, 'Alunion': dn.Lunion, 'du.Funion': du.Funion, 'du.Afunion': du.Funion, 'Aflocal': du.Funion, 'Achain': du.Funion, 'du.Azunion': pkg.mod('dz').Zunion, 'Azlocal': pkg.mod('dz').Zunion}[tt]
            exp = getattr(cls, lit)
            same = (got == exp) and getattr(got, '_tag', None) == lit
        else:
            if t.kind in ('Float32', 'Float64'):
                exp = float(lit)
            elif t.kind == 'Bytes':
                exp = lit.encode('utf-8')
            elif t.kind == 'Timestamp':
                exp = datetime.datetime.strptime(lit, dict(t.args)[''])
            else:
                exp = lit
            same = (got == exp) and type(got) is type(exp)
        if not same:
            oc['default-differs'] += 1
            out_v.append(viol('default-value:%s' % kind, 'unset field %s reads %r, the declared default is %r' % (fname, got, exp), inputs, repr(got), repr(exp)))
        else:
            oc['default-same'] += 1
        try:
            setattr(inst, fname, got)
            oc['default-accepted'] += 1
        except VE as e:
            oc['default-refused'] += 1
            out_v.append(viol('default-refused-by-runtime:%s' % kind, 'the default %r of field %s (accepted by the compiler) is refused by the generated class: %s' % (got, fname, e), inputs, repr(e)))
        except Exception as e:  # noqa
            out_v.append(viol('default-assign-raised:%s:%s' % (kind, type(e).__name__), 'assigning the default raised %r' % (e,), inputs))
    return {'outcome': oc, 'viol': out_v, 'n': hi - lo, 'transitions': hi - lo}


def strip_catch_all(api, d, label, value):
    """Is this the implicit example of a catch-all tag?"""
    if isinstance(d, dt.Union):
        for f in rt.union_tags(d):
            if f.catch_all and f.name == label:
                return True
    return False


def _equal_up_to_bool_as_number(a, b):
    if isinstance(a, bool) != isinstance(b, bool) and isinstance(a, (bool, int, float)) and isinstance(b, (bool, int, float)):
        return a == b
    if isinstance(a, dict) and isinstance(b, dict):
        return a.keys() == b.keys() and all(_equal_up_to_bool_as_number(a[k], b[k]) for k in a)
    if isinstance(a, list) and isinstance(b, list):
        return len(a) == len(b) and all(_equal_up_to_bool_as_number(x, y) for x, y in zip(a, b))
    if isinstance(a, str) and isinstance(b, str) and a != b:
        # text that base64-decodes leniently (characters outside the alphabet are dropped) comes back in canonical form: unspecified zone
        import base64
        try:
            return base64.b64encode(base64.b64decode(b)).decode('ascii') == a
        except Exception:  # noqa
            return False
    return rtbase.json_equal(a, b)


def examples_of_api(api, pkg, specs, trace=()):
    oc = collections.Counter()
    out_v = []
    n = 0
    ss = pkg.ss
    VE = pkg.bv.ValidationError
    # examples may name omitted fields (whether they may is not settled): decode on behalf of a caller holding every permission
    callers = sorted({f.omitted_caller for ns in api.namespaces.values() for d in ns.data_types for f in d.fields if f.omitted_caller})

    class CP(ss.CallerPermissionsInterface):
        @property
        def permissions(self):
            return callers
    cp = CP() if callers else None
    for nsn, ns in api.namespaces.items():
        try:
            mod = pkg.mod(nsn)
        except Exception as e:  # noqa
            out_v.append(viol('example-import:%s' % impl.import_error_identity(e), 'generated module %s does not import: %r' % (nsn, e), {'specs': specs, 'trace': list(trace)}))
            continue
        for d in ns.data_types:
            try:
                # reading the examples in another form first must not change them (the description is shared by all backends)
                first = json.dumps({k: v.value for k, v in d.get_examples().items()}, sort_keys=True, default=repr)
                d.get_examples(compact=True)
                examples = d.get_examples()
                again_ = json.dumps({k: v.value for k, v in examples.items()}, sort_keys=True, default=repr)
                if first != again_:
                    out_v.append(viol('examples-changed-by-reading', 'get_examples() of %s.%s differs after get_examples(compact=True) was called: %s vs %s' % (
                        nsn, d.name, first[:200], again_[:200]), {'specs': specs, 'type': '%s.%s' % (nsn, d.name), 'trace': list(trace)}))
            except Exception as e:  # noqa
                out_v.append(viol('get-examples-raised:%s' % type(e).__name__, 'get_examples() raised %r' % (e,), {'specs': specs}))
                continue
            from stone.backends.python_helpers import fmt_class
            validator = getattr(mod, fmt_class(d.name) + '_validator', None)
            if validator is None:
                continue
            for label, ex in examples.items():
                if strip_catch_all(api, d, label, ex.value):
                    continue
                n += 1
                doc = json.loads(json.dumps(ex.value))
                kind = ('struct' if isinstance(d, dt.Struct) else 'union')
                inputs = {'specs': specs, 'type': '%s.%s' % (nsn, d.name), 'label': label, 'example': json.dumps(doc)[:400], 'trace': list(trace)}
                try:
                    dec = ss.json_compat_obj_decode(validator, doc, strict=True, caller_permissions=cp)
                except VE as e:
                    oc['example-refused'] += 1
                    out_v.append(viol('example-refused:%s:%s' % (kind, rtbase.shape_kind(str(e))[:50]), 'example %s of %s.%s (%s) does not decode strictly: %s' % (
                        label, nsn, d.name, json.dumps(doc)[:200], e), inputs, repr(e)))
                    continue
                except Exception as e:  # noqa
                    oc['example-decode-raised'] += 1
                    out_v.append(viol('example-decode-raised:%s' % rtbase.runtime_identity(e, kind), 'decoding example %s raised %r' % (label, e), inputs, repr(e)))
                    continue
                try:
                    again = json.loads(ss.json_encode(validator, dec, caller_permissions=cp))
                except Exception as e:  # noqa
                    oc['example-reencode-raised'] += 1
                    out_v.append(viol('example-reencode-raised:%s:%s' % (kind, type(e).__name__), 're-encoding the decoded example %s raised %r' % (label, e), inputs, repr(e)))
                    continue
                if not rtbase.json_equal(again, doc) and _equal_up_to_bool_as_number(again, doc):
                    # a boolean literal given where a number is declared: unspecified zone (the runtime accepts bool as an Integral on purpose)
                    oc['example-unspecified:bool-for-number-or-lenient-base64'] += 1
                elif not rtbase.json_equal(again, doc):
                    oc['example-differs'] += 1
                    out_v.append(viol('example-roundtrip:%s' % kind, 'example %s of %s.%s re-encodes to %s, not to %s' % (label, nsn, d.name, json.dumps(again)[:200], json.dumps(doc)[:200]),
                                      inputs, json.dumps(again), json.dumps(doc)))
                else:
                    oc['example-ok'] += 1
    return oc, out_v, n


def defaults_of_api(api, pkg, specs, trace=()):
    """Every defaulted field of every struct of an accepted spec: the unset field reads the declared default (a ready instance of the union
    for a tag default) and the generated class accepts that value on assignment."""
    oc = collections.Counter()
    out_v = []
    n = 0
    VE = pkg.bv.ValidationError
    for nsn, ns in api.namespaces.items():
        structs = [d for d in ns.data_types if isinstance(d, dt.Struct) and any(f.has_default for f in d.fields)]
        if not structs:
            continue
        try:
            mod = pkg.mod(nsn)
        except Exception:  # noqa  (reported by the examples part)
            continue
        for d in structs:
            cls = getattr(mod, d.name, None)
            if cls is None:
                oc['default:class-name-respelled'] += 1
                continue
            for f in d.fields:
                if not f.has_default:
                    continue
                n += 1
                inputs = {'specs': specs, 'struct': '%s.%s' % (nsn, d.name), 'field': f.name, 'trace': list(trace)}
                target = dt.unwrap(f.data_type)[0]
                kind = type(target).__name__
                try:
                    inst = cls()
                    if not hasattr(type(inst), f.name):
                        oc['default:field-name-respelled'] += 1
                        continue
                    got = getattr(inst, f.name)
                except Exception as e:  # noqa
                    out_v.append(viol('default-read-raised:%s:%s' % (kind, type(e).__name__), 'reading the unset defaulted field %s.%s.%s raised %r' % (nsn, d.name, f.name, e), inputs))
                    continue
                if isinstance(target, dt.Union):
                    tag = getattr(f.default, 'tag_name', None)
                    ok = getattr(got, '_tag', None) == tag and isinstance(got, pkg.bb.Union)
                    exp = 'the ready instance of tag %r' % tag
                else:
                    exp = f.default
                    if isinstance(target, (dt.Float32, dt.Float64)):
                        ok = isinstance(got, float) and got == float(exp)
                    elif isinstance(target, dt.Bytes):
                        ok = got == (exp.encode('utf-8') if isinstance(exp, str) else exp)
                    elif isinstance(target, dt.Timestamp):
                        ok = got == datetime.datetime.strptime(exp, target.format) if isinstance(exp, str) else got == exp
                    else:
                        ok = got == exp and isinstance(got, bool) == isinstance(exp, bool)
                if not ok:
                    out_v.append(viol('default-value:%s:any-spec' % kind, 'unset field %s.%s.%s reads %r, the declared default is %s' % (nsn, d.name, f.name, got, exp if isinstance(exp, str) else repr(exp)), inputs, repr(got)[:200], repr(exp)[:200]))
                    continue
                try:
                    setattr(inst, f.name, got)
                    oc['default:ok'] += 1
                except VE as e:
                    out_v.append(viol('default-refused-by-runtime:%s:any-spec' % kind, 'the default %r of %s.%s.%s (accepted by the compiler) is refused by the generated class: %s' % (got, nsn, d.name, f.name, e), inputs, repr(e)))
                except Exception as e:  # noqa
                    out_v.append(viol('default-assign-raised:%s:%s' % (kind, type(e).__name__), 'assigning the default of %s.%s.%s raised %r' % (nsn, d.name, f.name, e), inputs))
    return oc, out_v, n


def model_task(item):
    kind, payload, trace = item
    specs = payload if kind in ('text', 'matrix') else render.render(payload)
    out = impl.compile_specs(specs)
    if out.kind != 'ok':
        if kind == 'text':
            raise explore.InternalError('hand-written example spec %r is not accepted: %s' % (trace, out.brief()))
        return {'outcome': 'not-accepted', 'viol': []}
    pkg, fail = impl.build_python_package(out.api)
    if pkg is None:
        return {'outcome': 'generation-failed', 'viol': [viol('example-generate:%s' % fail.identity, 'python_types failed on an accepted spec: %s' % fail.identity, {'specs': specs}, fail.tb)]}
    try:
        oc, v, n = examples_of_api(out.api, pkg, specs, trace)
        oc2, v2, n2 = defaults_of_api(out.api, pkg, specs, trace)
        oc.update(oc2)
        v, n = v + v2, n + n2
    finally:
        pkg.close()
    return {'outcome': oc, 'viol': v, 'n': max(n, 1), 'transitions': n}


def disagreement_task(item):
    """A literal the reference considers invalid: if the compiler accepts it as a default, the generated class must too."""
    _, t, v, via_alias = item
    from mc.paramspace import default_model
    specs = render.render(default_model(t, v, via_alias))
    out = impl.compile_specs(specs)
    if out.kind != 'ok':
        return {'outcome': 'bad-literal-refused-by-compiler', 'viol': []}
    pkg, fail = impl.build_python_package(out.api)
    if pkg is None:
        return {'outcome': 'generation-failed', 'viol': [viol('default-generate:%s' % fail.identity, 'python_types failed: %s' % fail.identity, {'specs': specs}, fail.tb)]}
    try:
        try:
            na = pkg.mod('na')
            inst = na.S()
            got = inst.f
            inst.f = got
            return {'outcome': 'bad-literal-accepted-by-both', 'viol': []}
        except pkg.bv.ValidationError as e:
            return {'outcome': 'compiler-runtime-disagree', 'viol': [viol('default-refused-by-runtime:%s%s:beyond-reference' % (t.kind, '@alias' if via_alias else ''),
                    'the compiler accepts default %r for %s but the generated class refuses it: %s' % (v, render.texpr(t), e), {'specs': specs}, repr(e))]}
        except Exception as e:  # noqa
            return {'outcome': 'default-raised', 'viol': [viol('default-assign-raised:%s:%s' % (t.kind, type(e).__name__), 'default %r for %s: %r' % (v, render.texpr(t), e), {'specs': specs})]}
    finally:
        pkg.close()


def isolated_default_task(item):
    """One default in a namespace of its own: nothing else in the module can bring in what the default needs (imports, helpers)."""
    _, t, lit, how = item
    tt = render.texpr(t)
    if how == 'direct':
        specs = [('iso.stone', 'namespace iso\n\nstruct H\n    f %s = %s\n' % (tt, render.lit(lit)))]
    elif how == 'local-alias':
        specs = [('iso.stone', 'namespace iso\n\nalias Al = %s\n\nstruct H\n    f Al = %s\n' % (tt, render.lit(lit)))]
    elif how == 'imported-alias':
        specs = [('far.stone', 'namespace far\n\nalias Al = %s\n' % tt), ('iso.stone', 'namespace iso\n\nimport far\n\nstruct H\n    f far.Al = %s\n' % render.lit(lit))]
    else:
        specs = [('far.stone', 'namespace far\n\nalias Al = %s\n' % tt), ('mid.stone', 'namespace mid\n\nimport far\n\nalias Am = far.Al\n'),
                 ('iso.stone', 'namespace iso\n\nimport mid\n\nstruct H\n    f mid.Am = %s\n' % render.lit(lit))]
    inputs = {'specs': specs, 'type': tt, 'default': repr(lit), 'how': how}
    out = impl.compile_specs(specs)
    if out.kind != 'ok':
        return {'outcome': 'isolated:not-accepted', 'viol': [], 'n': 1}
    pkg, fail = impl.build_python_package(out.api)
    if pkg is None:
        return {'outcome': 'isolated:generate-failed', 'viol': [viol('isolated-default:generate:%s:%s' % (t.kind, how), 'python_types fails: %s' % fail.identity, inputs, fail.tb)], 'n': 1}
    try:
        try:
            got = pkg.mod('iso').H().f
        except Exception as e:  # noqa
            return {'outcome': 'isolated:raised', 'viol': [viol('isolated-default:%s:%s:%s' % (type(e).__name__, t.kind, how),
                                                                'module with the single default %s %s = %s: %s: %s' % (how, tt, render.lit(lit), type(e).__name__, str(e)[:200]), inputs)], 'n': 1}
        if t.kind in ('Float32', 'Float64'):
            exp = float(lit)
        elif t.kind == 'Bytes':
            exp = lit.encode('utf-8')
        elif t.kind == 'Timestamp':
            import datetime
            exp = datetime.datetime.strptime(lit, dict(t.args)[''])
        else:
            exp = lit
        if got != exp or type(got) is not type(exp):
            return {'outcome': 'isolated:differs', 'viol': [viol('isolated-default:value:%s:%s' % (t.kind, how), 'unset field reads %r, declared default %r' % (got, exp), inputs)], 'n': 1}
    finally:
        pkg.close()
    return {'outcome': 'isolated:same', 'viol': [], 'n': 1}


def task(item):
    if item[0] == 'isolated':
        return isolated_default_task(item)
    if item[0] == 'defaults':
        return defaults_task(item)
    if item[0] == 'disagree':
        return disagreement_task(item)
    return model_task(item)


def run(tier, seed):
    r = explore.Run(PROP, tier, seed)
    try:
        api, pkg, fields, specs = defaults_universe()
    except rtbase.UniverseError as e:
        rtbase.universe_failure(r, PROP, e)
        return r.finish('defaults universe could not be built')
    items = [('defaults', lo, min(lo + 40, len(fields))) for lo in range(0, len(fields), 40)]
    from mc.faults import bad_literals
    nbad = 0
    for t in paramspace.valid_param_types('thorough'):
        for via_alias in (False, True):
            extra_lits = []
            if t.kind == 'Float32':
                # the band between the bound both sides use today (3.40282e38) and the largest IEEE single: the reference leaves it open, but
                # compiler and generated class must still agree on it
                extra_lits = [3.4028234e38, 3.4028234663852886e38, -3.4028234e38, 3.40283e38, 3.402820001e38]
            for v in list(bad_literals(t)) + extra_lits:
                items.append(('disagree', t, v, via_alias))
                nbad += 1
    r.bounds['invalid_literals_checked_for_compiler_runtime_agreement'] = nbad
    niso = 0
    seen_kinds = set()
    for t in paramspace.valid_param_types('thorough'):
        lits = list(valid_literals(t))
        if not lits or (t.kind in seen_kinds and tier == 'quick'):
            continue
        seen_kinds.add(t.kind)
        for how in ('direct', 'local-alias', 'imported-alias', 'alias-chain-over-three-namespaces'):
            items.append(('isolated', t, lits[0], how))
            niso += 1
    r.bounds['isolated_defaults'] = niso
    budget = 1200 if tier == 'quick' else 4000
    seen = set()
    nmodels = 0
    fams = [f for f in profiles.FAMILIES if profiles.implemented(f) and f != 'F10-examples']
    for other in fams:
        p = profiles.make_profile(('F10-examples', other))
        p.max_examples = 2
        br = profiles.explore_budget(p, budget)
        r.add_bfs(p.name, br)
        for s, tr, d in br.states:
            if s in seen:
                continue
            seen.add(s)
            if any(getattr(x, 'examples', ()) for _, _, _, x in __import__('mc.model', fromlist=['x']).all_defs(s)):
                items.append(('model', s, tr))
                nmodels += 1
    for name, specs_ in RICH_EXAMPLES:
        items.append(('text', specs_, (name,)))
    # example literal x declared type matrix (every literal kind, valid or not, as the example value of every type, in a struct
    # field and in a union member): whatever the compiler accepts must decode strictly and re-encode to the same document
    from mc import textspace
    nmatrix = 0
    for label, specs_ in textspace.literal_matrix_items(tier):
        if label.startswith(('matrix:example:', 'matrix:union-example:', 'matrix:default:')):
            items.append(('matrix', specs_, (label,)))
            nmatrix += 1
    r.bounds['example_literal_matrix'] = nmatrix
    r.bounds.update({'defaulted_fields': len(fields), 'example_models': nmodels, 'per_profile_state_budget': budget, 'rich_example_specs': len(RICH_EXAMPLES)})
    r.sample({'defaults': [(f, render.texpr(t) if not (type(t) is tuple) else t[1], repr(v)) for f, t, v, a in fields[:8]]})
    r.sample({'rich_example_spec': RICH_EXAMPLES[0][1][1][1][:600]})
    r.run_tasks(task, items, budget=120, chunksize=2)
    r.assumptions = ['the implicit example of a catch-all tag is excluded (decoders must refuse the catch-all tag)']
    r.finish('every (parameterised primitive, boundary literal) default directly and through an alias, tag defaults local/imported/aliased/'
             'inherited: unset read == declared default and the default is accepted on assignment; every computed example of every model of '
             'the example-family profiles and of the rich example specs decodes strictly and re-encodes to the same document')


def replay(rep):
    if 'specs' in rep['inputs']:
        specs = [tuple(x) for x in rep['inputs']['specs']]
        out = model_task(('matrix', specs, ()))
        if out['viol']:
            print('VIOLATION property=%s replay=replayed' % PROP)
            return 1
        return 0
    api, pkg, fields, specs = defaults_universe()
    out = defaults_task(('defaults', 0, len(fields)))
    if any(v['id'] == rep['identity'] for v in out['viol']):
        print('VIOLATION property=%s replay=replayed' % PROP)
        return 1
    return 0
