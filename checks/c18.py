"""C18 - backends write only inside the output folder, verbatim, as the manifest says.

1. Paths: every segment sequence up to the length bound over {name, ., .., empty (doubled slash), unicode, trailing slash},
   relative and absolute, through output_to_relative_path, copy_to_path (file and directory destination) and the Swift
   writer, in real and manifest mode, inside a sandbox whose complete tree is snapshotted before and after.
2. Emit scripts: all sequences up to the length bound over emit / emit_raw / emit_wrapped_text / indent / block /
   generate_multiline_list / placeholders with brace-, percent- and unicode-laden texts, for both tabs_for_indents
   settings, against an independent pretty-printer written from the doc-strings of docs/backend_ref.rst.
3. Manifest fidelity: every built-in backend x explored models x option sets: the manifest run reports exactly the files
   a real run creates and creates nothing itself (through Compiler and through the CLI).
"""
import collections
import itertools
import json
import os
import shutil
import textwrap

from mc import explore, impl, render, profiles
from mc.explore import viol
from stone.backend import CodeBackend, OutputManifest

PROP = 'C18'

# ---------------------------------------------------------------------------
# 1. paths

SEGMENTS = ['name', '.', '..', '', 'ünï', 'sub/']


def path_candidates(maxlen):
    for n in range(1, maxlen + 1):
        for segs in itertools.product(SEGMENTS, repeat=n):
            rel = '/'.join(segs)
            yield 'rel', rel
    # absolute paths: inside the output folder, next to it, and the output folder's prefix-sibling
    for tail in ('{out}/abs.txt', '{out}/../sibling/abs.txt', '{out}_v2/abs.txt', '{out}/sub/../../outx/abs.txt', '{root}/elsewhere/abs.txt', '{out}'):
        yield 'abs', tail


def snapshot(root):
    out = {}
    for dp, dn, fn in os.walk(root):
        for d in dn:
            out[os.path.relpath(os.path.join(dp, d), root) + '/'] = None
        for f in fn:
            p = os.path.join(dp, f)
            try:
                with open(p, 'rb') as fh:
                    out[os.path.relpath(p, root)] = fh.read()
            except OSError:
                out[os.path.relpath(p, root)] = '?'
    return out


class PathBackend(CodeBackend):
    def generate(self, api):
        pass


def inside(out, full):
    """Reference containment: the normalised path lies strictly under the output folder."""
    n = os.path.normpath(os.path.abspath(full))
    o = os.path.normpath(os.path.abspath(out))
    return n != o and n.startswith(o + os.sep)


def path_task(item):
    _, kind, p = item
    oc = collections.Counter()
    out_v = []
    n = 0
    for writer in ('output_to_relative_path', 'copy_to_path:file', 'copy_to_path:dir', 'swift_writer'):
        for manifest in (False, True):
            n += 1
            root = explore.fresh_dir('c18p')
            try:
                out = os.path.join(root, 'outer', 'out')
                os.makedirs(out)
                os.makedirs(os.path.join(root, 'outer', 'out_v2'))
                os.makedirs(os.path.join(root, 'outer', 'sibling'))
                src = os.path.join(root, 'src.txt')
                with open(src, 'w') as f:
                    f.write('SOURCE')
                rel = p.format(out=out, root=root) if kind == 'abs' else p
                full = os.path.join(out, rel)
                os.makedirs(os.path.join(out, 'name'))
                os.makedirs(os.path.join(out, 'sub'))
                norm_full = os.path.normpath(os.path.abspath(full))
                if writer == 'copy_to_path:dir':
                    # destination-directory form: only candidates that name an existing directory; the file lands in it
                    if not os.path.isdir(norm_full):
                        continue
                    effective = os.path.join(norm_full, 'src.txt')
                else:
                    effective = norm_full
                before = snapshot(root)
                mf = OutputManifest() if manifest else None
                from stone.backends.swift import SwiftBaseBackend
                exc = None
                try:
                    if writer == 'swift_writer':
                        class SB(SwiftBaseBackend):
                            cmdline_parser = None

                            def generate(self, api):
                                pass
                        b = SB(out, [])
                        b.output_manifest = mf
                        b._write_output_in_target_folder('CONTENT', rel)
                    else:
                        b = PathBackend(out, [])
                        b.output_manifest = mf
                        if writer == 'output_to_relative_path':
                            with b.output_to_relative_path(rel):
                                b.emit('CONTENT')
                        elif writer == 'copy_to_path:file':
                            b.copy_to_path(src, full)
                        else:
                            b.copy_to_path(src, full)
                except explore.Hang:
                    raise
                except BaseException as e:  # noqa
                    exc = e
                after = snapshot(root)
                created = {k: v for k, v in after.items() if k not in before}
                changed = {k for k in before if k in after and before[k] != after[k]}
                removed = {k for k in before if k not in after}
                inputs = {'writer': writer, 'manifest_mode': manifest, 'path': rel, 'kind': kind}
                out_rel = os.path.relpath(out, root)
                outside_created = [k for k in created if not (k.rstrip('/') + '/').startswith(out_rel + '/')]
                target_inside = inside(out, effective)
                degenerate = os.path.normpath(effective) == os.path.normpath(out) or (writer == 'copy_to_path:file' and os.path.isdir(norm_full))
                seg_class = 'abs' if kind == 'abs' else ('dotdot' if '..' in rel.split('/') else 'plain')
                if outside_created or changed or removed:
                    oc['escaped'] += 1
                    out_v.append(viol('write-outside-output-folder:%s:%s' % (writer, seg_class), '%s(%r)%s touched the file system outside the output folder: created %r changed %r removed %r' % (
                        writer, rel, ' [manifest]' if manifest else '', outside_created, sorted(changed), sorted(removed)), inputs))
                    continue
                if degenerate:
                    # the path names the output folder itself (or an existing directory as a file destination): nothing outside may be
                    # touched (checked above); what happens inside is not specified
                    oc['degenerate-target'] += 1
                    continue
                if manifest:
                    if created:
                        oc['manifest-created-files'] += 1
                        out_v.append(viol('manifest-run-created-files:%s' % writer, 'manifest mode created %r for %s(%r)' % (sorted(created), writer, rel), inputs))
                        continue
                    listed = mf.outputs()
                    if exc is None:
                        if not target_inside:
                            oc['manifest-accepted-escape'] += 1
                            out_v.append(viol('manifest-accepts-outside-path:%s:%s' % (writer, seg_class), 'manifest mode accepted %r which lies outside the output folder (listed %r)' % (rel, listed), inputs))
                            continue
                        for l in listed:
                            if l.startswith('..') or os.path.isabs(l):
                                out_v.append(viol('manifest-lists-outside-path:%s' % writer, 'manifest lists %r' % (l,), inputs))
                    oc['manifest-ok'] += 1
                    continue
                if not target_inside:
                    if exc is None:
                        # accepted a path that is not under the folder: the only legal way is that nothing was created
                        if created:
                            oc['accepted-escape'] += 1
                            out_v.append(viol('outside-path-accepted:%s:%s' % (writer, seg_class), '%s(%r) was not refused and created %r' % (writer, rel, sorted(created)), inputs))
                            continue
                    elif [k for k in created if not k.endswith('/')]:
                        oc['refused-but-created'] += 1
                        out_v.append(viol('refused-but-created:%s' % writer, '%s(%r) was refused (%r) but created %r inside the output folder' % (writer, rel, exc, sorted(created)), inputs))
                        continue
                    oc['refused-ok'] += 1
                    continue
                # target inside: the file appears exactly there, or the call fails with an OS error and nothing exists outside
                if exc is not None:
                    if isinstance(exc, OSError):
                        oc['os-error'] += 1
                    else:
                        oc['inside-refused'] += 1
                        out_v.append(viol('inside-path-refused:%s:%s' % (writer, type(exc).__name__), '%s(%r) lies inside the output folder but raised %r' % (writer, rel, exc), inputs))
                    continue
                if True:
                    want = os.path.relpath(os.path.normpath(effective), root)
                    files = [k for k in created if not k.endswith('/')]
                    if files != [want]:
                        oc['wrong-place'] += 1
                        out_v.append(viol('written-elsewhere:%s' % writer, '%s(%r) created %r, expected %r' % (writer, rel, files, want), inputs))
                        continue
                    exp = b'CONTENT\n' if writer == 'output_to_relative_path' else (b'CONTENT' if writer == 'swift_writer' else b'SOURCE')
                    if created[want] != exp:
                        out_v.append(viol('content:%s' % writer, 'file holds %r, expected %r' % (created[want], exp), inputs))
                        continue
                oc['written-ok'] += 1
            finally:
                shutil.rmtree(root, ignore_errors=True)
    return {'outcome': oc, 'viol': out_v, 'n': n, 'transitions': n}


# ---------------------------------------------------------------------------
# 2. emit scripts

TEXTS = ['x', '{', '}', '{}', '{0}', '{x}', '{{', '}}', '%s', 'é✓', 'a {b} c', ' ', '\t', '\u00a0\u3000', '  x  ']
SENTENCE = 'The quick {brown} fox %s jumps over {0} the lazy dög and keeps running until the line is long enough to wrap.'


def alphabet():
    ops = []
    for t in TEXTS:
        ops.append(('emit', t))
    for t in TEXTS[:6] + ['two\nlines {x}']:
        ops.append(('raw', t))
    ops.append(('emit', ''))
    for prefix, width in (('', 80), ('# ', 80), ('', 30), ('// {p} ', 40)):
        ops.append(('wrap', SENTENCE, prefix, width))
    ops.append(('indent+', None))
    ops.append(('indent+', 2))
    ops.append(('block+', 'class {A}', ';', ('{', '}'), None, False))
    ops.append(('block+', 'def f()', '', (None, None), 3, False))
    ops.append(('block+', 'if {x}', ' // end', ('[', ']'), None, True))
    ops.append(('block+', '', '', ('{', '}'), None, False))
    ops.append(('close',))
    ops.append(('list', ('a', '{b}', 'c%s'), 'call{', '};', ('(', ')'), True, ',', False))
    ops.append(('list', ('a', '{b}', 'c'), 'arr = ', '', ('[', ']'), False, ',', False))
    ops.append(('list', ('a', 'b'), 'arr = ', ';', ('[', ']'), False, ';', True))
    ops.append(('list', ('only',), 'f', ':', ('(', ')'), True, ',', False))
    ops.append(('list', (), 'f', ':', ('(', ')'), True, ',', False))
    ops.append(('list', ('a', 'b', 'c'), '', '', ('', ''), True, ',', False))
    ops.append(('list', ('a', 'b'), '', '', ('', ''), False, ',', False))
    ops.append(('named', 'imports', 'import {typing}\n'))
    ops.append(('named', 'x', 'é%s'))
    ops.append(('positional', 'P{0}S'))
    return ops


def scripts(maxlen):
    ops = alphabet()
    def rec(prefix, depth_open):
        if prefix:
            yield prefix
        if len(prefix) == maxlen:
            return
        for op in ops:
            if op[0] == 'close' and depth_open == 0:
                continue
            d = depth_open + (1 if op[0] in ('indent+', 'block+') else -1 if op[0] == 'close' else 0)
            yield from rec(prefix + (op,), d)
    return rec((), 0)


class Pretty:
    """Independent pretty-printer (docs/backend_ref.rst: emit methods, indent, block, generate_multiline_list)."""

    def __init__(self, tabs):
        self.tabs = tabs
        self.ind = 0
        self.out = []
        self.stack = []

    def indent_str(self):
        return ('\t' if self.tabs else ' ') * self.ind

    def emit(self, s=''):
        self.out.append((self.indent_str() + s + '\n') if s else '\n')

    def step(self):
        return 1 if self.tabs else 4

    def run(self, script):
        for op in script:
            k = op[0]
            if k == 'emit':
                self.emit(op[1])
            elif k == 'raw':
                self.out.append(op[1] + '\n')
            elif k == 'wrap':
                _, s, prefix, width = op
                p = self.indent_str() + prefix
                self.out.append(('wrap', s, p, width))
            elif k == 'indent+':
                d = self.step() if op[1] is None else op[1]
                self.ind += d
                self.stack.append(('indent', d))
            elif k == 'block+':
                _, before, after, delim, dent, allman = op
                if before and not allman:
                    self.emit(before + ' ' + delim[0] if delim[0] is not None else before)
                else:
                    if before:
                        self.emit(before)
                    if delim[0] is not None:
                        self.emit(delim[0])
                d = self.step() if dent is None else dent
                self.ind += d
                self.stack.append(('block', d, after, delim))
            elif k == 'close':
                self.close()
            elif k == 'list':
                self.mlist(*op[1:])
            elif k == 'named':
                self.out.append(op[2])
            elif k == 'positional':
                self.out.append(op[1])
        while self.stack:
            self.close()
        return self.out

    def close(self):
        top = self.stack.pop()
        self.ind -= top[1]
        if top[0] == 'block':
            _, d, after, delim = top
            self.emit((delim[1] + after) if delim[1] is not None else after)

    def mlist(self, items, before, after, delim, compact, sep, skip_last_sep):
        if len(items) == 0:
            self.emit(before + delim[0] + delim[1] + after)
            return
        if len(items) == 1:
            self.emit(before + delim[0] + items[0] + delim[1] + after)
            return
        if compact:
            self.emit(before + delim[0] + items[0] + sep)
            pad = len(before) + len(delim[0])
            self.ind += pad
            for i, it in enumerate(items[1:]):
                last = i == len(items) - 2
                self.emit(it + (delim[1] + after if last else sep))
            self.ind -= pad
        else:
            if before or delim[0]:
                self.emit(before + delim[0])
            self.ind += self.step()
            for i, it in enumerate(items):
                last = i == len(items) - 1
                self.emit(it if (last and skip_last_sep) else it + sep)
            self.ind -= self.step()
            if delim[1] or after:
                self.emit(delim[1] + after)


class TabBackend(CodeBackend):
    tabs_for_indents = True

    def generate(self, api):
        pass


class SpaceBackend(CodeBackend):
    tabs_for_indents = False

    def generate(self, api):
        pass


def run_script(cls, script, outdir):
    import contextlib
    b = cls(outdir, [])
    with b.output_to_relative_path('f.out'):
        with contextlib.ExitStack() as stack:
            ctxs = []
            for op in script:
                k = op[0]
                if k == 'emit':
                    b.emit(op[1])
                elif k == 'raw':
                    b.emit_raw(op[1] + '\n')
                elif k == 'wrap':
                    b.emit_wrapped_text(op[1], prefix=op[2], width=op[3])
                elif k == 'indent+':
                    c = b.indent(op[1]) if op[1] is not None else b.indent()
                    c.__enter__()
                    ctxs.append(c)
                elif k == 'block+':
                    c = b.block(op[1], op[2], op[3], op[4], op[5])
                    c.__enter__()
                    ctxs.append(c)
                elif k == 'close':
                    ctxs.pop().__exit__(None, None, None)
                elif k == 'list':
                    b.generate_multiline_list(list(op[1]), op[2], op[3], op[4], op[5], op[6], op[7])
                elif k == 'named':
                    b.emit_placeholder(op[1])
                    b.add_named_placeholder(op[1], op[2])
                elif k == 'positional':
                    b.emit_placeholder()
                    b.add_positional_placeholder(op[1])
            while ctxs:
                ctxs.pop().__exit__(None, None, None)
    with open(os.path.join(outdir, 'f.out'), 'rb') as f:
        return f.read()


def compare_output(expected_parts, data):
    """expected_parts: strings and ('wrap', text, prefix, width) items. Returns None or a description."""
    try:
        text = data.decode('utf-8')
    except UnicodeDecodeError as e:
        return 'output is not UTF-8: %r' % (e,)
    pos = 0
    for part in expected_parts:
        if isinstance(part, str):
            if not text.startswith(part, pos):
                return 'at offset %d expected %r, got %r' % (pos, part[:60], text[pos:pos + 60])
            pos += len(part)
        else:
            _, s, prefix, width = part
            # every word in order, each line starting with the prefix; the block ends with a newline
            words = s.split()
            lines = []
            while words:
                nl = text.find('\n', pos)
                if nl < 0:
                    return 'wrapped text is not newline-terminated'
                line = text[pos:nl]
                pos = nl + 1
                if not line.startswith(prefix):
                    return 'wrapped line %r does not start with the prefix %r' % (line[:60], prefix)
                got = line[len(prefix):].split()
                if got != words[:len(got)] or not got:
                    return 'wrapped text lost or reordered words: line %r, remaining %r' % (line[:80], words[:5])
                words = words[len(got):]
    if pos != len(text):
        return 'unexpected trailing output %r' % (text[pos:pos + 60],)
    return None


def emit_task(item):
    _, chunk = item
    oc = collections.Counter()
    out_v = []
    n = 0
    d = explore.fresh_dir('c18e')
    try:
        for script in chunk:
            for cls, tabs in ((SpaceBackend, False), (TabBackend, True)):
                if tabs and any(op[0] == 'list' and op[5] is False for op in script):
                    pass            # documented TODO: tabs + non-compact lists; still explored, judged like the rest
                n += 1
                exp = Pretty(tabs).run(script)
                try:
                    data = run_script(cls, script, d)
                except Exception as e:  # noqa
                    oc['raised'] += 1
                    out_v.append(viol('emit-raised:%s:%s' % (type(e).__name__, '+'.join(sorted({op[0] for op in script}))),
                                      'emit script %r raised %r' % (script, e), {'script': [list(map(repr, op)) for op in script], 'tabs': tabs}))
                    continue
                diff = compare_output(exp, data)
                if diff:
                    oc['differs'] += 1
                    out_v.append(viol('emit-output:%s' % '+'.join(sorted({op[0] for op in script})), 'emit script %r (%s): %s' % (script, 'tabs' if tabs else 'spaces', diff),
                                      {'script': [list(map(repr, op)) for op in script], 'tabs': tabs}, repr(data[:300])))
                else:
                    oc['verbatim'] += 1
                if len(script) <= 2 and not diff:
                    # history: the output folder already holds this file - identical, or differing in line ends / one byte only
                    for variant, conv in (('same', lambda x: x), ('crlf', lambda x: x.replace(b'\n', b'\r\n')), ('cr', lambda x: x.replace(b'\n', b'\r')),
                                          ('no-final-newline', lambda x: x.rstrip(b'\n')), ('longer', lambda x: x + b'tail\n')):
                        with open(os.path.join(d, 'f.out'), 'wb') as f:
                            f.write(conv(data))
                        n += 1
                        try:
                            again = run_script(cls, script, d)
                        except Exception as e:  # noqa
                            out_v.append(viol('emit-over-existing-file:raised:%s' % variant, 'emit script %r over an existing file (%s) raised %r' % (script, variant, e),
                                              {'script': [list(map(repr, op)) for op in script], 'tabs': tabs, 'existing': variant}))
                            continue
                        if again != data:
                            oc['history-differs'] += 1
                            out_v.append(viol('emit-over-existing-file:%s' % variant, 'emit script %r writes %r over an existing file (%s variant of its own output) but %r into an empty folder' % (
                                script, again[:120], variant, data[:120]), {'script': [list(map(repr, op)) for op in script], 'tabs': tabs, 'existing': variant}))
                        else:
                            oc['history-same'] += 1
    finally:
        shutil.rmtree(d, ignore_errors=True)
    return {'outcome': oc, 'viol': out_v, 'n': n, 'transitions': n}


# ---------------------------------------------------------------------------
# 3. manifest fidelity

OPTION_SETS = [
    {},
    {'js_client': ['r.js', '-c', 'Cls', '--wrap-response-in', 'W', '-a', 'style'], 'tsd_types': ['tpl.d.ts', '--export-namespaces'],
     'tsd_client': ['ctpl.d.ts', 'c.d.ts', '--wrap-response-in', 'W'], 'swift_types': ['--objc'], 'python_client': ['-m', 'cl', '-c', 'K', '-t', 'pkg', '-w', 'user'],
     'swift_client': impl.BACKEND_RUNS['swift_client'] + ['--objc'], 'obj_c_types': ['-e', 'Excluded']},
]


def manifest_task(item):
    _, specs, label = item
    out = impl.compile_specs(specs)
    if out.kind != 'ok':
        return {'outcome': 'not-accepted', 'viol': []}
    oc = collections.Counter()
    out_v = []
    n = 0
    for oi, opts in enumerate(OPTION_SETS):
        for name in impl.BACKEND_RUNS:
            if oi > 0 and name not in opts:
                continue
            n += 1
            real = impl.backend_outputs(impl.compile_specs(specs).api, [name], args_override=opts)[name]
            # manifest run (fresh compile: backends may mutate the Api)
            out2 = impl.compile_specs(specs)
            d = explore.fresh_dir('c18m')
            try:
                for fn, content in impl.TEMPLATES.items():
                    with open(os.path.join(d, fn), 'w') as f:
                        f.write(content)
                before = set(os.listdir(d))
                b = impl.run_backend(out2.api, name, opts.get(name, impl.BACKEND_RUNS[name]), d, manifest=True)
                created = sorted(set(impl.read_tree(d)) - before)
            finally:
                shutil.rmtree(d, ignore_errors=True)
            inputs = {'specs': specs, 'backend': name, 'args': opts.get(name, impl.BACKEND_RUNS[name]), 'label': label}
            if 'crash' in real or not b.ok:
                if ('crash' in real) != (not b.ok):
                    out_v.append(viol('manifest-outcome:%s' % name, 'real run %s, manifest run %s' % (real.get('crash', 'ok'), b.identity or 'ok'), inputs))
                oc['backend-crash'] += 1
                continue
            if created:
                oc['manifest-created'] += 1
                out_v.append(viol('manifest-run-created-files:%s' % name, 'the manifest run of %s created %r' % (name, created), inputs))
                continue
            real_files = sorted(k.replace(os.sep, '/') for k in real['files'])
            if sorted(b.manifest) != real_files:
                oc['manifest-differs'] += 1
                out_v.append(viol('manifest-set:%s' % name, 'manifest of %s lists %r, a real run creates %r' % (name, sorted(b.manifest)[:12], real_files[:12]), inputs))
            else:
                oc['manifest-same'] += 1
            # a second manifest run into the SAME folder in the same process reports the same files (nothing is remembered between runs)
            n += 1
            d3 = explore.fresh_dir('c18t')
            try:
                for fn, content in impl.TEMPLATES.items():
                    with open(os.path.join(d3, fn), 'w') as f:
                        f.write(content)
                first = impl.run_backend(impl.compile_specs(specs).api, name, opts.get(name, impl.BACKEND_RUNS[name]), d3, manifest=True)
                second = impl.run_backend(impl.compile_specs(specs).api, name, opts.get(name, impl.BACKEND_RUNS[name]), d3, manifest=True)
            finally:
                shutil.rmtree(d3, ignore_errors=True)
            if first.ok and second.ok and sorted(second.manifest) != sorted(first.manifest):
                oc['manifest-differs'] += 1
                out_v.append(viol('manifest-set:%s:second-run' % name, 'a second manifest run of %s into the same folder lists %r, the first listed %r' % (
                    name, sorted(second.manifest)[:12], sorted(first.manifest)[:12]), dict(inputs, runs='two manifest runs, same folder, same process')))
            elif first.ok and second.ok:
                oc['manifest-same:second-run'] += 1
            # the same manifest run into an output folder that does not exist yet (backends that read no template from it)
            args_ = opts.get(name, impl.BACKEND_RUNS[name])
            if not any(a in impl.TEMPLATES for a in args_):
                n += 1
                d2 = explore.fresh_dir('c18n')
                try:
                    target = os.path.join(d2, 'not', 'yet', 'there')
                    b2 = impl.run_backend(impl.compile_specs(specs).api, name, args_, target, manifest=True)
                    made = sorted(impl.read_tree(d2))
                finally:
                    shutil.rmtree(d2, ignore_errors=True)
                inputs2 = dict(inputs, output_folder='does not exist before the run')
                if not b2.ok:
                    out_v.append(viol('manifest-outcome:%s:new-folder' % name, 'manifest run of %s into a new folder failed: %s' % (name, b2.identity), inputs2))
                elif made:
                    out_v.append(viol('manifest-run-created-files:%s:new-folder' % name, 'the manifest run of %s into a new folder created %r' % (name, made), inputs2))
                elif sorted(b2.manifest) != real_files:
                    oc['manifest-differs'] += 1
                    out_v.append(viol('manifest-set:%s:new-folder' % name, 'manifest of %s for an output folder that does not exist yet lists %r, a real run creates %r' % (
                        name, sorted(b2.manifest)[:12], real_files[:12]), inputs2))
                else:
                    oc['manifest-same:new-folder'] += 1
    # through the command line for one backend per model
    n += 1
    d = explore.fresh_dir('c18c')
    try:
        paths = []
        for i, (p, t) in enumerate(specs):
            fp = os.path.join(d, os.path.basename(p))
            with open(fp, 'w', encoding='utf-8') as f:
                f.write(t)
            paths.append(fp)
        code, api, so, se, esc = impl.run_cli(['python_types', os.path.join(d, 'o1')] + paths + ['--output-manifest', '--', '-p', 'pkg'])
        code2, api2, so2, se2, esc2 = impl.run_cli(['python_types', os.path.join(d, 'o2')] + paths + ['--', '-p', 'pkg'])
        if code == 0 and code2 == 0:
            listed = json.loads(so)
            real = sorted(impl.read_tree(os.path.join(d, 'o2')))
            made = sorted(impl.read_tree(os.path.join(d, 'o1'))) if os.path.isdir(os.path.join(d, 'o1')) else []
            if listed != real or made:
                out_v.append(viol('cli-manifest', '--output-manifest printed %r (created %r); a real run creates %r' % (listed[:10], made[:5], real[:10]), {'specs': specs}))
            else:
                oc['cli-manifest-same'] += 1
        else:
            oc['cli-failed'] += 1
    finally:
        shutil.rmtree(d, ignore_errors=True)
    # the command line's own manifest interface: {backend taking an output name} x {name menu incl. dot files, dot folders and nested
    # folders} x {--output-manifest, real run, real run checked against the right manifest / one entry too many / one too few}
    for be, mkargs in CLI_NAME_BACKENDS:
        for oname in CLI_OUT_NAMES:
            n += 1
            d = explore.fresh_dir('c18x')
            try:
                paths = []
                for i, (p, t) in enumerate(specs):
                    fp = os.path.join(d, os.path.basename(p))
                    with open(fp, 'w', encoding='utf-8') as f:
                        f.write(t)
                    paths.append(fp)
                bargs = mkargs(oname)
                inputs = {'specs': specs, 'backend': be, 'backend_args': bargs}
                code, _, so, se, esc = impl.run_cli([be, os.path.join(d, 'm')] + paths + ['--output-manifest', '--'] + bargs)
                code2, _, so2, se2, esc2 = impl.run_cli([be, os.path.join(d, 'r')] + paths + ['--'] + bargs)
                if esc or esc2 or code != 0 or code2 != 0:
                    if (code != 0 or bool(esc)) != (code2 != 0 or bool(esc2)):
                        out_v.append(viol('cli-manifest-outcome:%s' % be, 'manifest run %r / real run %r with %r' % (esc or code, esc2 or code2, bargs), inputs))
                    oc['cli-name-failed'] += 1
                    continue
                listed = json.loads(so)
                real = sorted(impl.read_tree(os.path.join(d, 'r')))
                if listed != real:
                    out_v.append(viol('cli-manifest:%s:%s' % (be, name_class(oname)), '--output-manifest printed %r; a real run with the same arguments creates %r' % (listed[:10], real[:10]), inputs))
                    continue
                for mode, expected, must_pass in [('same', real, True), ('one-more', real + ['zz/extra.txt'], False), ('one-less', real[:-1], False)]:
                    if mode == 'one-less' and not real:
                        continue
                    n += 1
                    mf = os.path.join(d, 'expected-%s.json' % mode)
                    with open(mf, 'w') as f:
                        json.dump(expected, f)
                    code3, _, so3, se3, esc3 = impl.run_cli([be, os.path.join(d, 'e-' + mode)] + paths + ['--expected-output-manifest', mf, '--'] + bargs)
                    passed = code3 == 0 and not esc3
                    if esc3:
                        out_v.append(viol('cli-expected-manifest-escape:%s' % esc3[0], 'checking a real run against a manifest raised %s' % (esc3[2][-300:],), dict(inputs, expected=expected)))
                    elif passed != must_pass:
                        out_v.append(viol('cli-expected-manifest:%s:%s:%s' % (be, mode, name_class(oname)),
                                          'a real run of %s %r checked against %s was %s: %s' % (
                                              be, bargs, {'same': 'exactly the files it creates', 'one-more': 'a manifest with one entry too many', 'one-less': 'a manifest with one entry too few'}[mode],
                                              'accepted' if passed else 'refused', se3[-200:]), dict(inputs, expected=expected)))
                    else:
                        oc['cli-expected-%s-ok' % mode] += 1
            finally:
                shutil.rmtree(d, ignore_errors=True)
    return {'outcome': oc, 'viol': out_v, 'n': n, 'transitions': n}


CLI_OUT_NAMES = ['t.js', '.t.js', 'sub/t.js', '.gen/t.js', 'sub/.t.js', '.gen/.t.js', 'a.b/c.d.js', '..t.js', '_t.js', 't']
CLI_NAME_BACKENDS = [('js_types', lambda nm: [nm]), ('js_client', lambda nm: [nm]),
                     ('python_client', lambda nm: ['-m', nm.replace('/', '_').replace('.js', ''), '-c', 'C', '-t', 'pkg'])]


def name_class(nm):
    return ('dot-folder/' if nm.split('/')[0].startswith('.') and '/' in nm else 'folder/' if '/' in nm else '') + ('dot-file' if os.path.basename(nm).startswith('.') else 'plain-file')


def task(item):
    if item[0] == 'path':
        return path_task(item)
    if item[0] == 'emit':
        return emit_task(item)
    return manifest_task(item)


def run(tier, seed):
    r = explore.Run(PROP, tier, seed)
    maxlen = 3 if tier == 'quick' else 4
    items = [('path', k, p) for k, p in path_candidates(maxlen)]
    npaths = len(items)
    slen = 3 if tier == 'quick' else 4
    all_scripts = list(scripts(slen)) if tier == 'quick' else [sc for sc in scripts(slen) if len(sc) < 4 or sum(1 for op in sc if op[0] in ('emit', 'raw')) <= 1]
    if tier != 'quick':
        r.notes.append('length-4 scripts: those with at most one plain emit/emit_raw (the combinations of contexts, lists, wrapped text and placeholders)')
    # generate_multiline_list: the whole argument product, at top level, inside an indent and inside a block
    list_scripts = []
    for its in ((), ('only',), ('a', '{b}'), ('a', 'b', 'c%s')):
        for before in ('', 'call{'):
            for after in ('', ';', ' -- x'):
                for delim in (('(', ')'), ('', ''), ('[', ''), ('', ']')):
                    for compact in (True, False):
                        for sep in (',', ''):
                            for skip in (False, True):
                                op = ('list', its, before, after, delim, compact, sep, skip)
                                list_scripts += [(op,), (('indent+', None), op, ('emit', 'x')), (('block+', 'class {A}', ';', ('{', '}'), None, False), op)]
    r.bounds['multiline_list_scripts'] = len(list_scripts)
    all_scripts = all_scripts + list_scripts
    chunk = 400
    for i in range(0, len(all_scripts), chunk):
        items.append(('emit', all_scripts[i:i + chunk]))
    from mc import textspace
    from checks import c12
    nman = 0
    for name, specs, wl in c12.RICH:
        items.append(('manifest', specs, name))
        nman += 1
    items.append(('manifest', textspace.base_sets()[0][1] , 'kitchen'))
    budget = 40 if tier == 'quick' else 150
    seen = set()
    for fams in profiles.combos(2, ['F1-imports', 'F3-inherit', 'F5-unions', 'F6-aliases', 'F12-routes', 'F4-subtypes']):
        p = profiles.make_profile(fams)
        br = profiles.explore_budget(p, budget)
        r.add_bfs(p.name, br)
        for s, tr, d in br.states:
            if s in seen or d < 2:
                continue
            seen.add(s)
            items.append(('manifest', render.render(s) + [('cfg.stone', c12.CFG)], '/'.join(tr)))
            nman += 1
    r.bounds.update({'path_segments': SEGMENTS, 'path_max_segments': maxlen, 'paths': npaths, 'writers': ['output_to_relative_path', 'copy_to_path (file)', 'copy_to_path (dir)', 'swift writer'],
                     'emit_alphabet': len(alphabet()), 'emit_script_max_len': slen, 'emit_scripts': len(all_scripts), 'manifest_models': nman + 1,
                     'backends': list(impl.BACKEND_RUNS), 'option_sets': len(OPTION_SETS)})
    r.sample({'paths': [p for k, p in list(path_candidates(2))[:12]]})
    r.sample({'emit_script': [list(map(repr, op)) for op in all_scripts[len(all_scripts) // 2]]})
    r.run_tasks(task, items, budget=600, chunksize=2)
    r.assumptions = ['line breaks of wrapped text are textwrap\'s business: the word sequence and the per-line prefix are compared',
                     'a placeholder that is emitted but never registered is not generated (undocumented)']
    r.finish('all path segment sequences x 4 writers x real/manifest mode with full sandbox snapshots; all emit scripts up to the length bound '
             'x both indentation settings against an independent pretty-printer; manifest vs real run for every backend, model and option set')


def replay(rep):
    ident = rep['identity']
    if ident.startswith(('emit-', )):
        print('re-run ./check C18 (emit script: %r)' % (rep['inputs'].get('script'),))
        return 1
    if 'path' in rep['inputs']:
        out = path_task(('path', rep['inputs']['kind'], rep['inputs']['path'] if rep['inputs']['kind'] == 'rel' else rep['inputs']['path']))
        if rep['inputs']['kind'] == 'rel' and out['viol']:
            print('VIOLATION property=%s replay=replayed' % PROP)
            return 1
        return 1 if out['viol'] else 0
    out = manifest_task(('manifest', [tuple(x) for x in rep['inputs']['specs']], 'replay'))
    if out['viol']:
        print('VIOLATION property=%s replay=replayed' % PROP)
        return 1
    return 0
