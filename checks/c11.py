"""C11 - meaning does not depend on file order, definition order, layout or delivery.

For every model of the layout exploration the *complete* set of layout variants (mc/layouts.py) is generated; the
signature of each variant's Api must equal the reference layout's (namespace docs recomputed in file order), the
bytes of every built-in backend's output must be equal for all structural variants, and stdin delivery through
stone.cli.main must give the same description.
"""
import collections
import json
import os
import shutil

from mc import explore, render, impl, layouts, profiles, refsem
from mc.explore import viol

PROP = 'C11'
BACKENDS = ['python_types', 'python_type_stubs', 'python_client', 'js_client', 'js_types', 'tsd_types', 'tsd_client',
            'swift_types', 'obj_c_types']
FAMS = ['F1-imports', 'F2-files', 'F3-inherit', 'F4-subtypes', 'F5-unions', 'F6-aliases', 'F12-routes', 'F13-annotations',
        'F14-patches', 'F10-examples', 'F11-docs', 'F9-defaults']


def gather(tier, run):
    budget = int(os.environ.get('VERIF_STATE_BUDGET', '0')) or (1500 if tier == 'quick' else 5000)
    text_depth = 3 if tier == 'quick' else 5
    bytes_depth = 3 if tier == 'quick' else 99
    seen, out = set(), []
    for fams in profiles.combos(2, FAMS):
        p = profiles.make_profile(fams)
        r = profiles.explore_budget(p, budget)
        run.add_bfs(p.name, r)
        for s, tr, d in r.states:
            ndefs = sum(len(f.defs) for ns in s.namespaces for f in ns.files)
            if s in seen or ndefs < 2:
                continue
            seen.add(s)
            out.append((s, tr, p.name, d <= text_depth, d <= bytes_depth))
    # hand-built families whose meaning depends on cross-namespace resolution (both import directions are in the families;
    # the file permutations of this check put importer and imported in either order)
    extra = 0
    for fam in (profiles.cross_namespace_inheritance_models, profiles.three_namespace_chain_models, profiles.annotation_models, profiles.import_reason_models):
        for m, tr in fam():
            if m not in seen:
                seen.add(m)
                out.append((m, tr, tr[0], True, True))
                extra += 1
    run.bounds['hand_built_cross_namespace_models'] = extra
    run.bounds['per_profile_state_budget'] = budget
    run.bounds['text_level_variants_up_to_depth'] = text_depth
    run.bounds['backend_bytes_compared_up_to_depth'] = bytes_depth
    run.bounds['profiles'] = len(profiles.combos(2, FAMS))
    return out


def strip_docs(sig):
    for ns in sig['ns'].values():
        ns.pop('doc', None)
    return sig


def be_digest(outs):
    d = {}
    for name, o in outs.items():
        if 'crash' in o:
            d[name] = 'crash ' + o['crash']
        else:
            d[name] = {k: v for k, v in o['files'].items()}
    return d


def first_byte_diff(a, b):
    for name in a:
        if a[name] == b.get(name):
            continue
        if isinstance(a[name], str) or isinstance(b.get(name), str):
            return name, '(outcome)', '%r vs %r' % (a[name] if isinstance(a[name], str) else 'files', b.get(name) if isinstance(b.get(name), str) else 'files')
        fa, fb = a[name], b[name]
        if sorted(fa) != sorted(fb):
            return name, '(file set)', '%r vs %r' % (sorted(fa), sorted(fb))
        for f in sorted(fa):
            if fa[f] != fb[f]:
                la, lb = fa[f].decode('utf-8', 'replace').split('\n'), fb[f].decode('utf-8', 'replace').split('\n')
                for x, y in zip(la, lb):
                    if x != y:
                        return name, f, '%r vs %r' % (x[:160], y[:160])
                return name, f, 'length differs'
    return None


def stdin_variant(specs, text=None):
    d = explore.fresh_dir('cli')
    try:
        be = os.path.join(d, 'noop.stoneg.py')
        with open(be, 'w') as f:
            f.write('from stone.backend import Backend\nclass NoopBackend(Backend):\n    preserve_aliases = True\n    def generate(self, api):\n        pass\n')
        if text is None:
            text = ''.join(t for _, t in specs)
        return impl.run_cli([be, os.path.join(d, 'out')], stdin_text=text)
    finally:
        shutil.rmtree(d, ignore_errors=True)


def stdin_texts(specs):
    """Layouts of the concatenated text that standard input may carry: the files as they are, and - the part that decides where one
    spec ends and the next begins - every namespace line with a trailing comment / trailing blanks, a comment or blank line before
    it, and a missing final newline at the end of the whole text."""
    yield 'plain', ''.join(t for _, t in specs)
    for lab, fn in (('ns-trailing-comment', lambda l: l + '  # c'), ('ns-trailing-blanks', lambda l: l + '   '), ('ns-trailing-tab', lambda l: l + '\t'),
                    ('comment-before-ns', lambda l: '# namespace zz\n' + l), ('blank-before-ns', lambda l: '\n' + l), ('ns-two-blanks', lambda l: l.replace('namespace ', 'namespace  ', 1))):
        parts = []
        for _, t in specs:
            lines = t.split('\n')
            parts.append('\n'.join(fn(l) if l.startswith('namespace ') else l for l in lines))
        yield lab, ''.join(parts)
    whole = ''.join(t for _, t in specs)
    if whole.endswith('\n'):
        yield 'no-final-newline', whole[:-1]


def fixed_order_items():
    """Spec sets whose verdict must be the same under every file order although they are not all valid: import rings (always refused),
    a diamond with a two-cycle at the bottom (refused), a diamond (accepted)."""
    from mc import paramspace
    groups = {}
    for label, ok, rule, specs in paramspace.fixed_items():
        if label.startswith(('import-cycle|', 'import-diamond|')):
            key = label.split(', file order')[0].split('|file order')[0]
            groups.setdefault(key, (ok, sorted(specs)))
    return [('fixed-order', k, ok, specs) for k, (ok, specs) in sorted(groups.items())]


def fixed_order_task(item):
    import itertools
    _, label, ok, specs = item
    verdicts = {}
    n = 0
    for perm in itertools.permutations(specs):
        n += 1
        out = impl.compile_specs(list(perm))
        verdicts.setdefault(out.kind if out.kind != 'escape' else out.escape_identity(), []).append([p for p, _ in perm])
    v = []
    if len(verdicts) > 1:
        v.append(viol('layout-changes-acceptance:file-order:' + label.split('|')[0], 'the verdict for %s depends on the order of the files: %s' % (
            label, {k: x[0] for k, x in verdicts.items()}), {'specs': [list(x) for x in specs], 'variant_specs': [list(x) for x in specs], 'variant': 'file-order', 'label': label}))
    return {'outcome': 'fixed-order:%s' % '+'.join(sorted(verdicts)), 'viol': v, 'n': n, 'transitions': n}


def task(item):
    if item[0] == 'fixed-order':
        return fixed_order_task(item)
    model, trace, pname, text_level, with_bytes = item
    ref_specs = render.render(model)
    ref = impl.compile_specs(ref_specs)
    if ref.kind != 'ok':
        # C01's business, unless another layout of the same model is accepted: then acceptance depends on layout
        v = []
        for g in (layouts.file_orders(model), layouts.def_orders(model), layouts.splits(model)):
            for kind, label, specs, vm in g:
                out = impl.compile_specs(specs)
                if out.kind == 'ok':
                    v.append(viol('layout-changes-acceptance:' + kind, 'reference layout refused (%s) but variant %s %s is accepted' % (ref.brief(), kind, label),
                                  {'specs': ref_specs, 'variant_specs': specs, 'variant': kind + ' ' + label, 'trace': list(trace)}, 'accepted', ref.brief()))
                    break
        return {'outcome': 'reference-layout-not-accepted', 'viol': v}
    ref_sig = strip_docs(impl.signature(ref.api))
    ref_sig_json = json.dumps(ref_sig, sort_keys=True, default=repr)
    ref_be = be_digest(impl.backend_outputs(ref.api, BACKENDS)) if with_bytes else None
    oc = collections.Counter()
    v = []
    n = 0

    def bad(ident, what, kind, label, specs, obs=None, exp=None):
        v.append(viol(ident, what, {'specs': ref_specs, 'variant_specs': specs, 'variant': kind + ' ' + label, 'trace': list(trace)}, obs, exp))

    gens = [layouts.file_orders(model), layouts.def_orders(model), layouts.splits(model)]
    if text_level:
        gens += [layouts.comment_variants(model), layouts.continuation_variants(model), layouts.example_map_variants(model)]
    for g in gens:
        for kind, label, specs, vm in g:
            n += 1
            out = impl.compile_specs(specs)
            if out.kind != 'ok':
                oc['%s:%s' % (kind, out.kind)] += 1
                bad('layout-refused:%s:%s' % (kind, out.escape_identity() if out.kind == 'escape' else refsem.diff_identity(out.msg[:30])),
                    'variant %s %s not accepted: %s' % (kind, label, out.brief()), kind, label, specs, out.brief(), 'same Api')
                continue
            sig = impl.signature(out.api)
            docs = {k: ns.get('doc') for k, ns in sig['ns'].items()}
            sig = strip_docs(sig)
            if json.dumps(sig, sort_keys=True, default=repr) != ref_sig_json:
                d = refsem.first_diff(ref_sig, sig) or ('?', None, None)
                oc['%s:signature-differs' % kind] += 1
                bad('signature:%s:%s' % (kind, refsem.diff_identity(d[0])), 'variant %s %s changes the description at %s: %r -> %r' % (kind, label, d[0], d[1], d[2]),
                    kind, label, specs, repr(d[2])[:500], repr(d[1])[:500])
                continue
            # the documented order dependence: namespace docs concatenate in file order
            if vm is not None:
                exp_docs = layouts.expected_ns_docs(vm[0], vm[1])
            else:
                exp_docs = layouts.expected_ns_docs(model)
            for nsn, doc in docs.items():
                if doc != exp_docs.get(nsn):
                    bad('nsdoc:%s' % kind, 'namespace doc of %s is %r, expected %r (file order)' % (nsn, doc, exp_docs.get(nsn)), kind, label, specs)
            oc['%s:same' % kind] += 1
            if vm is not None and with_bytes:
                be = be_digest(impl.backend_outputs(out.api, BACKENDS))
                d = first_byte_diff(ref_be, be)
                if d:
                    oc['%s:bytes-differ' % kind] += 1
                    bad('bytes:%s:%s' % (kind, d[0]), 'variant %s %s changes the output of %s (%s): %s' % (kind, label, d[0], d[1], d[2]), kind, label, specs)
    # delivery: stdin through the CLI (and files through the CLI)
    for slab, text in (stdin_texts(ref_specs) if text_level else list(stdin_texts(ref_specs))[:1]):
        n += 1
        code, api, so, se, esc = stdin_variant(ref_specs, text)
        if api is None:
            oc['stdin:refused'] += 1
            bad('stdin:refused' + ('' if slab == 'plain' else ':' + slab), 'stdin delivery (%s) refused: exit %r %s %s' % (slab, code, se[:200], esc[:2] if esc else ''), 'stdin', slab, [('stdin', text)], se[:400])
        else:
            sig = strip_docs(impl.signature(api))
            if json.dumps(sig, sort_keys=True, default=repr) != ref_sig_json:
                d = refsem.first_diff(ref_sig, sig) or ('?', None, None)
                oc['stdin:signature-differs'] += 1
                bad('stdin:signature:' + refsem.diff_identity(d[0]), 'stdin delivery (%s) changes the description at %s' % (slab, d[0]), 'stdin', slab, [('stdin', text)])
            else:
                oc['stdin:same'] += 1
    return {'outcome': oc, 'viol': v, 'n': n, 'transitions': n}


def run(tier, seed):
    r = explore.Run(PROP, tier, seed)
    models = gather(tier, r)
    for s, tr, pn, tl, wb in models[:2] + models[-2:]:
        r.sample({'profile': pn, 'trace': list(tr), 'reference_layout': render.render(s)})
    r.bounds['models'] = len(models)
    fixed = fixed_order_items()
    r.bounds['fixed_verdict_spec_sets_under_every_file_order'] = len(fixed)
    models = list(models) + fixed
    r.bounds['backends_compared'] = BACKENDS
    r.run_tasks(task, models, budget=300, chunksize=4)
    r.assumptions = ['positions inside multi-line doc strings are excluded from comment/blank insertion (a # there is text)',
                     'namespace docs are expected to concatenate in file order (documented)']
    r.finish('for every model (BFS of layout-sensitive family pairs with two files per namespace): all file permutations, all '
             'definition permutations per file, all set partitions of a namespace into <=3 files, one comment/blank/trailer '
             'insertion at every line boundary, every continuation break, stdin delivery; signature equality for all, backend '
             'byte equality for the structural variants')


def replay(rep):
    ref_specs = [tuple(x) for x in rep['inputs']['specs']]
    var = [tuple(x) for x in rep['inputs']['variant_specs']]
    a, b = impl.compile_specs(ref_specs), impl.compile_specs(var)
    print('reference:', a.brief(), ' variant:', b.brief())
    if a.kind != 'ok':
        if b.kind == 'ok':
            print('VIOLATION property=%s replay=replayed' % PROP)
            return 1
        return 0
    if rep['inputs']['variant'].startswith('stdin'):
        code, api, so, se, esc = stdin_variant(ref_specs, var[0][1] if var else None)
        if api is None:
            print('VIOLATION property=%s replay=replayed' % PROP)
            return 1
        b_sig = strip_docs(impl.signature(api))
    else:
        if (b.kind == 'ok') != (a.kind == 'ok'):
            print('VIOLATION property=%s replay=replayed' % PROP)
            return 1
        b_sig = strip_docs(impl.signature(b.api))
    same = json.dumps(strip_docs(impl.signature(a.api)), sort_keys=True, default=repr) == json.dumps(b_sig, sort_keys=True, default=repr)
    same_bytes = True
    if b.kind == 'ok' and not rep['inputs']['variant'].startswith(('comment', 'trailer', 'continuation', 'stdin')):
        same_bytes = first_byte_diff(be_digest(impl.backend_outputs(a.api, BACKENDS)), be_digest(impl.backend_outputs(b.api, BACKENDS))) is None
    print('signature equal:', same, ' backend bytes equal:', same_bytes)
    if not (same and same_bytes):
        print('VIOLATION property=%s replay=replayed' % PROP)
        return 1
    return 0
