"""C16 - JavaScript and TypeScript output is well formed and covers the whole API.

Codegen universe (C01 family-pair exploration + cross-namespace alias product + rich specs) x backend option sets.
js_client: `node --check`, then a Node harness imports the module and calls every function with a recording
this.request; names and recorded calls are compared with the model.  js_types / tsd_types / tsd_client: scanners written
for the purpose (JSDoc typedef reader; comment- and string-aware TypeScript declaration reader) extract declarations,
members, optionality and referenced type names: every struct / union (tsd_types: every alias) declared exactly once,
every field and tag present, optional markers as specified, one client method per route version, every referenced name
resolves.  Type texts are judged where the mapping is unambiguous (primitives, lists of them, plain user types).
"""
import collections
import json
import os
import re
import shutil
import subprocess

from mc import explore, render, impl, refsem
from mc import model as mm
from mc.model import P, L, M, N, R, NODEF, Struct, Union, Alias, Route
from mc.explore import viol
from checks import c01, c12

PROP = 'C16'
OPT_DEPTH = [3]

JS_PRIM = {'String': 'string', 'Bytes': 'string', 'Boolean': 'boolean', 'Timestamp': 'Timestamp', 'Int32': 'number', 'Int64': 'number',
           'UInt32': 'number', 'UInt64': 'number', 'Float32': 'number', 'Float64': 'number'}
TS_BUILTINS = {'string', 'number', 'boolean', 'Array', 'Object', 'Timestamp', 'void', 'Promise', 'Error', 'UserMessage', 'null', 'any', 'undefined', 'key', 'T', 'Date'}
JS_BUILTINS = {'Object', 'Array', 'string', 'number', 'boolean', 'Promise', 'Error', 'void', 'Timestamp', 'UserMessage', 'T', 'null'}


def pascal(s):
    return ''.join(w[:1].upper() + w[1:].lower() if not (w[:1].isupper() and w[1:].islower()) else w for w in re.findall(r'[A-Z]+(?![a-z])|[A-Z]?[a-z0-9]+', s))


def camel(s):
    parts = re.split(r'[_\-]+', s)
    words = []
    for p in parts:
        words += re.findall(r'[A-Z]+(?![a-z])|[A-Z]?[a-z0-9]+', p) or [p]
    return words[0].lower() + ''.join(w.capitalize() for w in words[1:])


def js_name(ns, name):
    return pascal(ns) + name          # model names are already Pascal case


def js_type(model, ns_name, t):
    """JSDoc type text, or None where the mapping is not unambiguous."""
    if isinstance(t, P):
        return JS_PRIM.get(t.kind)
    if isinstance(t, L):
        # a nullable item is printed as its inner type (JSDoc has no marker inside Array.<>; a '?' prefix is tolerated by the comparison)
        inner = js_type(model, ns_name, t.item.inner if isinstance(t.item, N) else t.item)
        return 'Array.<%s>' % inner if inner else None
    if isinstance(t, R):
        tns, d = mm.resolve(model, ns_name, t)
        if isinstance(d, Alias):
            ns2, u, nullable, _ = mm.strip(model, ns_name, t)
            return js_type(model, ns2, u) if not isinstance(d.type, N) else js_type(model, tns, d.type.inner)
        if isinstance(d, Struct) and (d.subtypes is not None):
            return None
        return js_name(tns, d.name)
    return None


def ts_type(model, ns_name, t, home):
    if isinstance(t, P):
        return JS_PRIM.get(t.kind)
    if isinstance(t, L):
        inner = ts_type(model, ns_name, t.item, home)
        return 'Array<%s>' % inner if inner and not isinstance(t.item, N) else None
    if isinstance(t, R):
        tns, d = mm.resolve(model, ns_name, t)
        if isinstance(d, Struct) and d.subtypes is not None:
            return None
        if isinstance(d, Alias):
            return d.name if tns == home else '%s.%s' % (tns, d.name)
        return d.name if tns == home else '%s.%s' % (tns, d.name)
    return None


# ---------------------------------------------------------------------------
# scanners


def strip_comments_and_strings(text):
    """Replace comments by spaces and string literals by a placeholder token; keeps the structure of the code."""
    out = []
    i = 0
    n = len(text)
    strings = []
    while i < n:
        c = text[i]
        if text.startswith('//', i):
            j = text.find('\n', i)
            j = n if j < 0 else j
            i = j
        elif text.startswith('/*', i):
            j = text.find('*/', i + 2)
            if j < 0:
                return None, 'unterminated block comment'
            i = j + 2
            out.append(' ')
        elif c in '"\'`':
            j = i + 1
            while j < n and text[j] != c:
                if text[j] == '\\':
                    j += 1
                if text[j:j + 1] == '\n' and c != '`':
                    return None, 'unterminated string literal'
                j += 1
            if j >= n:
                return None, 'unterminated string literal'
            strings.append(text[i + 1:j])
            out.append('"S%d"' % (len(strings) - 1))
            i = j + 1
        else:
            out.append(c)
            i += 1
    return ''.join(out), strings


def balanced(code):
    stack = []
    pairs = {')': '(', ']': '[', '}': '{'}
    for ch in code:
        if ch in '([{':
            stack.append(ch)
        elif ch in ')]}':
            if not stack or stack.pop() != pairs[ch]:
                return False
    return not stack


def scan_ts(text):
    """Returns (modules, error). modules: {module name or '': {'interfaces': {name: {'extends': [...], 'members': {name: (optional, type)}, 'count': n}},
    'types': {name: (rhs, count)}, 'imports': set(), 'methods': {name: (params text, return text)}}}"""
    code, strings = strip_comments_and_strings(text)
    if code is None:
        return None, strings
    if not balanced(code):
        return None, 'unbalanced brackets'
    mods = {}
    imports = set(m.group(1) for m in re.finditer(r'import\s*\*\s*as\s+(\w+)\s+from', code))

    def module(name):
        return mods.setdefault(name, {'interfaces': {}, 'types': {}, 'imports': imports, 'methods': {}})

    # find module / namespace blocks
    pos = 0
    blocks = []
    for m in re.finditer(r'(?:declare\s+module\s+"S(\d+)"|(?:export\s+)?(?:declare\s+)?namespace\s+(\w+))\s*\{', code):
        name = strings[int(m.group(1))] if m.group(1) is not None else m.group(2)
        depth, j = 1, m.end()
        while j < len(code) and depth:
            depth += {'{': 1, '}': -1}.get(code[j], 0)
            j += 1
        blocks.append((name, m.end(), j - 1))
    covered = []
    for name, a, b in blocks:
        scan_block(code[a:b], module(name), strings)
        covered.append((a, b))
    # top level (outside any module block)
    rest = []
    last = 0
    for name, a, b in sorted(blocks, key=lambda x: x[1]):
        rest.append(code[last:a])
        last = b + 1
    rest.append(code[last:])
    scan_block(''.join(rest), module(''), strings)
    return mods, None


def scan_block(code, mod, strings):
    for m in re.finditer(r'interface\s+(\w+)(?:<[^>]*>)?\s*(?:extends\s+([^{]+?))?\s*\{', code):
        name = m.group(1)
        depth, j = 1, m.end()
        while j < len(code) and depth:
            depth += {'{': 1, '}': -1}.get(code[j], 0)
            j += 1
        body = code[m.end():j - 1]
        members = {}
        # split members at top-level ';'
        cur, d = '', 0
        for ch in body:
            if ch in '{[(<':
                d += 1
            elif ch in '}])>':
                d -= 1
            if ch == ';' and d == 0:
                mem = cur.strip()
                cur = ''
                mm_ = re.match(r'^("S\d+"|\w+)(\?)?\s*:\s*(.+)$', mem, re.S)
                if mm_:
                    key = mm_.group(1)
                    if key.startswith('"S'):
                        key = strings[int(key[2:-1])]
                    members[key] = (bool(mm_.group(2)), ' '.join(mm_.group(3).split()))
            else:
                cur += ch
        ent = mod['interfaces'].setdefault(name, {'extends': [], 'members': {}, 'count': 0})
        ent['count'] += 1
        ent['members'].update(members)
        if m.group(2):
            ent['extends'] = [x.strip() for x in m.group(2).split(',')]
    for m in re.finditer(r'\btype\s+(\w+)\s*=\s*([^;]+);', code):
        prev = mod['types'].get(m.group(1))
        mod['types'][m.group(1)] = (' '.join(m.group(2).split()), (prev[1] if prev else 0) + 1)
    for m in re.finditer(r'public\s+(\w+)\s*\(([^)]*)\)\s*:\s*([^;]+);', code):
        mod['methods'].setdefault(m.group(1), []).append((' '.join(m.group(2).split()), ' '.join(m.group(3).split())))


def type_names(texpr):
    s = re.sub(r'"S\d+"', ' ', texpr)
    s = re.sub(r'\[\s*key\s*:\s*string\s*\]', ' ', s)
    return set(re.findall(r'[A-Za-z_][\w]*(?:\.[A-Za-z_]\w*)*', s))


def scan_jsdoc(text):
    """{typedef name: {'base': str, 'props': {name: (optional, type)}, 'count': n}}, error"""
    out = {}
    for m in re.finditer(r'/\*\*(.*?)\*/', text, re.S):
        block = m.group(1)
        td = re.search(r'@typedef\s*\{([^}]*)\}\s*(\w+)', block)
        if not td:
            continue
        ent = out.setdefault(td.group(2), {'base': td.group(1), 'props': {}, 'count': 0})
        ent['count'] += 1
        for p in re.finditer(r'@property\s*\{((?:[^{}]|\{[^{}]*\})*)\}\s*(\[[^\]]+\]|[\w.$]+)', block):
            name = p.group(2)
            opt = name.startswith('[')
            name = name.strip('[]')
            ent['props'][name] = (opt, p.group(1).strip())
    return out


# ---------------------------------------------------------------------------


NODE_HARNESS = '''
import { routes } from %(mod)s;
const out = {names: Object.keys(routes).sort(), calls: {}};
for (const name of Object.keys(routes)) {
  const rec = [];
  const self = {request: function () { rec.push(Array.from(arguments)); return 'RET'; }};
  let ret;
  try { ret = routes[name].call(self, 'ARG', 'OPTIONS'); } catch (e) { out.calls[name] = {error: String(e)}; continue; }
  out.calls[name] = {rec: rec, ret: ret};
}
console.log(JSON.stringify(out));
'''

JS_CLIENT_OPTS = [['r.mjs'], ['r.mjs', '-c', 'Client', '--wrap-response-in', 'Resp', '--wrap-error-in', 'Err', '-a', 'style'], ['r.mjs', '--request-options']]
TSD_TYPES_OPTS = [['tpl.d.ts'], ['tpl.d.ts', 'all.d.ts'], ['tpl.d.ts', '--export-namespaces'], ['tpl.d.ts', 'all.d.ts', '--exclude_error_types']]
TSD_CLIENT_OPTS = [['ctpl.d.ts', 'c.d.ts'], ['ctpl.d.ts', 'c.d.ts', '--wrap-response-in', 'Resp', '--wrap-error-in', 'Err', '-a', 'style'],
                   ['ctpl2.d.ts', 'c.d.ts', '--import-namespaces', '--types-file', 'all']]
impl.TEMPLATES['ctpl2.d.ts'] = '/*IMPORT*/\n/*ROUTES*/\n'


def attr_json(v):
    if v is None:
        return 'unspec'
    if v[0] == 'null':
        return None
    if v[0] in ('int', 'float', 'str', 'bool'):
        return v[1]
    return 'unspec'


def declared_schema(model):
    """The fields of stone_cfg.Route in DECLARATION order (the order backends see in route_schema.fields)."""
    try:
        mm.get_ns(model, 'stone_cfg')
    except KeyError:
        return []
    r = mm.find_def(model, 'stone_cfg', 'Route', (Struct,))
    if r is None:
        return []
    out = []
    for cns, cs in reversed(mm.struct_chain(model, 'stone_cfg', r[2])):
        out.extend(mm.own_members(model, cns, cs))
    return out


def check_js_client(model, api, specs, trace, oc, out_v, all_opts=True):
    schema = refsem.schema_fields(model)
    routes = [(n, d) for n, fi, di, d in mm.all_defs(model) if isinstance(d, Route) and n != 'stone_cfg']
    for oi, opts in enumerate(JS_CLIENT_OPTS if all_opts else JS_CLIENT_OPTS[:1]):
        res = impl.backend_outputs(api, ['js_client'], args_override={'js_client': opts})['js_client']
        inputs = {'specs': specs, 'trace': list(trace), 'backend': 'js_client', 'args': opts}
        if 'crash' in res:
            oc['js_client-crash'] += 1
            out_v.append(viol('backend-%s' % res['crash'], 'js_client %r failed on an accepted spec: %s' % (opts, res['crash']), inputs, res['tb']))
            continue
        src = res['files'].get('r.mjs')
        if src is None:
            out_v.append(viol('js_client-no-output', 'js_client wrote %r' % sorted(res['files']), inputs))
            continue
        d = explore.fresh_dir('c16')
        try:
            with open(os.path.join(d, 'r.mjs'), 'wb') as f:
                f.write(src)
            with open(os.path.join(d, 'h.mjs'), 'w') as f:
                f.write(NODE_HARNESS % {'mod': json.dumps('./r.mjs')})
            p = subprocess.run(['node', os.path.join(d, 'h.mjs')], capture_output=True, text=True)
            if p.returncode != 0:
                pc = subprocess.run(['node', '--check', os.path.join(d, 'r.mjs')], capture_output=True, text=True)
                if pc.returncode != 0:
                    oc['js-syntax-error'] += 1
                    out_v.append(viol('js_client-syntax', 'node --check rejects the js_client output: %s' % pc.stderr[-400:], inputs, src.decode('utf-8', 'replace')[:1500]))
                else:
                    oc['js-harness-failed'] += 1
                    out_v.append(viol('js_client-load', 'the js_client module does not load: %s' % p.stderr[-400:], inputs, src.decode('utf-8', 'replace')[:1500]))
                continue
            rep = json.loads(p.stdout)
        finally:
            shutil.rmtree(d, ignore_errors=True)
        expected = {}
        for nsn, r in routes:
            fname = camel('%s_%s' % (nsn, r.name)) + ('V%d' % r.version if r.version != 1 else '')
            url = '%s/%s%s' % (nsn, r.name, '_v%d' % r.version if r.version != 1 else '')
            has_arg = not (isinstance(r.arg, P) and r.arg.kind == 'Void')
            attrs = refsem.routesig(model, nsn, r, schema)['attrs']
            expected[fname] = (url, has_arg, [attr_json(attrs.get(f.name)) for f in declared_schema(model)])
        if sorted(expected) != rep['names']:
            oc['js-names-differ'] += 1
            out_v.append(viol('js_client-functions', 'js_client defines %r, the API has %r' % (rep['names'][:12], sorted(expected)[:12]), inputs))
            continue
        for fname, (url, has_arg, attrs) in expected.items():
            call = rep['calls'][fname]
            if 'error' in call or len(call['rec']) != 1:
                out_v.append(viol('js_client-call', 'calling %s: %r' % (fname, call), inputs))
                continue
            args = call['rec'][0]
            want = [url, 'ARG' if has_arg else None] + attrs
            if '--request-options' in opts:
                want = want + ['OPTIONS' if has_arg else 'ARG']
            ok = len(args) == len(want) and all(w == 'unspec' or a == w for a, w in zip(args, want))
            if not ok:
                oc['js-call-differs'] += 1
                out_v.append(viol('js_client-request:%s' % ('options' if '--request-options' in opts else 'plain'),
                                  '%s requested %r, expected %r' % (fname, args, want), inputs))
            else:
                oc['js-call-ok'] += 1


def check_js_types(model, api, specs, trace, oc, out_v):
    res = impl.backend_outputs(api, ['js_types'])['js_types']
    inputs = {'specs': specs, 'trace': list(trace), 'backend': 'js_types'}
    if 'crash' in res:
        out_v.append(viol('backend-%s' % res['crash'], 'js_types failed on an accepted spec: %s' % res['crash'], inputs, res['tb']))
        return
    text = res['files']['t.js'].decode('utf-8', 'replace')
    code, err = strip_comments_and_strings(text)
    if code is None:
        out_v.append(viol('js_types-lexical', 'js_types output is not lexically well formed: %s' % err, inputs, text[:1500]))
        return
    defs = scan_jsdoc(text)
    for nsn, fi, di, d in mm.all_defs(model):
        if nsn == 'stone_cfg' or not isinstance(d, (Struct, Union)):
            continue
        name = js_name(nsn, d.name)
        ent = defs.get(name)
        kind = 'struct' if isinstance(d, Struct) else 'union'
        if ent is None or ent['count'] != 1:
            oc['js_types-decl'] += 1
            out_v.append(viol('js_types-declared-once:%s' % kind, '%s.%s is declared %d times as %s' % (nsn, d.name, ent['count'] if ent else 0, name), inputs, text[:2000]))
            continue
        if isinstance(d, Struct):
            chain = list(reversed(mm.struct_chain(model, nsn, d)))
            for cns, cs in chain:
                for f in mm.own_members(model, cns, cs):
                    p = ent['props'].get(f.name)
                    if p is None:
                        out_v.append(viol('js_types-field-missing', 'typedef %s lacks field %s' % (name, f.name), inputs, text[:2000]))
                        continue
                    nullable = mm.is_nullable(model, cns, f.type)
                    if p[0] != nullable:
                        out_v.append(viol('js_types-optional', 'field %s of %s is %s in JSDoc but %s in the spec' % (
                            f.name, name, 'optional' if p[0] else 'required', 'nullable' if nullable else 'not nullable'), inputs))
                    ns2, u, _, _ = mm.strip(model, cns, f.type)
                    exp = js_type(model, ns2, u)
                    if exp is not None and p[1] != exp and p[1].replace('.<?', '.<') != exp:
                        out_v.append(viol('js_types-field-type:%s' % type(u).__name__, 'field %s of %s has JSDoc type %s, expected %s' % (f.name, name, p[1], exp), inputs))
        else:
            if '.tag' not in ent['props']:
                out_v.append(viol('js_types-tag-missing', 'union typedef %s lacks .tag' % name, inputs))
            for (tname, ttype, catch_all, tns) in refsem.union_all_tags(model, nsn, d):
                if "'%s'" % tname not in ent['props'].get('.tag', (0, ''))[1]:
                    out_v.append(viol('js_types-tag-value-missing', 'union %s: tag %s not among the .tag values' % (name, tname), inputs))
                if ttype is not None and tname not in ent['props']:
                    out_v.append(viol('js_types-tag-member-missing', 'union typedef %s lacks member %s' % (name, tname), inputs))
        for pname, (opt, ptype) in ent['props'].items():
            for ident in re.findall(r'[A-Za-z_]\w*', re.sub(r"'[^']*'|\"[^\"]*\"", ' ', ptype)):
                if ident not in defs and ident not in JS_BUILTINS:
                    out_v.append(viol('js_types-unresolved-name', 'typedef %s refers to %s, which is not declared' % (name, ident), inputs))
    oc['js_types-checked'] += 1


def check_tsd_types(model, api, specs, trace, oc, out_v):
    for opts in TSD_TYPES_OPTS:
        api2 = impl.compile_specs(specs).api
        res = impl.backend_outputs(api2, ['tsd_types'], args_override={'tsd_types': opts})['tsd_types']
        inputs = {'specs': specs, 'trace': list(trace), 'backend': 'tsd_types', 'args': opts}
        if 'crash' in res:
            out_v.append(viol('backend-%s' % res['crash'], 'tsd_types %r failed on an accepted spec: %s' % (opts, res['crash']), inputs, res['tb']))
            continue
        single = len(opts) > 1 and not opts[1].startswith('-')
        mods = {}
        imports_by_file = {}
        bad = False
        for fn, data in res['files'].items():
            text = data.decode('utf-8', 'replace')
            m, err = scan_ts(text)
            if m is None:
                out_v.append(viol('tsd_types-lexical', 'tsd_types output %s is not well formed: %s' % (fn, err), inputs, text[:1500]))
                bad = True
                break
            for k, v in m.items():
                if k == '':
                    continue
                if k in mods:
                    out_v.append(viol('tsd_types-module-twice', 'namespace %s is declared in more than one place' % k, inputs))
                mods[k] = v
                imports_by_file[k] = v['imports'] if not single else set(m)
        if bad:
            continue
        for ns in model.namespaces:
            nsn = ns.name
            if nsn == 'stone_cfg':
                continue
            defs = [d for _, _, _, d in mm.all_defs(model, nsn) if isinstance(d, (Struct, Union, Alias))]
            if not defs:
                continue
            mod = mods.get(nsn)
            if mod is None:
                # a namespace without data types gets no module; one with types must
                if any(isinstance(d, (Struct, Union)) for d in defs):
                    out_v.append(viol('tsd_types-namespace-missing', 'no declarations for namespace %s (files %r)' % (nsn, sorted(res['files'])), inputs))
                continue
            for d in defs:
                if isinstance(d, Struct):
                    ent = mod['interfaces'].get(d.name)
                    if ent is None or ent['count'] != 1:
                        out_v.append(viol('tsd_types-declared-once:struct', 'struct %s.%s is declared %d times' % (nsn, d.name, ent['count'] if ent else 0), inputs))
                        continue
                    if d.parent is not None:
                        pns, pd = mm.resolve(model, nsn, d.parent)
                        want = pd.name if pns == nsn else '%s.%s' % (pns, pd.name)
                        if ent['extends'] != [want]:
                            out_v.append(viol('tsd_types-extends', 'interface %s extends %r, expected %r' % (d.name, ent['extends'], want), inputs))
                    for f in mm.own_members(model, nsn, d):
                        mem = ent['members'].get(f.name)
                        if mem is None:
                            out_v.append(viol('tsd_types-field-missing', 'interface %s.%s lacks field %s' % (nsn, d.name, f.name), inputs))
                            continue
                        optional = mm.is_nullable(model, nsn, f.type) or f.default != NODEF
                        if mem[0] != optional:
                            out_v.append(viol('tsd_types-optional:%s' % ('alias' if isinstance(f.type, R) else type(f.type).__name__),
                                              'field %s of %s.%s is %s in TypeScript but %s in the spec' % (f.name, nsn, d.name, 'optional' if mem[0] else 'required',
                                                                                                        'optional' if optional else 'required'), inputs))
                        base = f.type.inner if isinstance(f.type, N) else f.type
                        exp = ts_type(model, nsn, base, nsn)
                        if exp is not None and mem[1] != exp:
                            out_v.append(viol('tsd_types-field-type:%s' % type(base).__name__, 'field %s of %s.%s has type %s, expected %s' % (f.name, nsn, d.name, mem[1], exp), inputs))
                elif isinstance(d, Union):
                    t = mod['types'].get(d.name)
                    if t is None or t[1] != 1:
                        out_v.append(viol('tsd_types-declared-once:union', 'union %s.%s is declared %d times' % (nsn, d.name, t[1] if t else 0), inputs))
                        continue
                    # the implicit catch-all tag belongs to the first open union of a chain (a root, or a child of a closed union)
                    parent_closed = d.parent is None or mm.resolve(model, nsn, d.parent)[1].closed
                    if not d.closed and parent_closed:
                        ent = mod['interfaces'].get(d.name + 'Other')
                        if ent is None or ent['count'] != 1:
                            out_v.append(viol('tsd_types-tag-interface:catch-all:%s' % ('root' if d.parent is None else 'open-child-of-closed'),
                                              'the catch-all tag of union %s.%s has %d interfaces named %sOther' % (nsn, d.name, ent['count'] if ent else 0, d.name), inputs))
                    for tag in mm.own_members(model, nsn, d):
                        iname = d.name + pascal(tag.name)
                        ent = mod['interfaces'].get(iname)
                        if ent is None or ent['count'] != 1:
                            out_v.append(viol('tsd_types-tag-interface', 'tag %s of union %s.%s has %d interfaces named %s' % (tag.name, nsn, d.name, ent['count'] if ent else 0, iname), inputs))
                            continue
                        if iname not in type_names(t[0]):
                            out_v.append(viol('tsd_types-tag-not-in-union', 'type %s = %s does not mention %s' % (d.name, t[0], iname), inputs))
                        flattened = False
                        if tag.type is not None:
                            ns2, u, _, _ = mm.strip(model, nsn, tag.type)
                            if isinstance(u, R):
                                tgt = mm.resolve(model, ns2, u)[1]
                                flattened = isinstance(tgt, Struct) and tgt.subtypes is None
                        if tag.type is not None and not flattened and tag.name not in ent['members']:
                            out_v.append(viol('tsd_types-tag-member-missing', 'interface %s lacks member %s' % (iname, tag.name), inputs))
                else:
                    t = mod['types'].get(d.name)
                    if t is None or t[1] != 1:
                        out_v.append(viol('tsd_types-declared-once:alias', 'alias %s.%s is declared %d times' % (nsn, d.name, t[1] if t else 0), inputs))
            # name resolution inside this module
            declared = set(mod['interfaces']) | set(mod['types'])
            for iname, ent in mod['interfaces'].items():
                texts = [mt for _, mt in ent['members'].values()] + ent['extends']
                for tx in texts:
                    for ident in type_names(tx):
                        resolve_ts(ident, nsn, declared, mods, imports_by_file.get(nsn, set()), single, inputs, out_v, 'interface ' + iname)
            for tname, (rhs, cnt) in mod['types'].items():
                for ident in type_names(rhs):
                    resolve_ts(ident, nsn, declared, mods, imports_by_file.get(nsn, set()), single, inputs, out_v, 'type ' + tname)
        oc['tsd_types-checked'] += 1


def resolve_ts(ident, nsn, declared, mods, imports, single, inputs, out_v, where):
    if '.' in ident:
        ns2, name = ident.split('.', 1)
        if ns2 not in mods or (name not in mods[ns2]['interfaces'] and name not in mods[ns2]['types']):
            out_v.append(viol('tsd-unresolved-name:qualified', '%s of namespace %s refers to %s, which is not declared' % (where, nsn, ident), inputs))
        elif not single and ns2 not in imports:
            out_v.append(viol('tsd-unresolved-name:not-imported', '%s of namespace %s refers to %s but %s is not imported' % (where, nsn, ident, ns2), inputs))
    elif ident not in declared and ident not in TS_BUILTINS:
        out_v.append(viol('tsd-unresolved-name:local', '%s of namespace %s refers to %s, which is neither declared nor built in' % (where, nsn, ident), inputs))


def check_tsd_client(model, api, specs, trace, oc, out_v):
    routes = [(n, d) for n, fi, di, d in mm.all_defs(model) if isinstance(d, Route) and n != 'stone_cfg']
    for opts in TSD_CLIENT_OPTS:
        api2 = impl.compile_specs(specs).api
        res = impl.backend_outputs(api2, ['tsd_client'], args_override={'tsd_client': opts})['tsd_client']
        inputs = {'specs': specs, 'trace': list(trace), 'backend': 'tsd_client', 'args': opts}
        if 'crash' in res:
            out_v.append(viol('backend-%s' % res['crash'], 'tsd_client %r failed on an accepted spec: %s' % (opts, res['crash']), inputs, res['tb']))
            continue
        text = res['files']['c.d.ts'].decode('utf-8', 'replace')
        mods, err = scan_ts(text)
        if mods is None:
            out_v.append(viol('tsd_client-lexical', 'tsd_client output is not well formed: %s' % err, inputs, text[:1500]))
            continue
        methods = {}
        for m in mods.values():
            for k, v in m['methods'].items():
                methods.setdefault(k, []).extend(v)
        expected = {}
        for nsn, r in routes:
            expected[camel('%s_%s' % (nsn, r.name)) + ('V%d' % r.version if r.version != 1 else '')] = (nsn, r)
        if sorted(methods) != sorted(expected) or any(len(v) != 1 for v in methods.values()):
            oc['tsd_client-methods-differ'] += 1
            out_v.append(viol('tsd_client-methods', 'tsd_client declares %r, the API has %r' % (sorted((k, len(v)) for k, v in methods.items())[:10], sorted(expected)[:10]), inputs))
            continue
        for name, (nsn, r) in expected.items():
            params, ret = methods[name][0]
            has_arg = not (isinstance(r.arg, P) and r.arg.kind == 'Void')
            if has_arg != params.startswith('arg'):
                out_v.append(viol('tsd_client-arg', 'method %s has parameters %r for a %s argument' % (name, params, 'non-Void' if has_arg else 'Void'), inputs))
                continue
            if has_arg:
                base = r.arg
                exp = ts_type(model, nsn, base, None)
                if isinstance(base, R) and exp is not None:
                    tns, d = mm.resolve(model, nsn, base)
                    exp = '%s.%s' % (tns, d.name)
                got = params.split(':', 1)[1].strip() if ':' in params else None
                if exp is not None and not isinstance(base, (L,)) and got != exp:
                    out_v.append(viol('tsd_client-arg-type:%s' % type(base).__name__, 'method %s takes %s, expected %s' % (name, got, exp), inputs))
            if not ret.startswith('Promise<'):
                out_v.append(viol('tsd_client-return', 'method %s returns %s' % (name, ret), inputs))
        if '--import-namespaces' in opts:
            # every namespace-qualified type name of the declarations (outside comments) needs its namespace in the import list, and
            # the name must be a struct, union or alias that the spec declares in that namespace
            import re as _re
            code = _re.sub(r'/\*.*?\*/', ' ', text, flags=_re.S)
            code = _re.sub(r'//[^\n]*', ' ', code)
            imported = set()
            for m_ in _re.finditer(r'import\s*\{([^}]*)\}\s*from', code):
                imported.update(x.strip() for x in m_.group(1).split(',') if x.strip())
            # what "declared" means is taken from the tsd_types output for the same spec (one file, all namespaces): the types backend adds
            # helper declarations of its own (<Leaf>Reference for subtype trees) that the client may name
            declared_names = {(n, d.name) for n, fi, di, d in mm.all_defs(model) if isinstance(d, (Struct, Union, Alias))}
            tt = impl.backend_outputs(impl.compile_specs(specs).api, ['tsd_types'], args_override={'tsd_types': ['tpl.d.ts', 'all.d.ts']})['tsd_types']
            if 'crash' not in tt and 'all.d.ts' in tt['files']:
                tmods, _terr = scan_ts(tt['files']['all.d.ts'].decode('utf-8', 'replace'))
                for tn, tm in (tmods or {}).items():
                    declared_names |= {(tn, x) for x in tm['interfaces']} | {(tn, x) for x in tm['types']}
            for m_ in _re.finditer(r'(?<![\w.])([A-Za-z_]\w*)\.([A-Za-z_]\w*)', code):
                nsn_, nm_ = m_.group(1), m_.group(2)
                if nsn_ not in {ns.name for ns in model.namespaces}:
                    continue
                if nsn_ not in imported:
                    out_v.append(viol('tsd_client-unresolved-name:not-imported', 'tsd_client (--import-namespaces) refers to %s.%s but does not import %s (imports: %r)' % (
                        nsn_, nm_, nsn_, sorted(imported)), inputs, text[:1500]))
                elif (nsn_, nm_) not in declared_names:
                    out_v.append(viol('tsd_client-unresolved-name:undeclared', 'tsd_client refers to %s.%s, which the spec does not declare' % (nsn_, nm_), inputs, text[:1500]))
        oc['tsd_client-checked'] += 1


def task(item):
    model, trace, pname, flags, depth = item
    specs = render.render(model) if not isinstance(model, list) else model
    out = impl.compile_specs(specs)
    if out.kind != 'ok':
        return {'outcome': 'not-accepted', 'viol': []}
    oc = collections.Counter()
    out_v = []
    has_routes = any(isinstance(d, Route) for _, _, _, d in mm.all_defs(model))
    try:
        if has_routes:
            check_js_client(model, out.api, specs, trace, oc, out_v, all_opts=depth <= OPT_DEPTH[0])
            check_tsd_client(model, out.api, specs, trace, oc, out_v)
        check_js_types(model, impl.compile_specs(specs).api, specs, trace, oc, out_v)
        check_tsd_types(model, out.api, specs, trace, oc, out_v)
    except subprocess.SubprocessError as e:
        raise explore.InternalError('node failed: %r' % (e,))
    n = sum(oc.values()) or 1
    return {'outcome': oc, 'viol': out_v, 'n': n, 'transitions': n}


def run(tier, seed):
    r = explore.Run(PROP, tier, seed)
    if shutil.which('node') is None:
        raise explore.InternalError('node is required by C16')
    states = c01.gather_states(tier, r, budget=120 if tier == 'quick' else 800)
    OPT_DEPTH[0] = 3 if tier == 'quick' else 9
    r.bounds['non_default_js_client_options_up_to_depth'] = OPT_DEPTH[0]
    r.bounds.update({'js_client_option_sets': JS_CLIENT_OPTS, 'tsd_types_option_sets': TSD_TYPES_OPTS, 'tsd_client_option_sets': TSD_CLIENT_OPTS})
    for s, tr, pn, fl, d in states[len(states) // 3:len(states) // 3 + 1]:
        r.sample({'profile': pn, 'trace': list(tr), 'specs': render.render(s)})
    r.run_tasks(task, states, budget=600, chunksize=4)
    r.assumptions = ['no TypeScript compiler is available: well-formedness is lexical (comments, strings, bracket balance) plus declaration scanning',
                     'type texts are judged only where the mapping is unambiguous (primitives, lists incl. lists of nullable items, plain user types, aliases); '
                     'subtype roots are not judged', 'tag-reference / timestamp attribute values in js_client calls are not judged']
    r.finish('every explored model x every option set of js_client / js_types / tsd_types / tsd_client: node --check and a recording harness for '
             'js_client; declaration scanners for the others (declared exactly once, members, optional markers, methods per route version, name resolution)')


def replay(rep):
    print('the C16 oracles need the model; re-run ./check C16 (recorded: %s)' % rep['what'][:300])
    specs = [tuple(x) for x in rep['inputs']['specs']]
    out = impl.compile_specs(specs)
    if out.kind != 'ok':
        return 0
    res = impl.backend_outputs(out.api, [rep['inputs'].get('backend', 'js_client')], args_override={rep['inputs'].get('backend', 'js_client'): rep['inputs'].get('args')} if rep['inputs'].get('args') else None)
    if any('crash' in v for v in res.values()):
        print('VIOLATION property=%s replay=replayed' % PROP)
        return 1
    return 1
