"""C13 - omitted fields and redacted values never leak through serialization.

Placements are enumerated as a complete (bounded) product and packed into a few specs:
  * omission: inheritance chains of depth 1..4 where every level carries one of {no omitted field, one field omitted for
    alpha, one for beta, one each}; union chains with omitted void / typed tags; the chain structs also appear as union
    members, list elements and map values of a holder;
  * redaction: every redactor kind x {own field of each eligible type shape, inherited field, patched field, union tag,
    alias definition used directly / nullable / as list item / as map value / nested three deep, field of a struct that is a
    union member, subtype leaf}.
Every value carries unique sentinels.  For EVERY subset of the declared caller classes, redaction on/off, both encoders:
a field/tag omitted for c shows up iff c is held; strict decoding of a document that supplies it is refused without c;
with redaction on no clear sentinel of a redacted position occurs anywhere in the output text and scalar positions hold
exactly the mask / regex groups / MD5 digest; with redaction off values are untouched.
"""
import collections
import hashlib
import itertools
import json
import re

from mc import explore, impl
from mc.explore import viol
from checks import rtbase

PROP = 'C13'
# the second caller class is deliberately not lower_case: caller names are free-form strings of the spec
BETA = 'betaTeam'
CALLERS = ['alpha', BETA, 'gamma']
ANN_OF = {'alpha': 'OmAlpha', BETA: 'OmBeta', 'gamma': 'OmGamma'}
LEVEL_PATTERNS = [(), ('alpha',), (BETA,), ('alpha', BETA)]
TIER = ['quick']
_U = {}
UCHAINS = []


# ---------------------------------------------------------------------------
# spec generation


def chain_specs(depth):
    """All chains of `depth` levels; returns (text, chains) - chains: [(chain id, [level struct names], {struct: [(field, caller|None)]})]"""
    lines = []
    chains = []
    cid = 0
    for pats in itertools.product(LEVEL_PATTERNS, repeat=depth):
        if not any(pats):
            continue
        names = []
        fields = {}
        for lvl, pat in enumerate(pats):
            nm = 'K%dL%d' % (cid, lvl)
            names.append(nm)
            lines.append('struct %s%s' % (nm, ' extends %s' % names[lvl - 1] if lvl else ''))
            fl = [('p%d' % lvl, None)] + [('o%d%s' % (lvl, c[0]), c) for c in pat]
            fields[nm] = fl
            for fname, caller in fl:
                lines.append('    %s String' % fname)
                if caller:
                    lines.append('        @%s' % ANN_OF[caller])
            lines.append('')
        chains.append((cid, names, fields))
        cid += 1
    return '\n'.join(lines), chains


def union_chain_specs(depth):
    """All union chains of `depth` levels (the same product as the struct chains): per level one public void tag, and per caller of the
    level's pattern one typed tag omitted for it.  Returns (text, chains) - chains: [(names, {union: [(tag, caller|None)]})]"""
    lines = []
    chains = []
    for cid, pats in enumerate(p for p in itertools.product(LEVEL_PATTERNS, repeat=depth) if any(p)):
        names = []
        tags = {}
        for lvl, pat in enumerate(pats):
            nm = 'Q%dL%d' % (cid, lvl)
            names.append(nm)
            lines.append('union %s%s' % (nm, ' extends %s' % names[lvl - 1] if lvl else ''))
            tl = [('q%d' % lvl, None)] + [('t%d%s' % (lvl, c[0]), c) for c in pat]
            tags[nm] = tl
            for tname, caller in tl:
                lines.append('    %s%s' % (tname, ' String' if caller else ''))
                if caller:
                    lines.append('        @%s' % ANN_OF[caller])
            lines.append('')
        chains.append((names, tags))
    return '\n'.join(lines), chains


def omit_spec(depth):
    head = ['namespace om', '']
    for c in CALLERS:
        head.append('annotation %s = Omitted("%s")' % (ANN_OF[c], c))
    head.append('')
    text, chains = chain_specs(depth)
    # unions with omitted tags, and a union chain
    u = '''
union UnionO
    pubv
    pubt String
    omv
        @OmAlpha
    omt String
        @OmBeta
    oms K0L0
        @OmAlpha

union UnionOChild extends UnionO
    childpub String
    childom String
        @OmGamma
    childomv
        @OmBeta

union_closed UnionOc
    cv
    ct String
        @OmAlpha

struct Nest
    "omitted fields reached through containers and union members"
    lst List(%(leaf)s)
    mp Map(String, %(leaf)s)
    opt %(leaf)s?
    un UMember
    deep Map(String, List(%(leaf)s?))

union UMember
    plain %(leaf)s
    nul %(leaf)s?
    lst List(%(leaf)s)

struct Tree
    union
        tleaf TLeaf
    tp String
    tro String
        @OmAlpha

struct TLeaf extends Tree
    lp String
    lo String
        @OmBeta
'''
    leaf = chains[-1][1][-1]
    utext, uchains = union_chain_specs(min(depth, 3))
    UCHAINS[:] = uchains
    return '\n'.join(head) + text + (u % {'leaf': leaf}) + '\n' + utext, chains, leaf


REDACTORS = [('Rb', 'RedactedBlot()', 'blot', None), ('Rbx', 'RedactedBlot("^(vis)ible-([A-Z])")', 'blot', r'^(vis)ible-([A-Z])'),
             ('Rh', 'RedactedHash()', 'hash', None), ('Rhx', 'RedactedHash("^(vis)ible-([A-Z])")', 'hash', r'^(vis)ible-([A-Z])')]
FIELD_TYPES = [('s', 'String'), ('n', 'Int64'), ('f', 'Float64'), ('sn', 'String?'), ('ls', 'List(String)'), ('ms', 'Map(String, String)'),
               ('lls', 'List(List(String))'), ('mls', 'Map(String, List(String))'), ('lns', 'List(String?)'), ('lsn', 'List(String)?')]
ALIAS_USES = [('d', '%s'), ('q', '%s?'), ('li', 'List(%s)'), ('mv', 'Map(String, %s)'), ('deep', 'Map(String, List(%s?))'), ('lq', 'List(%s)?')]


def redact_spec():
    lines = ['namespace rd', '']
    for nm, ctor, kind, rx in REDACTORS:
        lines.append('annotation %s = %s' % (nm, ctor))
    lines.append('annotation OmAlpha = Omitted("alpha")')
    lines.append('')
    for nm, ctor, kind, rx in REDACTORS:
        lines.append('alias Str%s = String' % nm)
        lines.append('    @%s' % nm)
        lines.append('alias Num%s = Int64' % nm)
        lines.append('    @%s' % nm)
        lines.append('alias Lst%s = List(String)' % nm)
        lines.append('    @%s' % nm)
        lines.append('alias Ali%s = Plainstr' % nm)      # alias of an unredacted alias, redacted itself
        lines.append('    @%s' % nm)
        lines.append('alias Qst%s = String?' % nm)       # redacted alias whose target is nullable
        lines.append('    @%s' % nm)
        lines.append('alias Out%s = Str%s' % (nm, nm))    # unannotated alias of a redacted alias: the redactor is inherited
        lines.append('alias Far%s = Out%s' % (nm, nm))    # ... over two links
    lines.append('alias Plainstr = String')
    lines.append('')
    lines.append('struct Base')
    lines.append('    "inherited redacted fields"')
    for nm, ctor, kind, rx in REDACTORS:
        lines.append('    b_%s String' % nm.lower())
        lines.append('        @%s' % nm)
    lines.append('')
    lines.append('struct Mid extends Base')
    lines.append('    m_plain String')
    lines.append('')
    lines.append('struct RHold extends Mid')
    lines.append('    "holder of redacted fields"')
    fields = []
    for tkey, ttext in FIELD_TYPES:
        for nm, ctor, kind, rx in REDACTORS:
            fname = 'r_%s_%s' % (tkey, nm.lower())
            lines.append('    %s %s' % (fname, ttext))
            lines.append('        @%s' % nm)
            fields.append((fname, ttext, kind, rx, 'own'))
    for nm, ctor, kind, rx in REDACTORS:
        for base in ('Str', 'Num', 'Lst', 'Ali', 'Qst', 'Out', 'Far'):
            for ukey, upat in ALIAS_USES:
                if base == 'Lst' and ukey in ('deep',):
                    continue
                if base == 'Qst' and ukey in ('q', 'deep'):
                    continue            # a nullable alias cannot be made nullable again
                fname = 'a_%s_%s_%s' % (base.lower(), ukey, nm.lower())
                ttext = upat % (base + nm)
                lines.append('    %s %s' % (fname, ttext))
                fields.append((fname, ttext, kind, rx, 'alias:' + base))
    # a field that is both omitted and redacted
    lines.append('    both String')
    lines.append('        @Rb')
    lines.append('        @OmAlpha')
    lines.append('')
    lines.append('patch struct RHold')
    for nm, ctor, kind, rx in REDACTORS:
        lines.append('    pt_%s String' % nm.lower())
        lines.append('        @%s' % nm)
    lines.append('')
    lines.append('union UnionR')
    lines.append('    clear String')
    for nm, ctor, kind, rx in REDACTORS:
        lines.append('    t_%s String' % nm.lower())
        lines.append('        @%s' % nm)
        lines.append('    tn_%s String?' % nm.lower())
        lines.append('        @%s' % nm)
        lines.append('    tl_%s List(String)' % nm.lower())
        lines.append('        @%s' % nm)
        lines.append('    ta_%s Str%s' % (nm.lower(), nm))
    lines.append('    member RHold')
    lines.append('    nmember Mid?')
    lines.append('')
    lines.append('union UnionRChild extends UnionR')
    lines.append('    extra String')
    lines.append('        @Rb')
    lines.append('')
    lines.append('struct RTree')
    lines.append('    union')
    lines.append('        rleaf RLeaf')
    lines.append('    rt String')
    lines.append('        @Rh')
    lines.append('')
    lines.append('struct RLeaf extends RTree')
    lines.append('    rl String')
    lines.append('        @Rbx')
    lines.append('    rlist List(RHold)')
    lines.append('')
    lines.append('struct Outer')
    lines.append('    u UnionR')
    lines.append('    ul List(UnionR)')
    lines.append('    tree RTree')
    lines.append('    m Map(String, Mid)')
    return '\n'.join(lines) + '\n', fields


class U13:
    def __init__(self, tier):
        depth = 3 if tier == 'quick' else 4
        om_text, self.chains, self.leaf = omit_spec(depth)
        rd_text, self.rfields = redact_spec()
        self.specs = [('om.stone', om_text), ('rd.stone', rd_text)]
        out = impl.compile_specs(self.specs)
        if out.kind != 'ok':
            raise rtbase.UniverseError('compile', out.brief(), self.specs)
        self.api = out.api
        pkg, fail = impl.build_python_package(self.api)
        if pkg is None:
            raise rtbase.UniverseError('generate', fail.identity + '\n' + (fail.tb or ''), self.specs)
        self.pkg = pkg
        try:
            self.om = pkg.mod('om')
            self.rd = pkg.mod('rd')
        except Exception:
            import traceback
            raise rtbase.UniverseError('import', traceback.format_exc()[-2500:], self.specs)
        self.ss, self.bv = pkg.ss, pkg.bv
        ss = self.ss

        class CP(ss.CallerPermissionsInterface):
            def __init__(self, perms):
                self._p = list(perms)

            @property
            def permissions(self):
                return self._p
        self.CP = CP


def universe(tier):
    if tier not in _U:
        _U[tier] = U13(tier)
    return _U[tier]


def subsets(xs):
    for n in range(len(xs) + 1):
        for c in itertools.combinations(xs, n):
            yield list(c)


# ---------------------------------------------------------------------------
# omission


def chain_instance(u, chain, lvl):
    cid, names, fields = chain
    cls = getattr(u.om, names[lvl])
    kw = {}
    expect = []
    for i in range(lvl + 1):
        for fname, caller in fields[names[i]]:
            kw[fname] = 'SENT-%d-%s' % (cid, fname)
            expect.append((fname, caller, kw[fname]))
    return cls(**kw), expect


def omit_chain_task(item):
    _, ci = item
    u = universe(TIER[0])
    chain = u.chains[ci]
    cid, names, fields = chain
    VE = u.bv.ValidationError
    oc = collections.Counter()
    out_v = []
    n = 0
    shape = '/'.join('+'.join(c or '-' for _, c in fields[nm] if c) or 'none' for nm in names)
    for lvl in range(len(names)):
        inst, expect = chain_instance(u, chain, lvl)
        validator = getattr(u.om, names[lvl] + '_validator')
        full_doc = {f: v for f, c, v in expect}
        # one permissions object whose answer changes between calls (a caller gains or loses a permission): every encoding must
        # follow the permissions reported at that moment, i.e. equal the encoding for a fresh object with the same permissions
        for seq in ([list(CALLERS), [], list(CALLERS)], [[], list(CALLERS), ['alpha']]):
            shared = u.CP(seq[0])
            for step, perms_now in enumerate(seq):
                shared._p[:] = perms_now
                n += 1
                try:
                    got = u.ss.json_compat_obj_encode(validator, inst, caller_permissions=shared)
                    want = u.ss.json_compat_obj_encode(validator, inst, caller_permissions=u.CP(perms_now))
                except Exception as e:  # noqa
                    out_v.append(viol('omit-encode-raised:%s' % type(e).__name__, 'encoding with a re-used permissions object raised %r' % (e,), {'chain': shape, 'level': lvl}, repr(e)))
                    continue
                if got != want:
                    oc['stale-permissions'] += 1
                    out_v.append(viol('omitted-stale-permissions:struct', 'the same permissions object reported %r at step %d of %r but the encoding is %s, a fresh object gives %s' % (
                        perms_now, step, seq, json.dumps(got)[:200], json.dumps(want)[:200]), {'chain': shape, 'level': lvl, 'struct': names[lvl], 'sequence': seq}))
                else:
                    oc['reused-permissions-ok'] += 1
        for perms in subsets(CALLERS):
            cp = u.CP(perms)
            inputs = {'chain': shape, 'level': lvl, 'struct': names[lvl], 'permissions': perms, 'specs_excerpt': [
                'struct %s: %s' % (nm, fields[nm]) for nm in names[:lvl + 1]]}
            for enc_name in ('json_compat_obj_encode', 'json_encode'):
                n += 1
                try:
                    res = getattr(u.ss, enc_name)(validator, inst, caller_permissions=cp)
                except Exception as e:  # noqa
                    oc['encode-raised'] += 1
                    out_v.append(viol('omit-encode-raised:%s' % type(e).__name__, 'encoding with permissions %r raised %r' % (perms, e), inputs, repr(e)))
                    continue
                text = res if isinstance(res, str) else json.dumps(res)
                doc = json.loads(text)
                for fname, caller, sentinel in expect:
                    should = caller is None or caller in perms
                    present = sentinel in text
                    if present and not should:
                        oc['leak'] += 1
                        own = fname in [f for f, _ in fields[names[lvl]]]
                        out_v.append(viol('omitted-leak:struct:%s' % ('own' if own else 'inherited@%d' % (lvl - int(fname[1]))),
                                          'field %s omitted for %r appears in the encoding for permissions %r: %s' % (fname, caller, perms, text[:300]), inputs, text[:500]))
                    elif should and not present:
                        oc['missing'] += 1
                        own = fname in [f for f, _ in fields[names[lvl]]]
                        out_v.append(viol('permitted-field-missing:struct:%s' % ('own' if own else 'inherited@%d' % (lvl - int(fname[1]))),
                                          'field %s (%s) is absent from the encoding for permissions %r: %s' % (fname, 'public' if caller is None else 'omitted for ' + caller, perms, text[:300]),
                                          inputs, text[:500]))
                    else:
                        oc['present-ok' if present else 'absent-ok'] += 1
            # strict decoding of a document that supplies every field
            n += 1
            forbidden = [f for f, c, v in expect if c is not None and c not in perms]
            try:
                dec = u.ss.json_compat_obj_decode(validator, dict(full_doc), caller_permissions=cp, strict=True)
                accepted = True
            except VE:
                accepted = False
            except Exception as e:  # noqa
                oc['decode-raised'] += 1
                out_v.append(viol('omit-decode-raised:%s' % type(e).__name__, 'strict decoding with permissions %r raised %r' % (perms, e), inputs, repr(e)))
                continue
            if forbidden and accepted:
                oc['decode-accepted-forbidden'] += 1
                out_v.append(viol('omitted-supplied-accepted:struct', 'strict decoding accepted fields %r for a caller holding only %r' % (forbidden, perms), inputs))
            elif not forbidden and not accepted:
                oc['decode-refused-permitted'] += 1
                out_v.append(viol('permitted-supplied-refused:struct', 'strict decoding refused a document whose fields are all visible to %r' % (perms,), inputs))
            else:
                oc['decode-ok'] += 1
            # a document with exactly the permitted fields must be accepted and round-trip
            n += 1
            allowed_doc = {f: v for f, c, v in expect if c is None or c in perms}
            try:
                dec = u.ss.json_compat_obj_decode(validator, allowed_doc, caller_permissions=cp, strict=True)
                for f, v in allowed_doc.items():
                    if getattr(dec, f) != v:
                        out_v.append(viol('permitted-field-lost:struct', 'field %s decoded as %r' % (f, getattr(dec, f)), inputs))
                oc['decode-allowed-ok'] += 1
            except Exception as e:  # noqa
                oc['decode-allowed-refused'] += 1
                out_v.append(viol('permitted-document-refused:struct:%s' % type(e).__name__, 'document with exactly the fields visible to %r was refused: %r' % (perms, e), inputs, repr(e)))
    return {'outcome': oc, 'viol': out_v, 'n': n, 'transitions': n}


def omit_union_task(item):
    u = universe(TIER[0])
    VE = u.bv.ValidationError
    oc = collections.Counter()
    out_v = []
    n = 0
    om = u.om
    k0 = getattr(om, 'K0L0')
    k0_inst, k0_expect = chain_instance(u, u.chains[0], 0)
    cases = [  # (class, tag, caller, instance factory, sentinel)
        ('UnionO', 'pubv', None, lambda: om.UnionO.pubv, None), ('UnionO', 'pubt', None, lambda: om.UnionO.pubt('SENT-pubt'), 'SENT-pubt'),
        ('UnionO', 'omv', 'alpha', lambda: om.UnionO.omv, None), ('UnionO', 'omt', BETA, lambda: om.UnionO.omt('SENT-omt'), 'SENT-omt'),
        ('UnionO', 'oms', 'alpha', lambda: om.UnionO.oms(k0_inst), k0_expect[0][2]),
        ('UnionOChild', 'childpub', None, lambda: om.UnionOChild.childpub('SENT-cp'), 'SENT-cp'),
        ('UnionOChild', 'childom', 'gamma', lambda: om.UnionOChild.childom('SENT-co'), 'SENT-co'),
        ('UnionOChild', 'childomv', BETA, lambda: om.UnionOChild.childomv, None),
        ('UnionOChild', 'omt', BETA, lambda: om.UnionOChild.omt('SENT-omt2'), 'SENT-omt2'),
        ('UnionOChild', 'omv', 'alpha', lambda: om.UnionOChild.omv, None),
        ('UnionOc', 'cv', None, lambda: om.UnionOc.cv, None), ('UnionOc', 'ct', 'alpha', lambda: om.UnionOc.ct('SENT-ct'), 'SENT-ct'),
    ]
    # every union chain of the product: every level's class x every tag it declares or inherits
    own_of = {}
    for names, tags in UCHAINS:
        for li, cname_ in enumerate(names):
            for lj in range(li + 1):
                for tname, caller_ in tags[names[lj]]:
                    own_of[(cname_, tname)] = lj == li
                    if caller_ is None:
                        cases.append((cname_, tname, None, (lambda c=cname_, t=tname: getattr(getattr(om, c), t)), None))
                    else:
                        sent = 'SENT-%s-%s' % (cname_, tname)
                        cases.append((cname_, tname, caller_, (lambda c=cname_, t=tname, sv=sent: getattr(getattr(om, c), t)(sv)), sent))
    for cname, tag, caller, make, sentinel in cases:
        validator = getattr(om, cname + '_validator')
        for perms in subsets(CALLERS):
            cp = u.CP(perms)
            inputs = {'union': cname, 'tag': tag, 'omitted_for': caller, 'permissions': perms}
            should = caller is None or caller in perms
            try:
                inst = make()
            except Exception as e:  # noqa
                out_v.append(viol('omit-union-construct:%s' % type(e).__name__, 'constructing %s.%s raised %r' % (cname, tag, e), inputs))
                continue
            for enc_name in ('json_compat_obj_encode', 'json_encode'):
                n += 1
                try:
                    res = getattr(u.ss, enc_name)(validator, inst, caller_permissions=cp)
                    text = res if isinstance(res, str) else json.dumps(res)
                    emitted = True
                except VE:
                    emitted, text = False, ''
                except Exception as e:  # noqa
                    out_v.append(viol('omit-union-encode-raised:%s' % type(e).__name__, 'encoding %s.%s for %r raised %r' % (cname, tag, perms, e), inputs))
                    continue
                shown = emitted and (('"%s"' % tag) in text or (sentinel is not None and sentinel in text))
                if shown and not should:
                    oc['leak'] += 1
                    out_v.append(viol('omitted-leak:union:%s' % (('own' if own_of[(cname, tag)] else 'inherited') + '@chain' if (cname, tag) in own_of else 'own' if tag in ('omv', 'omt', 'oms', 'ct') and cname != 'UnionOChild' or tag.startswith('child') else 'inherited'),
                                      'tag %s.%s omitted for %r is encoded for permissions %r: %s' % (cname, tag, caller, perms, text[:200]), inputs, text[:300]))
                elif should and not shown:
                    oc['missing'] += 1
                    out_v.append(viol('permitted-tag-missing:union:%s' % (('own' if own_of[(cname, tag)] else 'inherited') + '@chain' if (cname, tag) in own_of else 'inherited' if cname == 'UnionOChild' and not tag.startswith('child') else 'own'),
                                      'tag %s.%s (%s) could not be encoded for permissions %r' % (cname, tag, caller, perms), inputs))
                else:
                    oc['ok'] += 1
            # strict decode of the tag's document
            n += 1
            if sentinel is None:
                doc = {'.tag': tag}
            elif tag == 'oms':
                doc = dict({'.tag': tag}, **{f: v for f, c, v in k0_expect if c is None})
            else:
                doc = {'.tag': tag, tag: sentinel}
            try:
                u.ss.json_compat_obj_decode(validator, doc, caller_permissions=cp, strict=True)
                accepted = True
            except VE:
                accepted = False
            except Exception as e:  # noqa
                out_v.append(viol('omit-union-decode-raised:%s' % type(e).__name__, 'strict decoding %r for %r raised %r' % (doc, perms, e), inputs))
                continue
            if accepted != should:
                oc['decode-disagree'] += 1
                out_v.append(viol('%s:union' % ('omitted-supplied-accepted' if accepted else 'permitted-supplied-refused'),
                                  'strict decoding of %r with permissions %r was %s' % (doc, perms, 'accepted' if accepted else 'refused'), inputs))
            else:
                oc['decode-ok'] += 1
    # omitted fields reached through containers / union members / subtype trees
    leaf_chain = u.chains[-1]
    leaf_inst, leaf_expect = chain_instance(u, leaf_chain, len(leaf_chain[1]) - 1)
    nest = om.Nest(lst=[leaf_inst], mp={'k': leaf_inst}, opt=leaf_inst, un=om.UMember.plain(leaf_inst), deep={'k': [leaf_inst, None]})
    tleaf = om.TLeaf(tp='SENT-tp', tro='SENT-tro', lp='SENT-lp', lo='SENT-lo')
    for label, validator, inst, expect in [
            ('nest', om.Nest_validator, nest, leaf_expect),
            ('umember-nul', om.UMember_validator, om.UMember.nul(leaf_inst), leaf_expect),
            ('umember-lst', om.UMember_validator, om.UMember.lst([leaf_inst]), leaf_expect),
            ('tree', om.Tree_validator, tleaf, [('tp', None, 'SENT-tp'), ('tro', 'alpha', 'SENT-tro'), ('lp', None, 'SENT-lp'), ('lo', BETA, 'SENT-lo')])]:
        for perms in subsets(CALLERS):
            cp = u.CP(perms)
            inputs = {'placement': label, 'permissions': perms}
            for enc_name in ('json_compat_obj_encode', 'json_encode'):
                n += 1
                try:
                    res = getattr(u.ss, enc_name)(validator, inst, caller_permissions=cp)
                except Exception as e:  # noqa
                    out_v.append(viol('omit-nested-encode-raised:%s:%s' % (label, type(e).__name__), 'encoding %s for %r raised %r' % (label, perms, e), inputs, repr(e)))
                    continue
                text = res if isinstance(res, str) else json.dumps(res)
                for fname, caller, sentinel in expect:
                    should = caller is None or caller in perms
                    present = sentinel in text
                    if present != should:
                        oc['nested-' + ('leak' if present else 'missing')] += 1
                        out_v.append(viol('%s:nested:%s' % ('omitted-leak' if present else 'permitted-field-missing', label),
                                          'field %s (omitted for %r) %s in the encoding of %s for %r' % (fname, caller, 'appears' if present else 'is missing', label, perms), inputs, text[:400]))
                    else:
                        oc['nested-ok'] += 1
    return {'outcome': oc, 'viol': out_v, 'n': n, 'transitions': n}


# ---------------------------------------------------------------------------
# redaction

SECRET = 'visible-SECRET'


def sentinel_for(fname, idx=0):
    return '%s%s%dz' % (SECRET, re.sub(r'[^a-z0-9]', '', fname), idx)


def expected_mask(kind, rx, value):
    """The documented redaction of a scalar: blot mask, regex groups joined by ***, md5 hex (optionally + groups)."""
    sval = value if isinstance(value, str) else None
    m = re.search(rx, sval) if (rx and sval is not None) else None
    if kind == 'blot':
        return '***'.join(m.groups()) if m else '********'
    h = hashlib.md5((str(value) if isinstance(value, (int, float)) else value).encode('utf-8')).hexdigest()
    return '%s (%s)' % (h, '***'.join(m.groups())) if m else h


def value_for(u, fname):
    """A value for field `fname` of rd.RHold carrying unique sentinels at every scalar position (driven by the IR type)."""
    from stone.ir import data_types as dt
    hold = u.api.namespaces['rd'].data_type_by_name['RHold']
    ftype = None
    cur = hold
    while cur is not None:
        for f in cur.fields:
            if f.name == fname:
                ftype = f.data_type
        cur = cur.parent_type
    counter = [0]

    def mk(t):
        if isinstance(t, dt.Alias):
            return mk(t.data_type)
        if isinstance(t, dt.Nullable):
            return mk(t.data_type)
        if isinstance(t, dt.List):
            items = [mk(t.data_type), mk(t.data_type)]
            if isinstance(t.data_type, dt.Nullable):
                items.insert(1, None)
            return items
        if isinstance(t, dt.Map):
            return {'k1': mk(t.value_data_type), 'k2': mk(t.value_data_type)}
        counter[0] += 1
        if isinstance(t, dt.String):
            return sentinel_for(fname, counter[0])
        if isinstance(t, (dt.Int64, dt.Int32)):
            return 987650000 + (hash_name(fname) % 9000) * 10 + counter[0]
        if isinstance(t, dt.Float64):
            return 98765.25 + (hash_name(fname) % 1000) + counter[0]
        raise TypeError(t)
    return mk(ftype)


def hash_name(s):
    return int(hashlib.md5(s.encode()).hexdigest()[:6], 16)


def scalars(v):
    if isinstance(v, dict):
        for x in v.values():
            yield from scalars(x)
    elif isinstance(v, (list, tuple)):
        for x in v:
            yield from scalars(x)
    elif v is not None:
        yield v


def clear_text(x):
    return str(x) if not isinstance(x, str) else x


def redact_task(item):
    u = universe(TIER[0])
    rd = u.rd
    oc = collections.Counter()
    out_v = []
    n = 0
    kw = {}
    info = {}
    for fname, ttext, kind, rx, placement in u.rfields:
        kw[fname] = value_for(u, fname)
        info[fname] = (ttext, kind, rx, placement)
    for nm, ctor, kind, rx in REDACTORS:
        kw['b_%s' % nm.lower()] = sentinel_for('b' + nm)
        info['b_%s' % nm.lower()] = ('String', kind, rx, 'inherited')
        kw['pt_%s' % nm.lower()] = sentinel_for('pt' + nm)
        info['pt_%s' % nm.lower()] = ('String', kind, rx, 'patched')
    kw['m_plain'] = 'CLEAR-m-plain'
    kw['both'] = sentinel_for('both')
    info['both'] = ('String', 'blot', None, 'omitted+redacted')
    holder = rd.RHold(**kw)

    def check_holder(doc, text, redact, where, perms):
        for fname, (ttext, kind, rx, placement) in info.items():
            if fname == 'both' and 'alpha' not in perms:
                if sentinel_for('both') in text:
                    out_v.append(viol('omitted-leak:redacted-field', 'field both (omitted for alpha) appears for %r' % (perms,), {'where': where}))
                continue
            val = kw[fname]
            for sc in scalars(val):
                ct = clear_text(sc)
                if redact:
                    if ct in text:
                        oc['redaction-leak'] += 1
                        out_v.append(viol('redaction-leak:%s:%s:%s' % (placement, kind + ('/regex' if rx else ''), rtbase.shape_kind(ttext)),
                                          'clear value %r of redacted field %s (%s, %s) appears in the output (%s)' % (sc, fname, ttext, placement, where),
                                          {'field': fname, 'type': ttext, 'placement': placement, 'where': where, 'permissions': perms}, text[:300]))
                    else:
                        oc['redacted-ok'] += 1
                else:
                    if ct not in text:
                        oc['clear-missing'] += 1
                        out_v.append(viol('unredacted-value-changed:%s:%s' % (placement, rtbase.shape_kind(ttext)),
                                          'value %r of field %s is not in the output although redaction is off (%s)' % (sc, fname, where),
                                          {'field': fname, 'type': ttext, 'where': where}, text[:300]))
                    else:
                        oc['clear-ok'] += 1
            # exact mask for scalar / one-level positions
            if redact and isinstance(doc, dict) and fname in doc:
                got = doc[fname]
                exp = None
                if not isinstance(val, (list, dict)):
                    exp = expected_mask(kind, rx, val)
                elif isinstance(val, list) and all(not isinstance(x, (list, dict)) and x is not None for x in val) and placement == 'own':
                    exp = [expected_mask(kind, rx, x) for x in val]
                elif isinstance(val, dict) and all(not isinstance(x, (list, dict)) and x is not None for x in val.values()) and placement == 'own':
                    exp = {k_: expected_mask(kind, rx, x) for k_, x in val.items()}
                if exp is not None and got != exp:
                    oc['mask-differs'] += 1
                    out_v.append(viol('redaction-mask:%s:%s:%s' % (placement, kind + ('/regex' if rx else ''), rtbase.shape_kind(ttext)),
                                      'redacted field %s holds %r, expected %r' % (fname, got, exp), {'field': fname, 'type': ttext, 'where': where}, repr(got), repr(exp)))

    for perms in subsets(['alpha']):
        cp = u.CP(perms)
        for redact in (True, False):
            for enc_name in ('json_compat_obj_encode', 'json_encode'):
                n += 1
                where = '%s redact=%s perms=%r' % (enc_name, redact, perms)
                try:
                    res = getattr(u.ss, enc_name)(rd.RHold_validator, holder, caller_permissions=cp, should_redact=redact)
                except Exception as e:  # noqa
                    out_v.append(viol('redact-encode-raised:%s' % rtbase.runtime_identity(e, 'x'), 'encoding the holder raised %r (%s)' % (e, where), {'where': where}, repr(e)))
                    continue
                text = res if isinstance(res, str) else json.dumps(res)
                check_holder(json.loads(text), text, redact, where, perms)
                # the same holder reached through a union member, a list, a subtype leaf, a map
                outer = rd.Outer(u=rd.UnionR.member(holder), ul=[rd.UnionR.member(holder), rd.UnionR.clear('CLEAR-x')],
                                 tree=rd.RLeaf(rt=sentinel_for('rt'), rl=sentinel_for('rl'), rlist=[holder]),
                                 m={'k': rd.Mid(m_plain='CLEAR-mid', **{'b_%s' % nm.lower(): sentinel_for('mb' + nm) for nm, _, _, _ in REDACTORS})})
                try:
                    res2 = getattr(u.ss, enc_name)(rd.Outer_validator, outer, caller_permissions=cp, should_redact=redact)
                except Exception as e:  # noqa
                    out_v.append(viol('redact-encode-raised:%s' % rtbase.runtime_identity(e, 'x'), 'encoding the outer struct raised %r (%s)' % (e, where), {'where': where}, repr(e)))
                    continue
                text2 = res2 if isinstance(res2, str) else json.dumps(res2)
                check_holder(None, text2, redact, where + ' via union member/list/subtype leaf', perms)
                for s_ in [sentinel_for('rt'), sentinel_for('rl')] + [sentinel_for('mb' + nm) for nm, _, _, _ in REDACTORS]:
                    if redact and s_ in text2:
                        out_v.append(viol('redaction-leak:nested-struct', 'clear value %r appears in the output of Outer (%s)' % (s_, where), {'where': where}, text2[:300]))
                    if not redact and s_ not in text2:
                        out_v.append(viol('unredacted-value-changed:nested-struct', 'value %r missing with redaction off (%s)' % (s_, where), {'where': where}))
    # union tags with redactors
    for cname in ('UnionR', 'UnionRChild'):
        cls = getattr(rd, cname)
        validator = getattr(rd, cname + '_validator')
        for nm, ctor, kind, rx in REDACTORS:
            low = nm.lower()
            for tag, val in [('t_' + low, sentinel_for('t' + nm)), ('tn_' + low, sentinel_for('tn' + nm)), ('tl_' + low, [sentinel_for('tl' + nm), sentinel_for('tl' + nm, 1)]),
                             ('ta_' + low, sentinel_for('ta' + nm))] + ([('extra', sentinel_for('extra'))] if cname == 'UnionRChild' and nm == 'Rb' else []):
                inst = getattr(cls, tag)(val)
                for redact in (True, False):
                    for enc_name in ('json_compat_obj_encode', 'json_encode'):
                        n += 1
                        where = '%s.%s %s redact=%s' % (cname, tag, enc_name, redact)
                        try:
                            res = getattr(u.ss, enc_name)(validator, inst, should_redact=redact)
                        except Exception as e:  # noqa
                            out_v.append(viol('redact-encode-raised:union:%s' % type(e).__name__, 'encoding %s raised %r' % (where, e), {'where': where}))
                            continue
                        text = res if isinstance(res, str) else json.dumps(res)
                        for sc in scalars(val):
                            if redact and sc in text:
                                oc['redaction-leak'] += 1
                                out_v.append(viol('redaction-leak:union-tag:%s:%s' % ('inherited' if cname == 'UnionRChild' and tag != 'extra' else 'own',
                                                                                  tag.split('_')[0] + ':' + kind + ('/regex' if rx else '')),
                                                  'clear value %r of redacted tag %s appears in the output: %s' % (sc, where, text[:200]), {'where': where}, text[:300]))
                            elif not redact and sc not in text:
                                out_v.append(viol('unredacted-value-changed:union-tag', 'value %r missing with redaction off (%s)' % (sc, where), {'where': where}))
                            else:
                                oc['union-ok'] += 1
                        if redact and not isinstance(val, list):
                            doc = json.loads(text)
                            exp = expected_mask(kind if tag != 'extra' else 'blot', rx if tag != 'extra' else None, val)
                            if doc.get(tag) != exp:
                                oc['mask-differs'] += 1
                                out_v.append(viol('redaction-mask:union-tag:%s' % (kind + ('/regex' if rx else '')), 'redacted tag %s holds %r, expected %r' % (where, doc.get(tag), exp), {'where': where}))
    return {'outcome': oc, 'viol': out_v, 'n': n, 'transitions': n}


def task(item):
    if item[0] == 'chain':
        return omit_chain_task(item)
    if item[0] == 'unions':
        return omit_union_task(item)
    return redact_task(item)


def run(tier, seed):
    TIER[0] = tier
    r = explore.Run(PROP, tier, seed)
    try:
        u = universe(tier)
    except rtbase.UniverseError as e:
        rtbase.universe_failure(r, PROP, e)
        return r.finish('universe could not be built')
    items = [('chain', i) for i in range(len(u.chains))] + [('unions', 0), ('redact', 0)]
    r.bounds.update({'inheritance_depth': 3 if tier == 'quick' else 4, 'chains': len(u.chains), 'callers': CALLERS,
                     'permission_subsets': 2 ** len(CALLERS), 'redactors': [x[1] for x in REDACTORS],
                     'redacted_field_types': [t for _, t in FIELD_TYPES], 'alias_uses': [p for _, p in ALIAS_USES],
                     'redacted_placements': len(u.rfields)})
    r.sample({'chain': u.chains[5][2], 'callers': CALLERS})
    r.sample({'redacted_fields': u.rfields[:6]})
    r.run_tasks(task, items, budget=300, chunksize=1)
    r.assumptions = ['visibility/redaction model from docs/lang_ref.rst "Annotations"', 'exact mask is judged for scalar and one-level own positions; '
                     'for deeper nesting only the absence of the clear text is judged']
    r.finish('complete product of omission patterns over inheritance chains x every permission subset x both encoders + strict decoding; '
             'omitted tags over a union chain; omitted fields through containers, union members and subtype trees; every redactor kind x '
             'every eligible field shape / alias use / inherited / patched / union-tag placement x redaction on/off')


def replay(rep):
    print('C13 findings are re-evaluated by re-running the check (placements are packed): ./check C13')
    TIER[0] = 'quick'
    u = universe('quick')
    bad = []
    for it in [('chain', i) for i in range(len(u.chains))] + [('unions', 0), ('redact', 0)]:
        for v in task(it)['viol']:
            if v['id'] == rep['identity']:
                bad.append(v)
    if bad:
        print('VIOLATION property=%s replay=replayed' % PROP)
        return 1
    return 0
