"""Shared driver code for the generated-Python runtime checks (C04, C05, C06, C08)."""
import json

from mc import explore, impl, rt
from mc.explore import viol
from stone.ir import data_types as dt

POSITIONS = ('field', 'tag', 'alias', 'route')
_U = {}


class Universe:
    def __init__(self, tier):
        self.tier = tier
        self.specs, self.shapes = rt.universe(tier)
        out = impl.compile_specs(self.specs)
        if out.kind != 'ok':
            raise UniverseError('compile', out.brief(), self.specs)
        self.api = out.api
        pkg, fail = impl.build_python_package(self.api)
        if pkg is None:
            raise UniverseError('generate', fail.identity + '\n' + (fail.tb or ''), self.specs)
        self.pkg = pkg
        try:
            self.na = pkg.mod('na')
            self.nb = pkg.mod('nb')
        except Exception as e:  # noqa
            import traceback
            raise UniverseError('import', traceback.format_exc()[-2000:], self.specs)
        self.ss = pkg.ss
        self.bv = pkg.bv
        na = self.api.namespaces['na']
        self.H = na.data_type_by_name['Holder']
        self.HU = na.data_type_by_name['HolderU']

    def ir_type(self, pos, i):
        na = self.api.namespaces['na']
        if pos == 'field':
            return self.H.fields[i].data_type
        if pos == 'tag':
            return self.HU.fields[i].data_type
        if pos == 'alias':
            return na.alias_by_name['Z%d' % i].data_type
        return na.routes_by_name['r%d' % i].at_version[1].arg_data_type

    def validator(self, pos, i):
        if pos == 'field':
            return getattr(self.na.Holder, 'f%d' % i).validator
        if pos == 'tag':
            return self.na.HolderU._tagmap['t%d' % i]
        if pos == 'alias':
            return getattr(self.na, 'Z%d_validator' % i)
        return getattr(self.na, 'r%d' % i).arg_type


class UniverseError(Exception):
    def __init__(self, phase, detail, specs):
        Exception.__init__(self, phase)
        self.phase, self.detail, self.specs = phase, detail, specs


def universe(tier):
    if tier not in _U:
        _U[tier] = Universe(tier)
    return _U[tier]


def items(tier):
    u = universe(tier)
    return [(pos, i) for pos in POSITIONS for i in range(len(u.shapes))]


def json_equal(a, b):
    """Equality of parsed JSON values: key order ignored, bool distinct from numbers, int == float when equal."""
    if isinstance(a, bool) or isinstance(b, bool):
        return isinstance(a, bool) and isinstance(b, bool) and a == b
    if isinstance(a, (int, float)) and isinstance(b, (int, float)):
        return a == b
    if isinstance(a, dict) and isinstance(b, dict):
        return a.keys() == b.keys() and all(json_equal(a[k], b[k]) for k in a)
    if isinstance(a, (list, tuple)) and isinstance(b, (list, tuple)):
        return len(a) == len(b) and all(json_equal(x, y) for x, y in zip(a, b))
    return type(a) is type(b) and a == b


def runtime_identity(e, prefix):
    import traceback
    inner = None
    for fs, _ in traceback.walk_tb(e.__traceback__):
        fn = fs.f_code.co_filename
        if '/stone/' in fn and '/verif/' not in fn:
            inner = '%s.%s' % (fn.split('/stone/', 1)[1].rsplit('.', 1)[0].replace('/', '.'), getattr(fs.f_code, 'co_qualname', fs.f_code.co_name))
    return '%s:%s@%s' % (prefix, type(e).__name__, inner)


def shape_kind(shape):
    """Coarse class of a shape string for finding identities: wrappers kept, leaf generalised."""
    import re
    s = re.sub(r'\([^()]*=[^()]*\)', '(..)', shape)
    s = re.sub(r'"[^"]*"', '".."', s)
    return s


def universe_failure(run, prop, e):
    """The generated module cannot be loaded: a violation of the property whose observation point is the generated code."""
    run.absorb(0, {'outcome': 'universe-' + e.phase, 'viol': [viol('universe:%s' % e.phase,
               'the packed universe spec could not be %sd: %s' % (e.phase, e.detail[-600:]), {'specs': e.specs}, e.detail)]})


def json_kind(doc):
    """Coarse kind of a JSON document, used only to label outcome classes (vacuity indicator)."""
    if isinstance(doc, dict):
        return 'tagged-object' if '.tag' in doc else 'object'
    if isinstance(doc, (list, tuple)):
        return 'array'
    if doc is None:
        return 'null'
    if isinstance(doc, bool):
        return 'boolean'
    if isinstance(doc, (int, float)):
        return 'number'
    return 'string'
