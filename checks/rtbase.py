"""Shared driver code for the generated-Python runtime checks (C04, C05, C06, C08)."""
import collections
import json

from mc import explore, impl, rt
from mc.explore import viol
from stone.ir import data_types as dt

POSITIONS = ('field', 'tag', 'alias', 'route', 'sfield', 'utag')
_U = {}


class Universe:
    def __init__(self, tier):
        self.tier = tier
        self.specs, self.shapes = rt.universe(tier)
        out = impl.compile_specs(self.specs)
        if out.kind != 'ok':
            raise UniverseError('compile', out.brief(), self.specs)
        self.api = out.api
        pkg, fail = impl.build_python_package(self.api)
        if pkg is None:
            raise UniverseError('generate', fail.identity + '\n' + (fail.tb or ''), self.specs)
        self.pkg = pkg
        try:
            self.na = pkg.mod('na')
            self.nb = pkg.mod('nb')
        except Exception as e:  # noqa
            import traceback
            raise UniverseError('import', traceback.format_exc()[-2000:], self.specs)
        self.ss = pkg.ss
        self.bv = pkg.bv
        na = self.api.namespaces['na']
        self.H = na.data_type_by_name['Holder']
        self.HU = na.data_type_by_name['HolderU']

    def ir_type(self, pos, i):
        na = self.api.namespaces['na']
        if pos == 'field':
            return self.H.fields[i].data_type
        if pos == 'tag':
            return self.HU.fields[i].data_type
        if pos == 'alias':
            return na.alias_by_name['Z%d' % i].data_type
        if pos == 'sfield':
            return na.data_type_by_name['Hf%d' % i]
        if pos == 'utag':
            return na.data_type_by_name['Ht%d' % i]
        return na.routes_by_name['r%d' % i].at_version[1].arg_data_type

    def validator(self, pos, i):
        if pos == 'field':
            return getattr(self.na.Holder, 'f%d' % i).validator
        if pos == 'tag':
            return self.na.HolderU._tagmap['t%d' % i]
        if pos == 'alias':
            return getattr(self.na, 'Z%d_validator' % i)
        if pos == 'sfield':
            return getattr(self.na, 'Hf%d_validator' % i)
        if pos == 'utag':
            return getattr(self.na, 'Ht%d_validator' % i)
        return getattr(self.na, 'r%d' % i).arg_type


class UniverseError(Exception):
    def __init__(self, phase, detail, specs):
        Exception.__init__(self, phase)
        self.phase, self.detail, self.specs = phase, detail, specs


def universe(tier):
    if tier not in _U:
        _U[tier] = Universe(tier)
    return _U[tier]


def items(tier):
    u = universe(tier)
    return [(pos, i) for pos in POSITIONS for i in range(len(u.shapes))]


def user_shape_indices(tier):
    """Indices of the shapes that are a bare reference to a struct or union (directly or through an alias)."""
    u = universe(tier)
    out = []
    for i, s in enumerate(u.shapes):
        if '(' in s or '?' in s:
            continue
        t = rt.unalias(u.ir_type('alias', i))
        if isinstance(t, dt.Nullable):
            t = rt.unalias(t.data_type)
        if isinstance(t, (dt.Struct, dt.Union)):
            out.append(i)
    return out


def history_items(tier):
    """History layer: ordered pairs (A, B) of user-type shapes.  The check's operations on A run first, then those on B, in a
    process forked from the pristine parent (explore.pmap fresh=True), so that every (first, second) order of two user types is
    observed with nothing else before it.  The oracle is unchanged: the reference never depends on history."""
    idx = user_shape_indices(tier)
    pairs = [(a, b) for a in idx for b in idx if a != b]
    if tier == 'quick':
        # quick: the ordered pairs of RELATED types (same inheritance family, one contains the other, or the same type under an
        # alias) - the pairs that can share class-level state through the MRO or a validator object; thorough: every ordered pair
        u = universe(tier)
        pairs = [(a, b) for a, b in pairs if _related(u, a, b)]
    return [('history', a, b) for a, b in pairs]


def _family(t):
    while getattr(t, 'parent_type', None) is not None:
        t = t.parent_type
    return t


def _members(t):
    """User types mentioned by the fields / tags / subtypes of t and of its ancestors (through wrappers and aliases)."""
    out = set()
    cur = t
    while cur is not None:
        fields = list(cur.fields)
        if isinstance(cur, dt.Struct) and cur.has_enumerated_subtypes():
            fields += list(cur.get_enumerated_subtypes())
        for f in fields:
            x = f.data_type
            while True:
                if isinstance(x, (dt.Alias, dt.Nullable, dt.List)):
                    x = x.data_type
                elif isinstance(x, dt.Map):
                    x = x.value_data_type
                else:
                    break
            if isinstance(x, (dt.Struct, dt.Union)):
                out.add(x)
        cur = cur.parent_type
    return out


def _related(u, a, b):
    ta, tb = rt.unalias(u.ir_type('alias', a)), rt.unalias(u.ir_type('alias', b))
    if isinstance(ta, dt.Nullable):
        ta = rt.unalias(ta.data_type)
    if isinstance(tb, dt.Nullable):
        tb = rt.unalias(tb.data_type)
    return ta is tb or ta.name == tb.name or _family(ta) is _family(tb) or ta in _members(tb) or tb in _members(ta)


def history_task(body, item, tier):
    """Run body(('alias', a)) then body(('alias', b)); violations of the second run carry the history in their inputs."""
    _, a, b = item
    u = universe(tier)
    r1 = body(('alias', a))
    r2 = body(('alias', b))
    for v in r2.get('viol', ()):
        if isinstance(v.get('inputs'), dict):
            v['inputs']['history'] = u.shapes[a]
        v['what'] += ' [history: the same operations on %s ran first in this process]' % u.shapes[a]
    oc = collections.Counter()
    for r in (r1, r2):
        o = r.get('outcome')
        if isinstance(o, dict):
            oc.update({'h:' + k: c for k, c in o.items()})
        elif o is not None:
            oc['h:' + str(o)] += 1
    return {'outcome': oc, 'viol': list(r1.get('viol', ())) + list(r2.get('viol', ())), 'n': r1.get('n', 1) + r2.get('n', 1),
            'transitions': r1.get('transitions', 0) + r2.get('transitions', 0)}


def json_equal(a, b):
    """Equality of parsed JSON values: key order ignored, bool distinct from numbers, int == float when equal."""
    if isinstance(a, bool) or isinstance(b, bool):
        return isinstance(a, bool) and isinstance(b, bool) and a == b
    if isinstance(a, (int, float)) and isinstance(b, (int, float)):
        return a == b
    if isinstance(a, dict) and isinstance(b, dict):
        return a.keys() == b.keys() and all(json_equal(a[k], b[k]) for k in a)
    if isinstance(a, (list, tuple)) and isinstance(b, (list, tuple)):
        return len(a) == len(b) and all(json_equal(x, y) for x, y in zip(a, b))
    return type(a) is type(b) and a == b


def runtime_identity(e, prefix):
    import traceback
    inner = None
    for fs, _ in traceback.walk_tb(e.__traceback__):
        fn = fs.f_code.co_filename
        if '/stone/' in fn and '/verif/' not in fn:
            inner = '%s.%s' % (fn.split('/stone/', 1)[1].rsplit('.', 1)[0].replace('/', '.'), getattr(fs.f_code, 'co_qualname', fs.f_code.co_name))
    return '%s:%s@%s' % (prefix, type(e).__name__, inner)


def shape_kind(shape):
    """Coarse class of a shape string for finding identities: wrappers kept, leaf generalised."""
    import re
    s = re.sub(r'\([^()]*=[^()]*\)', '(..)', shape)
    s = re.sub(r'"[^"]*"', '".."', s)
    return s


def universe_failure(run, prop, e):
    """The generated module cannot be loaded: a violation of the property whose observation point is the generated code."""
    run.absorb(0, {'outcome': 'universe-' + e.phase, 'viol': [viol('universe:%s' % e.phase,
               'the packed universe spec could not be %sd: %s' % (e.phase, e.detail[-600:]), {'specs': e.specs}, e.detail)]})


def json_kind(doc):
    """Coarse kind of a JSON document, used only to label outcome classes (vacuity indicator)."""
    if isinstance(doc, dict):
        return 'tagged-object' if '.tag' in doc else 'object'
    if isinstance(doc, (list, tuple)):
        return 'array'
    if doc is None:
        return 'null'
    if isinstance(doc, bool):
        return 'boolean'
    if isinstance(doc, (int, float)):
        return 'number'
    return 'string'


# ---------------------------------------------------------------------------
# identifiers that are not lower_case_with_underscores
#
# The language accepts any identifier as a field or tag name; the serializer specification keys structs by field name and
# unions by tag name.  How the Python attribute of such a member is spelled is not documented, so the probe looks the
# attribute up under the spec name first and under the underscore form second, and judges only the wire side.

NAME_CASE_SPEC = '''namespace nc

struct NameCase
    fooBar Int32
    Baz String?
    x1 Int32 = 1
    a_b Boolean?

union NameCaseU
    fooBar Int32
    Xy
    z_9 String?

struct HoldsNames
    inner NameCase
    choice NameCaseU
'''


def _under(name):
    import re
    s = re.sub(r'([a-z0-9])([A-Z])', r'\1_\2', name)
    return s.lower()


def name_case_probe():
    """Returns a list of (kind, what, inputs) observations that contradict the wire format / round trip for mixed-case names."""
    out = impl.compile_specs([('nc.stone', NAME_CASE_SPEC)])
    if out.kind != 'ok':
        raise explore.InternalError('name-case spec not accepted: ' + out.brief())
    pkg, fail = impl.build_python_package(out.api)
    if pkg is None:
        return [('generate', 'python_types fails on mixed-case names: %s' % fail.identity, {'spec': NAME_CASE_SPEC})]
    res = []
    try:
        try:
            m = pkg.mod('nc')
        except Exception as e:  # noqa
            return [('import', 'module with mixed-case names does not import: %r' % (e,), {'spec': NAME_CASE_SPEC})]
        ss = pkg.ss

        def attr(cls, name):
            for cand in (name, _under(name)):
                if hasattr(cls, cand):
                    return cand
            return None
        inst = m.NameCase()
        for fname, val in (('fooBar', 7), ('Baz', 'b'), ('a_b', True)):
            a = attr(m.NameCase, fname)
            if a is None:
                res.append(('attribute', 'class NameCase has no attribute for field %s' % fname, {'spec': NAME_CASE_SPEC}))
                return res
            setattr(inst, a, val)
        wire = {'fooBar': 7, 'Baz': 'b', 'a_b': True}          # x1 is not set: fields at their default are omitted
        want = dict(wire, x1=1)
        try:
            enc = json.loads(ss.json_encode(m.NameCase_validator, inst))
        except Exception as e:  # noqa
            enc = 'raised %r' % (e,)
        inputs = {'spec': NAME_CASE_SPEC, 'type': 'NameCase', 'value': want}
        if enc != wire:
            res.append(('wire:struct-keys', 'struct with mixed-case field names encodes as %s, the wire format is %s' % (json.dumps(enc), json.dumps(wire)), inputs))
        for strict in (True, False):
            try:
                dec = ss.json_decode(m.NameCase_validator, json.dumps(wire), strict=strict)
                back = {k: getattr(dec, attr(m.NameCase, k)) for k in want}
                if back != want:
                    res.append(('decode:struct', 'reference encoding decodes (%s) to %r' % ('strict' if strict else 'lenient', back), inputs))
            except Exception as e:  # noqa
                res.append(('decode:struct', 'reference encoding %s refused (%s): %s' % (json.dumps(wire), 'strict' if strict else 'lenient', e), inputs))
            if not isinstance(enc, str):
                try:
                    dec2 = ss.json_decode(m.NameCase_validator, json.dumps(enc), strict=strict)
                    if dec2 != inst:
                        res.append(('roundtrip:struct', 'decode(encode(v)) != v (%s)' % ('strict' if strict else 'lenient'), inputs))
                except Exception as e:  # noqa
                    res.append(('roundtrip:struct', 'own encoding %s refused (%s): %s' % (json.dumps(enc), 'strict' if strict else 'lenient', e), inputs))
        for tag, val, wantu in (('fooBar', 3, {'.tag': 'fooBar', 'fooBar': 3}), ('Xy', None, {'.tag': 'Xy'}), ('z_9', 's', {'.tag': 'z_9', 'z_9': 's'})):
            a = attr(m.NameCaseU, tag)
            inputs = {'spec': NAME_CASE_SPEC, 'type': 'NameCaseU', 'value': wantu}
            if a is None:
                res.append(('attribute', 'class NameCaseU has no attribute for tag %s' % tag, inputs))
                continue
            u = getattr(m.NameCaseU, a) if val is None else getattr(m.NameCaseU, a)(val)
            try:
                encu = json.loads(ss.json_encode(m.NameCaseU_validator, u))
            except Exception as e:  # noqa
                encu = 'raised %r' % (e,)
            if encu != wantu:
                res.append(('wire:union-tag', 'union with mixed-case tag names encodes as %s, the wire format is %s' % (json.dumps(encu), json.dumps(wantu)), inputs))
            for strict in (True, False):
                try:
                    decu = ss.json_decode(m.NameCaseU_validator, json.dumps(wantu), strict=strict)
                    if decu != u:
                        res.append(('decode:union', 'reference encoding %s decodes (%s) to %r' % (json.dumps(wantu), 'strict' if strict else 'lenient', decu), inputs))
                except Exception as e:  # noqa
                    res.append(('decode:union', 'reference encoding %s refused (%s): %s' % (json.dumps(wantu), 'strict' if strict else 'lenient', e), inputs))
                if not isinstance(encu, str):
                    try:
                        if ss.json_decode(m.NameCaseU_validator, json.dumps(encu), strict=strict) != u:
                            res.append(('roundtrip:union', 'decode(encode(v)) != v for tag %s (%s)' % (tag, 'strict' if strict else 'lenient'), inputs))
                    except Exception as e:  # noqa
                        res.append(('roundtrip:union', 'own encoding %s refused (%s): %s' % (json.dumps(encu), 'strict' if strict else 'lenient', e), inputs))
    finally:
        pkg.close()
    return res


def name_case_task(prefixes):
    """Task body for the checks: violations for the observation kinds that start with one of `prefixes`."""
    obs = name_case_probe()
    v = [viol('mixed-case-names:' + k, w, i) for k, w, i in obs if k.startswith(tuple(prefixes)) or k in ('generate', 'import', 'attribute')]
    return {'outcome': 'mixed-case-names:%s' % ('differs' if v else 'same'), 'viol': v, 'n': 1, 'transitions': 1}
