"""C15 - Python type stubs describe exactly what the generated modules define.

For every model of the codegen universe (the C01 family-pair exploration): the python_type_stubs output is parsed with
`ast` (must parse) and compared, namespace by namespace, with the imported python_types module: classes, field
attributes, void-tag attributes, tag helpers, validators, alias names, route objects, base classes, constructor
parameters; every annotation is compared with an independent Stone -> PEP 484 mapping computed from the model; every
name used in an annotation must be imported or defined in the stub.
"""
import ast
import collections
import inspect
import os
import shutil

from mc import explore, render, impl, refsem
from mc import model as mm
from mc.model import P, L, M, N, R, NODEF, Struct, Union, Alias, Route
from mc.explore import viol
from checks import c01, c09

PROP = 'C15'

PRIM_PEP = {'String': 'Text', 'Bytes': 'bytes', 'Int32': 'int', 'Int64': 'int', 'UInt32': 'int', 'UInt64': 'int', 'Float32': 'float',
            'Float64': 'float', 'Boolean': 'bool', 'Timestamp': 'datetime.datetime', 'Void': 'None'}


def pep484(model, ns_name, t, home_ns):
    """Independent Stone -> PEP 484 mapping; names of other namespaces are prefixed by the namespace module."""
    if isinstance(t, P):
        return PRIM_PEP[t.kind]
    if isinstance(t, L):
        return 'List[%s]' % pep484(model, ns_name, t.item, home_ns)
    if isinstance(t, M):
        return 'Dict[Text, %s]' % pep484(model, ns_name, t.value, home_ns)
    if isinstance(t, N):
        return 'Optional[%s]' % pep484(model, ns_name, t.inner, home_ns)
    if isinstance(t, R):
        tns, d = mm.resolve(model, ns_name, t)
        if isinstance(d, Alias):
            return pep484(model, tns, d.type, home_ns)
        return d.name if tns == home_ns else '%s.%s' % (tns, d.name)
    raise TypeError(t)


def norm(s):
    return s.replace(' ', '').replace('typing.', '')


def unparse(node):
    return norm(ast.unparse(node))


def names_in(node):
    out = set()
    for n in ast.walk(node):
        if isinstance(n, ast.Name):
            out.add(n.id)
    # only the base of dotted names counts
    return out


def compare_namespace(model, nsn, tree, mod, pkg, mods):
    bad = []
    bb = pkg.bb
    defined = set()
    imported = set()
    classes = {}
    mod_ann = {}
    mod_assign = {}
    for node in tree.body:
        if isinstance(node, ast.ImportFrom):
            for a in node.names:
                imported.add(a.asname or a.name)
        elif isinstance(node, ast.Import):
            for a in node.names:
                imported.add((a.asname or a.name).split('.')[0])
        elif isinstance(node, ast.ClassDef):
            classes[node.name] = node
            defined.add(node.name)
        elif isinstance(node, ast.AnnAssign) and isinstance(node.target, ast.Name):
            mod_ann[node.target.id] = node
            defined.add(node.target.id)
        elif isinstance(node, ast.Assign):
            for tg in node.targets:
                if isinstance(tg, ast.Name):
                    mod_assign[tg.id] = node
                    defined.add(tg.id)
    known = defined | imported | {'None', 'bool', 'int', 'float', 'bytes', 'object', 'str'}

    def check_names(node, where):
        for nm in names_in(node):
            if nm not in known:
                bad.append(('undefined-name:%s' % nm if nm in ('datetime', 'List', 'Dict', 'Optional', 'Text', 'Callable', 'Type', 'TypeVar') else 'undefined-name',
                            'name %r used in %s of stub %s is neither imported nor defined' % (nm, where, nsn)))

    # runtime inventory
    rt_classes = {n: v for n, v in vars(mod).items() if inspect.isclass(v) and v.__module__ == mod.__name__ and v.__name__ == n}
    rt_class_aliases = {n: v for n, v in vars(mod).items() if inspect.isclass(v) and not n.startswith('_') and (v.__module__ != mod.__name__ or v.__name__ != n)
                        and issubclass(v, (bb.Struct, bb.Union))}
    rt_validators = {n for n in vars(mod) if n.endswith('_validator')}
    rt_routes = {n for n, v in vars(mod).items() if isinstance(v, bb.Route)}
    st_validators = {n for n in mod_ann if n.endswith('_validator')}
    st_routes = {n for n, node in mod_ann.items() if unparse(node.annotation) == 'bb.Route'}
    if set(classes) != set(rt_classes):
        bad.append(('classes-differ', 'stub %s declares classes %r, the module defines %r' % (nsn, sorted(classes), sorted(rt_classes))))
    if st_validators != rt_validators:
        bad.append(('validators-differ', 'stub %s declares validators %r, the module defines %r' % (nsn, sorted(st_validators), sorted(rt_validators))))
    if st_routes != rt_routes:
        bad.append(('routes-differ', 'stub %s declares routes %r, the module defines %r' % (nsn, sorted(st_routes), sorted(rt_routes))))
    st_aliases = {n for n, node in mod_assign.items() if n not in ('T', 'U') and isinstance(node.value, (ast.Name, ast.Attribute))}
    if st_aliases != set(rt_class_aliases):
        bad.append(('class-aliases-differ', 'stub %s declares class aliases %r, the module defines %r' % (nsn, sorted(st_aliases), sorted(rt_class_aliases))))

    # name resolution for the classes that are not structs or unions of the spec (annotation types): every annotation of every
    # method, attribute and base must resolve
    model_types = {d.name for n, fi, di, d in mm.all_defs(model, nsn) if isinstance(d, (Struct, Union))}
    for cname, cnode in classes.items():
        if cname in model_types:
            continue
        for b in cnode.bases:
            check_names(b, 'the bases of %s' % cname)
        for item in cnode.body:
            if isinstance(item, ast.AnnAssign):
                check_names(item.annotation, 'attribute %s.%s' % (cname, getattr(item.target, 'id', '?')))
            elif isinstance(item, ast.FunctionDef):
                for a in item.args.args + item.args.kwonlyargs:
                    if a.annotation is not None:
                        check_names(a.annotation, '%s.%s' % (cname, item.name))
                if item.returns is not None:
                    check_names(item.returns, '%s.%s' % (cname, item.name))
    for n, fi, di, d in mm.all_defs(model, nsn):
        if not isinstance(d, (Struct, Union)) or d.name not in classes or d.name not in rt_classes:
            continue
        node, cls = classes[d.name], rt_classes[d.name]
        kind = 'struct' if isinstance(d, Struct) else 'union'
        # bases
        st_bases = [unparse(b) for b in node.bases]
        rt_bases = []
        for b in cls.__bases__:
            if b is bb.Struct:
                rt_bases.append('bb.Struct')
            elif b is bb.Union:
                rt_bases.append('bb.Union')
            else:
                bm = b.__module__.rsplit('.', 1)[-1]
                rt_bases.append(b.__name__ if bm == nsn else '%s.%s' % (bm, b.__name__))
        if st_bases != rt_bases:
            bad.append(('bases-differ:%s' % kind, 'stub class %s.%s has bases %r, the runtime class %r' % (nsn, d.name, st_bases, rt_bases)))
        for b in node.bases:
            check_names(b, 'the bases of %s' % d.name)
        st_attrs, st_methods = {}, {}
        for item in node.body:
            if isinstance(item, ast.AnnAssign) and isinstance(item.target, ast.Name):
                st_attrs[item.target.id] = item
            elif isinstance(item, ast.FunctionDef):
                st_methods[item.name] = item
        rt_methods = {k for k, v in vars(cls).items() if (inspect.isfunction(v) or isinstance(v, (classmethod, staticmethod, property)))
                      and (not k.startswith('_') or k in ('__init__', '_process_custom_annotations') or k in st_methods)}
        if set(st_methods) != rt_methods:
            bad.append(('methods-differ:%s' % kind, 'stub class %s.%s declares methods %r, the runtime class defines %r' % (
                nsn, d.name, sorted(st_methods), sorted(rt_methods))))
        for m_ in st_methods.values():
            for a in m_.args.args + m_.args.kwonlyargs:
                if a.annotation is not None:
                    check_names(a.annotation, '%s.%s' % (d.name, m_.name))
            if m_.returns is not None:
                check_names(m_.returns, '%s.%s' % (d.name, m_.name))
        for a_ in st_attrs.values():
            check_names(a_.annotation, 'attribute %s.%s' % (d.name, a_.target.id))
        if isinstance(d, Struct):
            chain = list(reversed(mm.struct_chain(model, nsn, d)))
            all_fields = [(cns, f) for cns, cs in chain for f in mm.own_members(model, cns, cs)]
            rt_attrs = {k for k in dir(cls) if isinstance(inspect.getattr_static(cls, k, None), bb.Attribute)}
            if set(st_attrs) != rt_attrs:
                bad.append(('attributes-differ:struct', 'stub class %s.%s declares attributes %r, the runtime class has %r' % (nsn, d.name, sorted(st_attrs), sorted(rt_attrs))))
            # constructor parameters
            if '__init__' in st_methods:
                st_params = [a.arg for a in st_methods['__init__'].args.args if a.arg != 'self']
                try:
                    rt_params = [p for p in inspect.signature(cls.__init__).parameters if p != 'self']
                except Exception:
                    rt_params = None
                if rt_params is not None and st_params != rt_params:
                    bad.append(('ctor-params-differ', '__init__ of %s.%s: stub %r, runtime %r' % (nsn, d.name, st_params, rt_params)))
                ann = {a.arg: a.annotation for a in st_methods['__init__'].args.args if a.arg != 'self'}
            else:
                ann = {}
            for cns, f in all_fields:
                base_t = pep484(model, cns, f.type, nsn)
                nullable = mm.is_nullable(model, cns, f.type)
                optional = nullable or f.default != NODEF
                if f.name in st_attrs:
                    exp = 'bb.Attribute[%s]' % base_t
                    got = unparse(st_attrs[f.name].annotation)
                    if got != norm(exp):
                        bad.append(('annotation:attribute:%s' % type(f.type).__name__, 'attribute %s.%s.%s is annotated %s, expected %s' % (nsn, d.name, f.name, got, norm(exp))))
                if f.name in ann and ann[f.name] is not None:
                    exp = base_t if not optional else (base_t if base_t.startswith('Optional[') else 'Optional[%s]' % base_t)
                    got = unparse(ann[f.name])
                    if got != norm(exp):
                        bad.append(('annotation:ctor-param:%s' % type(f.type).__name__, '__init__ parameter %s of %s.%s is annotated %s, expected %s' % (f.name, nsn, d.name, got, norm(exp))))
        else:
            own = mm.own_members(model, nsn, d)
            implicit_other = refsem.typesig(model, nsn, d)['catch_all_field'] == 'other'
            void_own = [t.name for t in own if t.type is None] + (['other'] if implicit_other else [])
            rt_void = {k for k, v in vars(cls).items() if isinstance(v, bb.Union)}
            if set(st_attrs) != rt_void:
                bad.append(('attributes-differ:union', 'stub union %s.%s declares tag attributes %r, the runtime class has %r' % (nsn, d.name, sorted(st_attrs), sorted(rt_void))))
            for t in own:
                if t.type is None:
                    continue
                base_t = pep484(model, nsn, t.type, nsn)
                for mname, where in ((t.name, 'param'), ('get_' + t.name, 'return')):
                    fn = st_methods.get(mname)
                    if fn is None:
                        continue
                    if where == 'param':
                        args = [a for a in fn.args.args if a.arg not in ('cls', 'self')]
                        got = unparse(args[0].annotation) if args and args[0].annotation is not None else None
                    else:
                        got = unparse(fn.returns) if fn.returns is not None else None
                    if got != norm(base_t):
                        bad.append(('annotation:tag-%s:%s' % (where, type(t.type).__name__), '%s of %s.%s.%s is annotated %s, expected %s' % (where, nsn, d.name, mname, got, norm(base_t))))
    return bad


def task(item):
    model, trace, pname, flags, depth = item
    specs = render.render(model)
    out = impl.compile_specs(specs)
    if out.kind != 'ok':
        return {'outcome': 'not-accepted', 'viol': []}
    oc = collections.Counter()
    v = []
    stubs = impl.backend_outputs(out.api, ['python_type_stubs'])['python_type_stubs']
    if 'crash' in stubs:
        return {'outcome': 'stub-backend-crash', 'viol': [viol('stubs-' + stubs['crash'], 'python_type_stubs failed on an accepted spec: %s' % stubs['crash'],
                                                              {'specs': specs, 'trace': list(trace)}, stubs['tb'])]}
    pkg, fail = impl.build_python_package(out.api)
    if pkg is None:
        return {'outcome': 'types-backend-crash', 'viol': []}       # C09's business
    n = 0
    try:
        mods = {}
        for ns in model.namespaces:
            if ns.name == 'stone_cfg':
                continue
            try:
                mods[ns.name] = pkg.mod(ns.name)
            except Exception:
                return {'outcome': 'types-import-failed', 'viol': []}   # C09's business
        for nsn, mod in mods.items():
            n += 1
            text = stubs['files'].get(nsn + '.pyi')
            if text is None:
                v.append(viol('stub-missing', 'no stub file for namespace %s (files: %r)' % (nsn, sorted(stubs['files'])), {'specs': specs, 'trace': list(trace)}))
                continue
            try:
                tree = ast.parse(text.decode('utf-8'))
            except SyntaxError as e:
                oc['stub-syntax-error'] += 1
                v.append(viol('stub-syntax-error', 'stub %s.pyi is not valid Python: %s' % (nsn, e), {'specs': specs, 'trace': list(trace)}, text.decode('utf-8', 'replace')[:1500]))
                continue
            bad = compare_namespace(model, nsn, tree, mod, pkg, mods)
            if bad:
                oc['differs'] += 1
                for ident, what in bad:
                    v.append(viol(ident, what, {'specs': specs, 'trace': list(trace), 'namespace': nsn}, text.decode('utf-8', 'replace')[:2500]))
            else:
                oc['same:%s' % ('with-routes' if any(isinstance(d, Route) for _n, _fi, _di, d in mm.all_defs(model, nsn)) else 'types-only')] += 1
    finally:
        pkg.close()
    return {'outcome': oc, 'viol': v, 'n': max(n, 1), 'transitions': n}


def name_style_models():
    """Members with unusual but legal names (Python keywords and soft keywords, names the generated code uses itself, mixed case):
    one small model per name, with the name as a struct field, a void tag and a typed tag.  Where python_types itself cannot cope
    with the name the comparison is skipped (C09's matter); wherever its module loads, the stub has to agree with it."""
    import keyword
    from mc.model import Model, Namespace, File, mkfield, mktag, mkstruct, mkunion, mkroute, VOID
    I32 = P('Int32', ())
    names = sorted(set(k.lower() for k in keyword.kwlist + keyword.softkwlist)) + c09.HAZARD_FIELDS + ['fooBar', 'Baz', 'x1', 'a_b', 'HTTPCode']
    out = []
    for nm in dict.fromkeys(names):
        for pos in ('field', 'void-tag', 'typed-tag'):
            defs = (mkstruct('Cc', parent=R(None, 'Ss'), fields=[mkfield('yy', N(R(None, 'Uu')))]),
                    mkstruct('Ss', fields=[mkfield(nm if pos == 'field' else 'ff', I32), mkfield('xx', I32, 2)]),
                    mkunion('Uu', tags=[mktag(nm if pos == 'void-tag' else 'uu'), mktag('t2', R(None, 'Ss'))]),
                    mkunion('Vv', tags=[mktag(nm if pos == 'typed-tag' else 'tt', N(I32)), mktag('vv')]),
                    mkunion('Ww', parent=R(None, 'Vv'), tags=[mktag('ww', R(None, 'Ss'))]),
                    mkroute('rr', 1, R(None, 'Ss'), R(None, 'Vv'), VOID))
            out.append((Model((Namespace('na', (File(None, (), defs),)),)), ('name-style', pos, nm), 'name-style', ('names',), 1))
    # type names that the Python backends respell (HTTPError -> HttpError): struct, union, alias and subtype tree under that name
    for nm in c09.HAZARD_TYPES + ['URLPath', 'upload_State', 'iOSDevice']:
        defs = (Alias(nm + 'Al', R(None, nm), None, ()), mkstruct(nm, fields=[mkfield('ff', I32)]), mkstruct(nm + 'Kid', parent=R(None, nm), fields=[mkfield('kk', N(R(None, nm + 'Pick')))]),
                mkunion(nm + 'Pick', tags=[mktag('p0'), mktag('p1', R(None, nm))]), mkroute('rr', 1, R(None, nm), R(None, nm + 'Al'), R(None, nm + 'Pick')))
        out.append((Model((Namespace('na', (File(None, (), defs),)),)), ('name-style', 'type', nm), 'name-style', ('names',), 1))
    return out


def namesake_alias_models():
    """Two aliases of the same name in two namespaces, both referenced from one of them (own and imported), as struct fields, union
    members and list items, in both orders, for every pair of differently-annotated target types and both alphabetical orders of the
    namespaces."""
    from mc.model import Model, Namespace, File, mkfield, mktag, mkstruct, mkunion
    targets = [('int', P('Int64', ())), ('str', P('String', ())), ('list', L(P('String', ()), None, None)), ('bool', P('Boolean', ()))]
    out = []
    for here, far in (('na', 'nb'), ('nb', 'na')):
        for (k1, t1) in targets:
            for (k2, t2) in targets:
                if k1 == k2:
                    continue
                for order in ('own-first', 'far-first'):
                    own_f, far_f = mkfield('own', R(None, 'Id')), mkfield('far', R(far, 'Id'))
                    fields = [own_f, far_f] if order == 'own-first' else [far_f, own_f]
                    tags = [mktag('v0')] + ([mktag('own', R(None, 'Id')), mktag('far', R(far, 'Id'))] if order == 'own-first' else [mktag('far', R(far, 'Id')), mktag('own', R(None, 'Id'))])
                    here_defs = (Alias('Id', t1, None, ()), mkstruct('Ss', fields=fields + [mkfield('many', L(R(far, 'Id'), None, None))]), mkunion('Uu', tags=tags))
                    far_defs = (Alias('Id', t2, None, ()),)
                    nss = {here: Namespace(here, (File(None, (far,), here_defs),)), far: Namespace(far, (File(None, (), far_defs),))}
                    out.append((Model((nss['na'], nss['nb'])), ('namesake-aliases', here, k1, k2, order), 'namesake-aliases', ('names',), 1))
    return out


def run(tier, seed):
    r = explore.Run(PROP, tier, seed)
    states = c01.gather_states(tier, r, budget=500 if tier == 'quick' else None)
    styled = name_style_models() + namesake_alias_models()
    r.bounds['name_style_models'] = len(styled)
    states = list(states) + styled
    for s, tr, pn, fl, d in states[len(states) // 2:len(states) // 2 + 1]:
        r.sample({'profile': pn, 'trace': list(tr), 'specs': render.render(s)})
    r.run_tasks(task, states, budget=300, chunksize=8)
    r.assumptions = ['ROUTES, dunder and private reflection attributes are outside the comparison (the property lists what must agree)',
                     'PEP 484 mapping written from builtin_backends.rst (mc checks/c15.py pep484)']
    r.finish('every model of every family-pair profile: parsed stub vs introspected runtime module per namespace (classes, attributes, helpers, '
             'validators, class aliases, routes, bases, constructor parameters), annotations vs an independent type mapping, name resolution')


def replay(rep):
    specs = [tuple(x) for x in rep['inputs']['specs']]
    out = impl.compile_specs(specs)
    if out.kind != 'ok':
        return 0
    stubs = impl.backend_outputs(out.api, ['python_type_stubs'])['python_type_stubs']
    if 'crash' in stubs:
        print('VIOLATION property=%s replay=replayed' % PROP)
        return 1
    for fn, text in stubs['files'].items():
        try:
            ast.parse(text.decode('utf-8'))
        except SyntaxError:
            print('VIOLATION property=%s replay=replayed' % PROP)
            return 1
    print('stub parses; the comparison oracle needs the model: re-run ./check C15 (recorded: %s)' % rep['what'][:200])
    return 1
