"""C19 - backends see exactly the routes and attributes the command line selects.

States are command lines (filter expression trees by depth, -w / -b namespace subsets, -a attribute subsets, token-level
edits of valid expressions) over a fixed three-namespace spec whose routes realise the full product of attribute values,
so every realisable truth assignment of every atom set occurs on some route.  Every state is executed through
stone.cli.main in-process with a recording backend (what the backend sees in generate()); deeper expression trees are
additionally executed at the seam the CLI calls (parse_route_attr_filter + FilterExpr.eval on the real Route objects).
Oracle: an evaluator and a recursive-descent recogniser written from the CLI help text (ordinary boolean semantics, `and`
over `or`, absent = null, typed literal equality).
"""
import collections
import itertools
import json
import os
import shutil

from mc import explore, impl
from mc.explore import viol

PROP = 'C19'

# ---------------------------------------------------------------------------
# the spec: full product of attribute values

S_VALS = [None, 'a', 'b']
I_VALS = [None, 1, -2, 2 ** 53]      # 2**53: the first integer whose successor no double represents
B_VALS = [None, True, False]
F_VALS = [None, 1.5]
D_VALS = [None, 'y']          # None -> the schema default "x"
SCHEMA = ['s', 'i', 'b', 'f', 'd']
NAMESPACES = ['na', 'nb', 'nc']

CFG = 'namespace stone_cfg\n\nstruct Route\n    s String?\n    i Int64?\n    b Boolean?\n    f Float64?\n    d String = "x"\n'


def lit(v):
    if v is None:
        return 'null'
    if v is True:
        return 'true'
    if v is False:
        return 'false'
    if isinstance(v, str):
        return '"%s"' % v
    return repr(v)


def build_spec():
    """Returns (specs, routes) with routes = [(ns, name, version, attrs-as-the-docs-define-them)]."""
    routes = []
    texts = {ns: ['namespace %s\n\nstruct T%s\n    x Int32\n\nunion U%s\n    p\n    q T%s\n\nalias A%s = T%s\n' % (ns, ns.capitalize(), ns.capitalize(), ns.capitalize(), ns.capitalize(), ns.capitalize())]
             for ns in NAMESPACES}
    k = 0
    for s, i, b, f, d in itertools.product(S_VALS, I_VALS, B_VALS, F_VALS, D_VALS):
        ns = NAMESPACES[k % 3]
        # every fourth route of a namespace is a second version of the route before it in that namespace
        idx = k // 3
        if idx % 4 == 3:
            name, version = 'r%d' % (idx - 1), 2
        else:
            name, version = 'r%d' % idx, 1
        given = [(n, v) for n, v in (('s', s), ('i', i), ('b', b), ('f', f), ('d', d)) if v is not None]
        attrs = {'s': s, 'i': i, 'b': b, 'f': f, 'd': d if d is not None else 'x'}
        lines = ['route %s%s(T%s, Void, Void)' % (name, ':2' if version == 2 else '', ns.capitalize())]
        if given:
            lines.append('    attrs')
            lines += ['        %s = %s' % (n, lit(v)) for n, v in given]
        texts[ns].append('\n'.join(lines) + '\n')
        routes.append((ns, name, version, attrs))
        k += 1
    specs = [('%s.stone' % ns, '\n'.join(texts[ns])) for ns in NAMESPACES] + [('cfg.stone', CFG)]
    return specs, routes


SPECS, ROUTES = build_spec()
TYPES = {ns: ['T%s' % ns.capitalize(), 'U%s' % ns.capitalize()] for ns in NAMESPACES}

# ---------------------------------------------------------------------------
# expressions: trees ('atom', attr, op, value) | ('and'|'or', lhs, rhs)

ATOMS_ALL = [('s', '=', 'a'), ('s', '!=', 'a'), ('s', '=', 'b'), ('s', '=', None), ('s', '!=', None), ('i', '=', 1), ('i', '!=', 1), ('i', '=', -2), ('i', '=', None),
             ('b', '=', True), ('b', '=', False), ('b', '!=', True), ('b', '=', None), ('f', '=', 1.5), ('f', '!=', 1.5), ('f', '=', None), ('d', '=', 'x'), ('d', '!=', 'y'),
             ('z', '=', None), ('z', '!=', None), ('z', '=', 'a'), ('s', '=', 1), ('i', '=', '1'), ('b', '!=', 'true'), ('f', '=', 2.5), ('i', '=', 7),
             ('i', '=', 2 ** 53), ('i', '=', 2 ** 53 + 1), ('i', '!=', 2 ** 53 + 1), ('i', '=', -(2 ** 53) - 1)]
ATOMS_CORE = [('s', '=', 'a'), ('i', '!=', 1), ('b', '=', True), ('f', '=', None), ('d', '=', 'x'), ('z', '!=', None)]


def trees(atoms, depth):
    level = [('atom',) + a for a in atoms]
    allt = list(level)
    for _ in range(depth - 1):
        new = []
        for op in ('and', 'or'):
            for l in allt:
                for r in allt:
                    new.append((op, l, r))
        seen = set(allt)
        allt = allt + [t for t in new if t not in seen]
    return allt


def atom_text(t, spaced=False):
    _, a, op, v = t
    return ('%s %s %s' if spaced else '%s%s%s') % (a, op, lit(v))


def render_full(t, top=True):
    if t[0] == 'atom':
        return atom_text(t)
    s = '%s %s %s' % (render_full(t[1], False), t[0], render_full(t[2], False))
    return s if top else '(' + s + ')'


def render_min(t, flat=False):
    """Minimal parentheses under `and` over `or`, left-associative; with flat=True a right-nested operand of the same operator
    is not parenthesised either (same truth value by associativity)."""
    if t[0] == 'atom':
        return atom_text(t)
    def side(x, right):
        s = render_min(x, flat)
        if x[0] == 'atom':
            return s
        if t[0] == 'and' and x[0] == 'or':
            return '(' + s + ')'
        if right and x[0] == t[0] and not flat:
            return '(' + s + ')'
        return s
    return '%s %s %s' % (side(t[1], False), t[0], side(t[2], True))


def render_redundant(t):
    if t[0] == 'atom':
        return '((' + atom_text(t, spaced=True) + '))'
    return '(%s) %s (%s)' % (render_redundant(t[1]), t[0], render_redundant(t[2]))


RENDERERS = [('full', render_full), ('min', render_min), ('flat', lambda t: render_min(t, True)), ('redundant', render_redundant)]


def same_kind_equal(val, litv):
    """`=` on typed literals: values of different kinds are never equal; null equals only null."""
    if val is None or litv is None:
        return val is None and litv is None
    if isinstance(val, bool) or isinstance(litv, bool):
        if isinstance(val, bool) and isinstance(litv, bool):
            return val == litv
        # a boolean against the numbers 0 / 1 is left open (the host language conflates them); against anything else it is unequal
        if not isinstance(val, str) and not isinstance(litv, str) and float(val) == float(litv):
            return None
        return False
    if isinstance(val, str) or isinstance(litv, str):
        return isinstance(val, str) and isinstance(litv, str) and val == litv
    if type(val) is not type(litv):
        # integer against float: the same number written two ways is left open by the help text
        if float(val) == float(litv):
            return None
        return False
    return val == litv


def ref_eval(t, attrs):
    if t[0] == 'atom':
        _, a, op, v = t
        e = same_kind_equal(attrs.get(a), v)
        if e is None:
            return None
        return e if op == '=' else not e
    l, r = ref_eval(t[1], attrs), ref_eval(t[2], attrs)
    if t[0] == 'and':
        if l is False or r is False:
            return False
        return None if (l is None or r is None) else True
    if l is True or r is True:
        return True
    return None if (l is None or r is None) else False


# ---------------------------------------------------------------------------
# reference recogniser over token lists (for the malformed-expression space)

LITS = {'"a"': 'a', '1': 1, 'null': None, 'true': True, '1.5': 1.5, '"b"': 'b', 'false': False, '-2': -2}
JUNK = ['&', '==', '"abc', '<', "'a'", '!', '=!']
ALPHABET = ['s', 'i', '(', ')', 'and', 'or', '=', '!=', '"a"', '1', 'null', 'true', '1.5'] + JUNK


class Bad(Exception):
    pass


def ref_parse(tokens):
    """expr := term (('and'|'or') term)* with and over or; term := '(' expr ')' | ID ('='|'!=') literal.  Raises Bad."""
    toks = []
    for t in tokens:
        if t == '==':
            toks += ['=', '=']
        elif t == '=!':
            toks += ['=', '!']
        else:
            toks.append(t)
    if any(t in JUNK or t == '!' for t in toks):
        raise Bad('lexical')
    pos = [0]

    def peek():
        return toks[pos[0]] if pos[0] < len(toks) else None

    def term():
        t = peek()
        if t == '(':
            pos[0] += 1
            e = or_expr()
            if peek() != ')':
                raise Bad('expected )')
            pos[0] += 1
            return e
        if t is None or t in LITS or t in ('and', 'or', '=', '!=', ')'):
            raise Bad('expected attribute name')
        pos[0] += 1
        op = peek()
        if op not in ('=', '!='):
            raise Bad('expected operator')
        pos[0] += 1
        v = peek()
        if v not in LITS:
            raise Bad('expected literal')
        pos[0] += 1
        return ('atom', t, op, LITS[v])

    def and_expr():
        e = term()
        while peek() == 'and':
            pos[0] += 1
            e = ('and', e, term())
        return e

    def or_expr():
        e = and_expr()
        while peek() == 'or':
            pos[0] += 1
            e = ('or', e, and_expr())
        return e

    e = or_expr()
    if pos[0] != len(toks):
        raise Bad('trailing input')
    return e


def tokens_of(t):
    if t[0] == 'atom':
        return [t[1], t[2], lit(t[3])]
    def side(x, right):
        s = tokens_of(x)
        if x[0] != 'atom' and ((t[0] == 'and' and x[0] == 'or') or (right and x[0] == t[0])):
            return ['('] + s + [')']
        return s
    return side(t[1], False) + [t[0]] + side(t[2], True)


def edits(tokens):
    for i in range(len(tokens)):
        yield tokens[:i] + tokens[i + 1:]
        yield tokens[:i] + [tokens[i], tokens[i]] + tokens[i + 1:]
        for a in ALPHABET:
            if a != tokens[i]:
                yield tokens[:i] + [a] + tokens[i + 1:]
    for a in ALPHABET:
        yield tokens + [a]
        yield [a] + tokens


# ---------------------------------------------------------------------------
# running the command line with a recording backend

BACKEND_SRC = '''import json
from stone.backend import Backend


class RecBackend(Backend):
    preserve_aliases = True

    def generate(self, api):
        out = {'schema': [f.name for f in api.route_schema.fields], 'schema_by_name': sorted(api.route_schema._fields_by_name), 'ns': {}}
        for ns in api.namespaces.values():
            out['ns'][ns.name] = {
                'routes': [[r.name, r.version, sorted((k, repr(v)) for k, v in r.attrs.items())] for r in ns.routes],
                'route_by_name': {k: [v.name, v.version] for k, v in ns.route_by_name.items()},
                'routes_by_name': {k: sorted(v.at_version) for k, v in ns.routes_by_name.items()},
                'at_version_ok': all(v.at_version[x].version == x and v.at_version[x].name == k for k, v in ns.routes_by_name.items() for x in v.at_version),
                'types': [d.name for d in ns.data_types], 'aliases': [a.name for a in ns.aliases]}
        with self.output_to_relative_path('rec.json'):
            self.emit_raw(json.dumps(out) + '\\n')
'''

_WORK = {}


def workdir():
    if 'd' not in _WORK or _WORK.get('pid') != os.getpid():
        d = explore.fresh_dir('c19')
        paths = []
        for p, t in SPECS:
            fp = os.path.join(d, p)
            with open(fp, 'w', encoding='utf-8') as f:
                f.write(t)
            paths.append(fp)
        with open(os.path.join(d, 'rec.stoneg.py'), 'w') as f:
            f.write(BACKEND_SRC)
        _WORK.update(d=d, pid=os.getpid(), paths=paths, n=0)
        import atexit
        atexit.register(shutil.rmtree, d, True)
    return _WORK


def run_cli(flags):
    w = workdir()
    w['n'] += 1
    out = os.path.join(w['d'], 'o%d' % w['n'])
    code, api, so, se, esc = impl.run_cli([os.path.join(w['d'], 'rec.stoneg.py'), out] + w['paths'] + list(flags))
    rec = None
    fp = os.path.join(out, 'rec.json')
    if os.path.exists(fp):
        with open(fp) as f:
            rec = json.load(f)
    shutil.rmtree(out, ignore_errors=True)
    return code, rec, se, esc


def expected_view(keep_route, attr_sel):
    """What the backend must see: per namespace the surviving routes with the selected attributes."""
    view = {}
    for ns in NAMESPACES:
        view[ns] = []
    for ns, name, version, attrs in ROUTES:
        if keep_route(ns, name, version, attrs):
            view[ns].append([name, version, sorted((k, repr(attrs[k])) for k in attr_sel)])
    return view


def judge_run(flags, code, rec, se, esc, keep_route, attr_sel, inputs, tag):
    """Compares a successful run with the expected view.  keep_route may return None (not judged)."""
    v = []
    if esc is not None:
        return [viol('cli-escape:%s@%s' % (esc[0], esc[1]), 'stone.cli raised %s for %r' % (esc[0], flags), inputs, esc[2])]
    if code != 0 or rec is None:
        return [viol('%s:valid-selection-rejected' % tag, 'exit status %r, backend %s for a valid command line %r: %s' % (code, 'ran' if rec else 'did not run', flags, se[-300:]), inputs)]
    if rec['schema'] != [a for a in SCHEMA if a in attr_sel] or sorted(rec['schema']) != rec['schema_by_name']:
        v.append(viol('%s:route-schema' % tag, 'route schema shows fields %r (by name %r), expected %r' % (rec['schema'], rec['schema_by_name'], [a for a in SCHEMA if a in attr_sel]), inputs))
    for ns in NAMESPACES:
        got = rec['ns'].get(ns)
        if got is None:
            v.append(viol('%s:namespace-missing' % tag, 'namespace %s is not shown to the backend' % ns, inputs))
            continue
        if got['types'] != TYPES[ns] or got['aliases'] != ['A%s' % ns.capitalize()]:
            v.append(viol('%s:types-changed' % tag, 'namespace %s shows types %r aliases %r' % (ns, got['types'], got['aliases']), inputs))
        exp_keep, exp_drop, open_ = [], [], []
        for n2, name, version, attrs in ROUTES:
            if n2 != ns:
                continue
            k = keep_route(ns, name, version, attrs)
            (open_ if k is None else exp_keep if k else exp_drop).append((name, version, attrs))
        got_ids = [(r[0], r[1]) for r in got['routes']]
        if len(set(got_ids)) != len(got_ids):
            v.append(viol('%s:route-duplicated' % tag, 'namespace %s lists a route twice: %r' % (ns, got_ids[:8]), inputs))
        for name, version, attrs in exp_keep:
            if (name, version) not in got_ids:
                v.append(viol('%s:route-wrongly-removed' % tag, 'route %s.%s:%d with %r must survive %r' % (ns, name, version, attrs, flags), inputs))
        for name, version, attrs in exp_drop:
            if (name, version) in got_ids:
                v.append(viol('%s:route-wrongly-kept' % tag, 'route %s.%s:%d with %r must not survive %r' % (ns, name, version, attrs, flags), inputs))
        known_ids = {(n, ver) for n2, n, ver, _ in ROUTES if n2 == ns}
        for rid in got_ids:
            if rid not in known_ids:
                v.append(viol('%s:route-invented' % tag, 'namespace %s shows a route %r the spec does not define' % (ns, rid), inputs))
        amap = {(n, ver): a for n2, n, ver, a in ROUTES if n2 == ns}
        for name, version, shown in got['routes']:
            a = amap.get((name, version))
            if a is None:
                continue
            want = sorted((k, repr(a[k])) for k in attr_sel)
            if [list(x) for x in want] != [list(x) for x in shown]:
                v.append(viol('%s:route-attrs' % tag, 'route %s.%s:%d shows attrs %r, expected %r' % (ns, name, version, shown, want), inputs))
                break
        names = sorted({n for n, _ in got_ids})
        v1names = sorted({n for n, ver in got_ids if ver == 1})     # backend_ref: route_by_name holds only the route at version 1
        if sorted(got['route_by_name']) != v1names or sorted(got['routes_by_name']) != names:
            v.append(viol('%s:by-name-keys' % tag, 'namespace %s: routes %r but route_by_name %r routes_by_name %r' % (
                ns, names[:6], sorted(got['route_by_name'])[:6], sorted(got['routes_by_name'])[:6]), inputs))
        else:
            for n in names:
                vers = sorted(ver for x, ver in got_ids if x == n)
                if got['routes_by_name'][n] != vers:
                    v.append(viol('%s:by-name-versions' % tag, 'namespace %s: route %s listed at versions %r, routes_by_name has %r' % (ns, n, vers, got['routes_by_name'][n]), inputs))
                    break
                if n in v1names and got['route_by_name'][n] != [n, 1]:
                    v.append(viol('%s:by-name-target' % tag, 'namespace %s: route_by_name[%s] is %r, surviving versions %r' % (ns, n, got['route_by_name'][n], vers), inputs))
                    break
            if not got['at_version_ok']:
                v.append(viol('%s:by-name-at-version' % tag, 'namespace %s: routes_by_name maps a version to a route of another name/version' % ns, inputs))
    return v


def judge_error(flags, code, rec, se, esc, inputs, tag):
    if esc is not None:
        return [viol('cli-escape:%s@%s' % (esc[0], esc[1]), 'stone.cli raised %s for %r' % (esc[0], flags), inputs, esc[2])]
    if code == 0 or rec is not None:
        return [viol('%s:ignored' % tag, 'exit status %r and the backend %s for %r' % (code, 'ran' if rec is not None else 'did not run', flags), inputs, se[-300:], 'an error report')]
    if not se.strip():
        return [viol('%s:silent' % tag, 'exit status %r without a message for %r' % (code, flags), inputs)]
    return []


# ---------------------------------------------------------------------------
# tasks

def expr_cli_task(chunk):
    oc = collections.Counter()
    out_v = []
    n = 0
    for t, rname, text in chunk:
        n += 1
        flags = ['-f', text]
        code, rec, se, esc = run_cli(flags)
        inputs = {'flags': flags, 'tree': repr(t), 'rendering': rname}
        v = judge_run(flags, code, rec, se, esc, lambda ns, name, ver, attrs: ref_eval(t, attrs), [], inputs, 'filter')
        kept = sum(len(x['routes']) for x in rec['ns'].values()) if rec else -1
        oc['kept:%s' % ('none' if kept == 0 else 'all' if kept == len(ROUTES) else 'some' if kept > 0 else 'error')] += 1
        out_v += v
    return {'outcome': oc, 'viol': out_v, 'n': n, 'transitions': n * len(ROUTES)}


_SEAM = {}


def seam_routes():
    if _SEAM.get('pid') != os.getpid():
        out = impl.compile_specs(SPECS)
        if out.kind != 'ok':
            raise explore.InternalError('C19 base spec not accepted: ' + out.brief())
        by = {}
        for ns in NAMESPACES:
            for r in out.api.namespaces[ns].routes:
                by[(ns, r.name, r.version)] = r
        _SEAM.update(pid=os.getpid(), routes=[(by[(ns, n, ver)], attrs, (ns, n, ver)) for ns, n, ver, attrs in ROUTES])
        # the model's attribute values are what the compiler put on the routes (C02 decides this in general)
        for r, attrs, rid in _SEAM['routes']:
            if dict(r.attrs) != attrs:
                raise explore.InternalError('route %r carries %r, model says %r' % (rid, dict(r.attrs), attrs))
    return _SEAM['routes']


def expr_seam_task(chunk):
    from stone.cli_helpers import parse_route_attr_filter
    oc = collections.Counter()
    out_v = []
    routes = seam_routes()
    n = tr = 0
    for t, rname, text in chunk:
        n += 1
        inputs = {'flags': ['-f', text], 'tree': repr(t), 'rendering': rname, 'seam': 'parse_route_attr_filter + eval'}
        try:
            expr, errs = parse_route_attr_filter(text)
        except Exception as e:  # noqa
            et, inner, _ = explore.stone_frame_identity(e)
            out_v.append(viol('filter-parse-escape:%s@%s' % (et, inner), 'parse_route_attr_filter raised %s for %r' % (et, text), inputs))
            continue
        if errs or expr is None:
            out_v.append(viol('filter:valid-expression-rejected', 'valid expression %r rejected: %r' % (text, errs), inputs))
            continue
        kept = 0
        for r, attrs, rid in routes:
            tr += 1
            want = ref_eval(t, attrs)
            got = bool(expr.eval(r))
            kept += got
            if want is not None and got != want:
                out_v.append(viol('filter:route-wrongly-%s' % ('kept' if got else 'removed'), 'route %s.%s:%d with %r: %r evaluates to %r' % (rid + (attrs, text, got)), inputs))
                break
        oc['kept:%s' % ('none' if kept == 0 else 'all' if kept == len(routes) else 'some')] += 1
    return {'outcome': oc, 'viol': out_v, 'n': n, 'transitions': tr}


def malformed_task(chunk):
    oc = collections.Counter()
    out_v = []
    n = 0
    for toks in chunk:
        n += 1
        text = ' '.join(toks)
        flags = ['-f', text]
        inputs = {'flags': flags, 'tokens': toks}
        try:
            t = ref_parse(toks)
        except Bad as e:
            t = None
            why = str(e)
        code, rec, se, esc = run_cli(flags)
        if t is None:
            oc['malformed:' + why] += 1
            out_v += judge_error(flags, code, rec, se, esc, inputs, 'malformed-filter')
        else:
            oc['well-formed'] += 1
            out_v += judge_run(flags, code, rec, se, esc, lambda ns, name, ver, attrs: ref_eval(t, attrs), [], inputs, 'filter')
    return {'outcome': oc, 'viol': out_v, 'n': n, 'transitions': n}


def select_task(chunk):
    """Namespace and attribute selections, alone and combined with a filter."""
    oc = collections.Counter()
    out_v = []
    n = 0
    for kind, wl, bl, attr_flags, ftree in chunk:
        n += 1
        flags = []
        for x in wl:
            flags += ['-w', x]
        for x in bl:
            flags += ['-b', x]
        for x in attr_flags:
            flags += ['-a', x]
        if ftree is not None:
            flags += ['-f', render_min(ftree)]
        inputs = {'flags': flags, 'kind': kind}
        code, rec, se, esc = run_cli(flags)
        unknown_ns = [x for x in wl + bl if x not in NAMESPACES + ['stone_cfg']]
        unknown_attr = [x for x in attr_flags if x != ':all' and x not in SCHEMA]
        if (wl and bl) or unknown_ns or unknown_attr:
            oc['error-expected'] += 1
            tag = 'unknown-namespace' if unknown_ns else 'unknown-attribute' if unknown_attr else 'w-and-b'
            if unknown_attr and ':all' in attr_flags:
                tag = 'unknown-attribute-with-all'
            out_v += judge_error(flags, code, rec, se, esc, inputs, tag)
            continue
        sel = SCHEMA if ':all' in attr_flags else [a for a in SCHEMA if a in attr_flags]

        def keep(ns, name, ver, attrs):
            if wl and ns not in wl:
                return False
            if ns in bl:
                return False
            return True if ftree is None else ref_eval(ftree, attrs)
        oc['selection'] += 1
        out_v += judge_run(flags, code, rec, se, esc, keep, sel, inputs, 'select')
    return {'outcome': oc, 'viol': out_v, 'n': n, 'transitions': n}


# attribute names that begin with, end with or contain a word of the filter language: the lexer must read each as one identifier
KEYWORDISH_NAMES = ['nullable', 'null_x', 'nulls', 'is_null', 'true_color', 'truex', 'falsey', 'false_positive', 'order', 'or_else', 'android', 'and1', 'band', 'xor', 'nota',
                    'x_true', 'trueornull', 'orand']


def name_task(chunk):
    """One small spec per attribute name: a Boolean? attribute <name> with routes rt (true), rf (false), rn (absent); the filters
    <name>=true, <name>!=true, <name>=null, '<name>=false or <name>=null', '(<name>=true)and <name>!=null' select what the
    reference says."""
    oc = collections.Counter()
    out_v = []
    n = 0
    for name in chunk:
        d = explore.fresh_dir('c19n')
        try:
            cfg = os.path.join(d, 'cfg.stone')
            with open(cfg, 'w') as f:
                f.write('namespace stone_cfg\n\nstruct Route\n    %s Boolean?\n    plain Int64 = 1\n' % name)
            spec = os.path.join(d, 'nn.stone')
            with open(spec, 'w') as f:
                f.write('namespace nn\n\nroute rt(Void, Void, Void)\n    attrs\n        %s = true\n\nroute rf(Void, Void, Void)\n    attrs\n        %s = false\n\nroute rn(Void, Void, Void)\n' % (name, name))
            be = os.path.join(d, 'rec.stoneg.py')
            with open(be, 'w') as f:
                f.write(BACKEND_SRC)
            for expr, want in (('%s=true' % name, ['rt']), ('%s!=true' % name, ['rf', 'rn']), ('%s=null' % name, ['rn']), ('%s=false or %s=null' % (name, name), ['rf', 'rn']),
                               ('(%s=true)and %s!=null' % (name, name), ['rt']), ('plain=1 and %s = false' % name, ['rf'])):
                n += 1
                out = os.path.join(d, 'o%d' % n)
                code, api, so, se, esc = impl.run_cli([be, out, spec, cfg, '-f', expr])
                inputs = {'attribute': name, 'expression': expr}
                got = None
                fp = os.path.join(out, 'rec.json')
                if os.path.exists(fp):
                    with open(fp) as f:
                        got = sorted(r[0] for r in json.load(f)['ns']['nn']['routes'])
                if esc is not None or code != 0 or got is None:
                    oc['name:refused'] += 1
                    out_v.append(viol('filter:attribute-name:refused', 'well-formed filter %r over the attribute %r was not accepted: exit %r %s %s' % (expr, name, code, (se or '')[:160], esc[:2] if esc else ''), inputs))
                elif got != sorted(want):
                    oc['name:wrong-routes'] += 1
                    out_v.append(viol('filter:attribute-name:wrong-routes', 'filter %r kept %r, expected %r' % (expr, got, sorted(want)), inputs))
                else:
                    oc['name:ok'] += 1
        finally:
            shutil.rmtree(d, ignore_errors=True)
    return {'outcome': oc, 'viol': out_v, 'n': n, 'transitions': n}


def task(item):
    return {'cli': expr_cli_task, 'seam': expr_seam_task, 'mal': malformed_task, 'sel': select_task, 'names': name_task}[item[0]](item[1])


def chunks(lst, k):
    for i in range(0, len(lst), k):
        yield lst[i:i + k]


def renderings(ts, which):
    seen = set()
    out = []
    for t in ts:
        for rname, fn in RENDERERS:
            if rname not in which:
                continue
            text = fn(t)
            if text not in seen:
                seen.add(text)
                out.append((t, rname, text))
    return out


def subsets(xs):
    for k in range(len(xs) + 1):
        for c in itertools.combinations(xs, k):
            yield list(c)


def selection_states(tier):
    out = []
    filt = [None, ('or', ('atom', 's', '=', 'a'), ('and', ('atom', 'i', '=', 1), ('atom', 'b', '!=', True)))]
    attr_sets = [[], [':all'], ['s'], ['d', 'i']]
    for sub in subsets(NAMESPACES):
        for perm in (itertools.permutations(sub) if len(sub) == 2 or tier != 'quick' else [tuple(sub)]):
            for f in filt:
                for a in attr_sets:
                    if sub:
                        out.append(('w', list(perm), [], a, f))
                        out.append(('b', [], list(perm), a, f))
    for bad in ('zz', 'NA', 'na ', ''):
        for known in ([], ['na'], ['na', 'nb']):
            out.append(('w-unknown', known + [bad], [], [], None))
            out.append(('w-unknown', [bad] + known, [], [':all'], filt[1]))
            out.append(('b-unknown', [], known + [bad], [], None))
            out.append(('b-unknown', [], [bad] + known, ['s'], None))
    out.append(('w-and-b', ['na'], ['nb'], [], None))
    out.append(('w-dup', ['na', 'na'], [], [':all'], None))
    out.append(('b-dup', [], ['nb', 'nb'], [':all'], None))
    for sub in subsets(SCHEMA):
        for perm in ([sub] if tier == 'quick' or len(sub) > 3 else [list(p) for p in itertools.permutations(sub)]):
            for f in filt:
                out.append(('a', [], [], perm, f))
                out.append(('a+all', [], [], perm + [':all'], f))
                out.append(('a+all', [], [], [':all'] + perm, f))
                for bad in ('nope', 'S', 'z'):
                    out.append(('a-unknown', [], [], perm + [bad], f))
                    out.append(('a-unknown', [], [], [bad] + perm, None))
                    out.append(('a-unknown+all', [], [], perm + [':all', bad], None))
                    out.append(('a-unknown+all', [], [], [bad, ':all'] + perm, f))
        out.append(('a-dup', [], [], sub + sub, None))
        out.append(('a+w', ['nb'], [], sub, filt[1]))
        out.append(('a+b', [], ['nb', 'nc'], sub, filt[1]))
    seen, res = set(), []
    for s in out:
        k = repr(s)
        if k not in seen:
            seen.add(k)
            res.append(s)
    return res


def run(tier, seed):
    r = explore.Run(PROP, tier, seed)
    quick = tier == 'quick'
    cli_trees = trees(ATOMS_ALL, 2) + (trees(ATOMS_CORE[:3], 3) if quick else trees(ATOMS_CORE[:4], 3))
    cli_trees = list(dict.fromkeys(cli_trees))
    cli_exprs = renderings(cli_trees, ('full', 'min', 'flat', 'redundant'))
    seam_trees = trees(ATOMS_CORE, 3) if quick else list(dict.fromkeys(trees(ATOMS_ALL[:10], 3) + trees(ATOMS_CORE[:2], 4)))
    seam_exprs = renderings(seam_trees, ('min', 'flat') if quick else ('min', 'flat', 'full'))
    bases = [tokens_of(t) for t in trees(ATOMS_CORE[:3] + [('z', '=', None)], 2)] + [['(', 's', '=', '"a"', ')'], ['(', '(', 'i', '=', '1', ')', 'and', 'b', '=', 'true', ')', 'or', 's', '!=', 'null']]
    mal, seen = [], set()
    for b in bases[:(12 if quick else len(bases))]:
        for e in edits(b):
            k = ' '.join(e)
            if k not in seen and e:
                seen.add(k)
                mal.append(e)
    for extra in ([], [' '], ['(', ')'], ['s'], ['s', '='], ['=', '"a"'], ['and'], ['s', '=', '"a"', 'and'], ['or', 's', '=', '"a"'], ['s', '=', 's'], ['"a"', '=', 's'], ['null', '=', 'null'],
                  ['s', '=', '"a"', ')'], ['(', 's', '=', '"a"'], ['s', '=', '"a"', 's', '=', '"a"'], ['s', '=', '=', '"a"'], ['s', '!=', '=', '"a"'], ['s', 'and', 'i'], ['true'], ['s', '=', 'true', 'or', 'false']):
        if ' '.join(extra) not in seen:
            seen.add(' '.join(extra))
            mal.append(extra)
    sels = selection_states(tier)
    items = [('cli', c) for c in chunks(cli_exprs, 40)] + [('seam', c) for c in chunks(seam_exprs, 400)] + [('mal', c) for c in chunks(mal, 60)] + [('sel', c) for c in chunks(sels, 40)]
    items += [('names', c) for c in chunks(KEYWORDISH_NAMES, 3)]
    r.bounds['keywordish_attribute_names'] = KEYWORDISH_NAMES
    r.bounds.update({'routes_in_spec': len(ROUTES), 'namespaces': NAMESPACES, 'schema': SCHEMA, 'atoms': len(ATOMS_ALL),
                     'cli_expression_trees': len(cli_trees), 'cli_expression_texts': len(cli_exprs), 'seam_expression_trees': len(seam_trees), 'seam_expression_texts': len(seam_exprs),
                     'edited_token_strings': len(mal), 'selection_command_lines': len(sels),
                     'depth': 'CLI: all trees of depth <= 2 over %d atoms and depth <= 3 over %d atoms; seam: %s' % (
                         len(ATOMS_ALL), 3 if quick else 4, 'depth <= 3 over 6 atoms' if quick else 'depth <= 3 over 10 atoms and depth <= 4 over 2 atoms')})
    r.sample({'expression': cli_exprs[len(cli_exprs) // 2][2], 'rendering': cli_exprs[len(cli_exprs) // 2][1]})
    r.sample({'edited': ' '.join(mal[len(mal) // 3])})
    r.sample({'selection': repr(sels[len(sels) // 2])})
    r.run_tasks(task, items, budget=600, chunksize=1)
    r.assumptions = ['integer literal against a float attribute of the same number, and the empty attribute selection of values that are not primitives, are not judged',
                     'string literals with escapes are not used in expressions']
    r.finish('every expression tree within the depth bounds in four renderings x every route of the attribute-product spec (all truth assignments of the atoms); '
             'every single-token edit of the base expressions; every -w / -b namespace subset and every -a attribute subset with :all and unknown names')


def replay(rep):
    if 'attribute' in rep['inputs']:
        out = name_task([rep['inputs']['attribute']])
        if out['viol']:
            print('VIOLATION property=%s replay=replayed' % PROP)
            return 1
        return 0
    flags = rep['inputs']['flags']
    code, rec, se, esc = run_cli(flags)
    print('exit=%r backend_ran=%r stderr=%r' % (code, rec is not None, se[-200:]))
    if rec is not None:
        print({ns: len(x['routes']) for ns, x in rec['ns'].items()}, rec['schema'])
    print('re-run ./check C19 to judge against the reference')
    return 0
