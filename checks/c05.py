"""C05 - encoded JSON is exactly the wire format of docs/json_serializer.rst.

For every (type shape, position) of the packed universe and every boundary value of the shape, both encoders are run
on an instance built through the public constructors; the parsed JSON must equal the reference encoding computed from
the stone.ir description (mc/rt.py ref_encode).
"""
import collections
import json

from mc import explore, impl, rt
from mc.explore import viol
from checks import rtbase
from stone.ir import data_types as dt

PROP = 'C05'


def values_for(u, t):
    rt.AWARE[0] = True
    rt.SUBCLASS[0] = True
    try:
        vals = rt.ref_values(t)
    finally:
        rt.AWARE[0] = False
        rt.SUBCLASS[0] = False
    # the catch-all tag is a sendable value for the encoder only (decoders must refuse it: C06)
    ut, _ = rt.strip(t)
    if isinstance(ut, dt.Union):
        for f in rt.union_tags(ut):
            if f.catch_all:
                vals = vals + [rt.UV(ut.namespace.name, ut.name, f.name, None)]
    return vals


def task(item):
    if item[0] == 'namecase':
        return rtbase.name_case_task(['wire'])
    if item[0] == 'history':
        return rtbase.history_task(task, item, TIER[0])
    pos, i = item
    u = rtbase.universe(TIER[0])
    t = u.ir_type(pos, i)
    val = u.validator(pos, i)
    shape = u.shapes[i]
    v_out = []
    oc = collections.Counter()
    n = 0
    for v in values_for(u, t):
        n += 1
        inputs = {'shape': shape, 'position': pos, 'value': rt.show(v)}
        try:
            inst = rt.instantiate(u.pkg, u.api, t, v)
        except Exception as e:  # noqa
            oc['construct-failed'] += 1
            v_out.append(viol(rtbase.runtime_identity(e, 'construct') + ':' + rtbase.shape_kind(shape), 'valid value refused by the generated classes: %r' % (e,), inputs, repr(e)))
            continue
        exp = rt.ref_encode(u.api, t, v)
        for entry in ('obj', 'str'):
            try:
                if entry == 'obj':
                    got = u.ss.json_compat_obj_encode(val, inst)
                    got = json.loads(json.dumps(got))
                else:
                    got = json.loads(u.ss.json_encode(val, inst))
            except Exception as e:  # noqa
                oc['encode-raised'] += 1
                v_out.append(viol(rtbase.runtime_identity(e, 'encode') + ':' + pos, 'encoding a valid value raised %r' % (e,), inputs, repr(e), json.dumps(exp)))
                continue
            if rtbase.json_equal(got, exp):
                oc['same:%s' % rtbase.json_kind(exp)] += 1
            else:
                oc['differs'] += 1
                v_out.append(viol('wire:%s:%s' % (pos, rtbase.shape_kind(shape)), 'encoding of %s at %s differs from the wire format: got %s, expected %s' % (
                    rt.show(v), shape, json.dumps(got)[:300], json.dumps(exp)[:300]), inputs, json.dumps(got), json.dumps(exp)))
    return {'outcome': oc, 'viol': v_out, 'n': n * 2, 'transitions': n}


TIER = ['quick']


def run(tier, seed):
    TIER[0] = tier
    r = explore.Run(PROP, tier, seed)
    try:
        u = rtbase.universe(tier)
    except rtbase.UniverseError as e:
        rtbase.universe_failure(r, PROP, e)
        return r.finish('packed universe could not be built')
    items = rtbase.items(tier) + [('namecase', 0)]
    r.bounds.update({'shapes': len(u.shapes), 'positions': list(rtbase.POSITIONS), 'nesting': 2 if tier == 'quick' else 3})
    for it in items[:2] + items[len(items) // 2:len(items) // 2 + 2]:
        t = u.ir_type(*it)
        vs = values_for(u, t)
        r.sample({'position': it[0], 'shape': u.shapes[it[1]], 'values': [rt.show(v) for v in vs[:3]],
                  'reference_encoding': [rt.ref_encode(u.api, t, v) for v in vs[:3]]})
    r.run_tasks(task, items, budget=120)
    hist = rtbase.history_items(tier)
    r.bounds['history_pairs'] = len(hist)
    r.run_tasks(task, hist, budget=240, order_base=len(items), fresh=True)
    r.assumptions = ['reference encoder written from docs/json_serializer.rst, driven by the stone.ir description (mc/rt.py)',
                     'key order of JSON objects is not compared']
    r.finish('every type shape (all expressions up to the nesting bound over primitives with boundary parameters, user types of every '
             'kind, aliases) at every position (struct field, union member, alias, route argument) x every boundary value x both encoders')


def replay(rep):
    print('replay of C05 findings re-runs the check on the recorded shape: %s' % rep['inputs'])
    TIER[0] = 'thorough'
    u = rtbase.universe('thorough')
    shape, pos = rep['inputs']['shape'], rep['inputs']['position']
    if shape not in u.shapes:
        print('shape not in universe')
        return 2
    if rep['inputs'].get('history') in u.shapes:
        task(('alias', u.shapes.index(rep['inputs']['history'])))
    out = task((pos, u.shapes.index(shape)))
    if out['viol']:
        print('VIOLATION property=%s replay=replayed' % PROP)
        return 1
    return 0
