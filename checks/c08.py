"""C08 - generated classes accept a value exactly when it satisfies the declared type.

(a) every primitive with every boundary parameter combination (a packed spec with one field / tag per parameterised
primitive and list) and (b) every shape of the runtime universe, each probed with valid boundary values, values one
step outside every bound, and one value of every wrong Python type, through three doors: attribute assignment on a
generated struct, the generated union constructor, and json_compat_obj_decode of primitives.  accept <=> reference valid.
"""
import collections
import datetime
import math

from mc import explore, impl, rt, paramspace, render
from mc.explore import viol
from checks import rtbase
from stone.ir import data_types as dt

PROP = 'C08'
TIER = ['quick']
_P = {}


def prim_universe():
    """Packed spec: holder struct/union with one member per valid parameterised primitive / list type."""
    if 'u' not in _P:
        types = paramspace.valid_param_types('thorough') + paramspace.valid_list_types()
        texts = [render.texpr(t) for t in types]
        u = rtbase.Universe.__new__(rtbase.Universe)
        specs, sl = rt.universe('quick', texts)
        rtbase.Universe.__init__.__wrapped__ if False else None
        _P['u'] = build(specs, sl)
    return _P['u']


def build(specs, sl):
    u = rtbase.Universe.__new__(rtbase.Universe)
    u.tier = 'prim'
    u.specs, u.shapes = specs, sl
    out = impl.compile_specs(specs)
    if out.kind != 'ok':
        raise rtbase.UniverseError('compile', out.brief(), specs)
    u.api = out.api
    pkg, fail = impl.build_python_package(u.api)
    if pkg is None:
        raise rtbase.UniverseError('generate', fail.identity, specs)
    u.pkg = pkg
    try:
        u.na = pkg.mod('na')
        u.nb = pkg.mod('nb')
    except Exception:
        import traceback
        raise rtbase.UniverseError('import', traceback.format_exc()[-2000:], specs)
    u.ss, u.bv = pkg.ss, pkg.bv
    na = u.api.namespaces['na']
    u.H = na.data_type_by_name['Holder']
    u.HU = na.data_type_by_name['HolderU']
    return u


def same_value(a, b):
    if isinstance(a, float) and isinstance(b, float) and math.isnan(a) and math.isnan(b):
        return True
    if isinstance(a, (list, tuple)) and isinstance(b, (list, tuple)):
        return len(a) == len(b) and all(same_value(x, y) for x, y in zip(a, b))
    if isinstance(a, dict) and isinstance(b, dict):
        return a.keys() == b.keys() and all(same_value(a[k], b[k]) for k in a)
    if isinstance(a, bool) or isinstance(b, bool):
        return a is b or (isinstance(a, bool) and isinstance(b, bool) and a == b) or a == b
    return a == b


def task(item):
    if item[0] == 'history':
        return rtbase.history_task(lambda it: task(('uni',) + tuple(it)), item, TIER[0])
    which, pos, i = item
    u = prim_universe() if which == 'prim' else rtbase.universe(TIER[0])
    VE = u.bv.ValidationError
    t = u.ir_type(pos, i)
    shape = u.shapes[i]
    oc = collections.Counter()
    out_v = []
    n = 0
    probes = rt.probes_for(u.pkg, u.api, t)
    # the wire door of a Timestamp: strings in and near the declared format, judged by the format alone (strptime is the definition
    # of "a string in the declared format")
    ut0 = rt.unalias(t)
    if pos == 'alias' and isinstance(ut0, dt.Timestamp):
        import datetime as _dtm
        from mc import rtdoc
        texts = []
        for v in rt.ts_values(ut0.format):
            good = v.strftime(ut0.format)
            texts.append(good)
            texts += [m for _, m in rtdoc.mutations(good) if isinstance(m, str)]
        for text in dict.fromkeys(texts):
            n += 1
            try:
                _dtm.datetime.strptime(text, ut0.format)
                verdict = True
            except ValueError:
                verdict = False
            inputs = {'shape': shape, 'position': pos, 'door': 'decode-timestamp-text', 'probe': text}
            try:
                u.ss.json_compat_obj_decode(u.validator(pos, i), text)
                accepted = True
            except VE:
                accepted = False
            except Exception as e:  # noqa
                oc['foreign-exception'] += 1
                out_v.append(viol('%s:decode-timestamp-text' % rtbase.runtime_identity(e, 'refusal-not-validation-error'), 'decoding %r as %s raised %r' % (text, shape, e), inputs, repr(e)))
                continue
            if accepted != verdict:
                oc['disagree'] += 1
                out_v.append(viol('%s:decode-timestamp-text:%s' % ('accepted-invalid' if accepted else 'refused-valid', rtbase.shape_kind(shape)),
                                  '%r is %s the declared format %r but was %s' % (text, 'in' if verdict else 'not in', ut0.format, 'accepted' if accepted else 'refused'), inputs))
            else:
                oc['agree-accept' if accepted else 'agree-refuse'] += 1
    for label, obj in probes:
        verdict = rt.ref_valid(u.pkg, u.api, t, obj)
        doors = []
        if pos == 'field':
            def door_setattr(obj=obj):
                h = u.na.Holder()
                setattr(h, 'f%d' % i, obj)
                return getattr(h, 'f%d' % i)
            doors.append(('setattr', door_setattr))
        elif pos == 'tag':
            def door_union(obj=obj):
                x = getattr(u.na.HolderU, 't%d' % i)(obj)
                return x._value
            doors.append(('union-ctor', door_union))
        elif pos == 'alias' and isinstance(rt.unalias(t), dt.Primitive) and not isinstance(rt.unalias(t), (dt.Bytes, dt.Timestamp)):
            def door_decode(obj=obj):
                return u.ss.json_compat_obj_decode(u.validator(pos, i), obj)
            doors.append(('decode-primitive', door_decode))
        for dname, door in doors:
            n += 1
            inputs = {'shape': shape, 'position': pos, 'door': dname, 'probe': label, 'value': repr(obj)[:200]}
            try:
                back = door()
                accepted = True
            except VE:
                accepted = False
            except Exception as e:  # noqa
                if isinstance(e, AssertionError) and dname == 'union-ctor' and False:
                    continue
                oc['foreign-exception'] += 1
                out_v.append(viol('%s:%s' % (rtbase.runtime_identity(e, 'refusal-not-validation-error'), dname),
                                  'probe %s for %s through %s raised %r instead of ValidationError' % (label, shape, dname, e), inputs, repr(e)))
                continue
            if verdict is None:
                oc['unspecified'] += 1
                continue
            if accepted != verdict:
                oc['disagree'] += 1
                kind = 'accepted-invalid' if accepted else 'refused-valid'
                out_v.append(viol('%s:%s:%s:%s' % (kind, dname, rtbase.shape_kind(shape), label.split(':')[0].split('<-')[0]),
                                  '%s: %s (%r) for %s through %s' % (kind, label, obj, shape, dname), inputs, 'accepted' if accepted else 'ValidationError',
                                  'valid' if verdict else 'invalid'))
                continue
            oc['agree-accept' if accepted else 'agree-refuse'] += 1
            if accepted and dname != 'decode-primitive':
                # reads back equal up to int->float and tuple->list
                exp = obj
                if not same_value(back, exp):
                    oc['readback-differs'] += 1
                    out_v.append(viol('readback:%s:%s' % (dname, rtbase.shape_kind(shape)), 'assigned %r, read back %r (%s)' % (obj, back, shape), inputs))
    # the universe's own unions: constructing each typed member (own and inherited tags) through the class's constructor method
    ut1 = rt.strip(t)[0]
    if pos == 'alias' and isinstance(ut1, dt.Union):
        cls = rt.py_class(u.pkg, ut1.namespace.name, ut1.name)
        for f in rt.union_tags(ut1):
            ft, _ = rt.strip(f.data_type)
            if isinstance(ft, dt.Void):
                continue
            for label, obj in rt.probes_for(u.pkg, u.api, f.data_type):
                verdict = rt.ref_valid(u.pkg, u.api, f.data_type, obj)
                n += 1
                inputs = {'shape': shape, 'position': 'member %s of %s' % (f.name, ut1.name), 'door': 'member-ctor', 'probe': label, 'value': repr(obj)[:200]}
                try:
                    back = getattr(cls, f.name)(obj)._value
                    accepted = True
                except VE:
                    accepted = False
                except Exception as e:  # noqa
                    oc['foreign-exception'] += 1
                    out_v.append(viol('%s:member-ctor' % rtbase.runtime_identity(e, 'refusal-not-validation-error'),
                                      'probe %s for member %s.%s raised %r instead of ValidationError' % (label, ut1.name, f.name, e), inputs, repr(e)))
                    continue
                if verdict is None:
                    oc['unspecified'] += 1
                elif accepted != verdict:
                    oc['disagree'] += 1
                    kind = 'accepted-invalid' if accepted else 'refused-valid'
                    out_v.append(viol('%s:member-ctor:%s:%s' % (kind, 'inherited-tag' if f not in ut1.fields else 'own-tag', label.split(':')[0].split('<-')[0]),
                                      '%s: %s (%r) for member %s.%s' % (kind, label, obj, ut1.name, f.name), inputs, 'accepted' if accepted else 'ValidationError', 'valid' if verdict else 'invalid'))
                else:
                    oc['agree-accept' if accepted else 'agree-refuse'] += 1
                    if accepted and not same_value(back, obj):
                        oc['readback-differs'] += 1
                        out_v.append(viol('readback:member-ctor', 'constructed %s.%s(%r), value reads back %r' % (ut1.name, f.name, obj, back), inputs))
    return {'outcome': oc, 'viol': out_v, 'n': n, 'transitions': n}


def run(tier, seed):
    TIER[0] = tier
    r = explore.Run(PROP, tier, seed)
    try:
        u = rtbase.universe(tier)
        pu = prim_universe()
    except rtbase.UniverseError as e:
        rtbase.universe_failure(r, PROP, e)
        return r.finish('packed universe could not be built')
    items = [('prim', pos, i) for pos in ('field', 'tag', 'alias') for i in range(len(pu.shapes))]
    items += [('uni', pos, i) for pos in ('field', 'tag', 'alias') for i in range(len(u.shapes))]
    r.bounds.update({'parameterised_primitive_types': len(pu.shapes), 'universe_shapes': len(u.shapes),
                     'doors': ['setattr on generated struct field', 'generated union constructor', 'json_compat_obj_decode of a primitive']})
    t = pu.ir_type('field', 3)
    r.sample({'shape': pu.shapes[3], 'probes': [(l, repr(o)[:60], rt.ref_valid(pu.pkg, pu.api, t, o)) for l, o in rt.probes_for(pu.pkg, pu.api, t)[:12]]})
    r.run_tasks(task, items, budget=120)
    hist = rtbase.history_items(tier)
    r.bounds['history_pairs'] = len(hist)
    r.run_tasks(task, hist, budget=240, order_base=len(items), fresh=True)
    r.assumptions = ['bool offered to integer/float types is unspecified (the runtime accepts it on purpose)',
                     'for user types only the class relation is judged on assignment (subclasses for structs, parent unions for unions)']
    r.finish('every parameterised primitive / list type and every universe shape x probes at bound-1, bound, bound+1, every length/item-count '
             'boundary, pattern full/prefix/suffix matches, one value of every wrong Python type, related and unrelated classes; three doors')


def replay(rep):
    TIER[0] = 'thorough'
    for which, u in (('prim', prim_universe()), ('uni', rtbase.universe('thorough'))):
        if rep['inputs']['shape'] in u.shapes:
            if which == 'uni' and rep['inputs'].get('history') in u.shapes:
                task(('uni', 'alias', u.shapes.index(rep['inputs']['history'])))
            out = task((which, rep['inputs']['position'], u.shapes.index(rep['inputs']['shape'])))
            if out['viol']:
                print('VIOLATION property=%s replay=replayed' % PROP)
                return 1
            return 0
    return 2
