"""C09 - generated Python modules load and expose the whole API as documented.

The codegen universe is the C01 exploration (every pair / triple of feature families) minus Python reserved words.  For
every model: python_types is run, and for EVERY namespace as first import the modules are imported (in-process under a
fresh package name for all models; additionally in a fresh interpreter for the multi-namespace models) and reflected:
classes, field attributes (read / write / delete), constructors, union helpers, inheritance, validators, routes, ROUTES.
"""
import collections
import importlib
import inspect
import itertools
import json
import os
import shutil
import subprocess
import sys

from mc import explore, render, impl, profiles, refsem
from mc import model as mm
from mc.model import P, L, M, N, R, NODEF, TagLit, Struct, Union, Alias, Route
from mc.explore import viol
from checks import c01

PROP = 'C09'
TIER = ['quick']


def route_pyname(r):
    # a route name may carry a path (get/metadata): builtin_backends.rst maps '/' to '_' in Python names
    base = r.name.replace('/', '_')
    return base if r.version == 1 else '%s_v%d' % (base, r.version)


def vsig_expected(model, ns_name, t):
    """Structural signature of the validator a type expression must be given."""
    if isinstance(t, P):
        a = dict(t.args)
        if t.kind in ('Int32', 'Int64', 'UInt32', 'UInt64'):
            lo, hi = {'Int32': (-2**31, 2**31 - 1), 'UInt32': (0, 2**32 - 1), 'Int64': (-2**63, 2**63 - 1), 'UInt64': (0, 2**64 - 1)}[t.kind]
            return [t.kind, a.get('min_value', lo), a.get('max_value', hi)]
        if t.kind in ('Float32', 'Float64'):
            lo, hi = (-3.40282e38, 3.40282e38) if t.kind == 'Float32' else (None, None)
            mn, mx = a.get('min_value'), a.get('max_value')
            return [t.kind, float(mn) if mn is not None else lo, float(mx) if mx is not None else hi]
        if t.kind == 'String':
            return ['String', a.get('min_length'), a.get('max_length'), a.get('pattern')]
        if t.kind == 'Timestamp':
            return ['Timestamp', a.get('')]
        return [t.kind]
    if isinstance(t, L):
        return ['List', vsig_expected(model, ns_name, t.item), t.min_items, t.max_items]
    if isinstance(t, M):
        return ['Map', ['String', None, None, None], vsig_expected(model, ns_name, t.value)]
    if isinstance(t, N):
        return ['Nullable', vsig_expected(model, ns_name, t.inner)]
    if isinstance(t, R):
        tns, d = mm.resolve(model, ns_name, t)
        if isinstance(d, Alias):
            return vsig_expected(model, tns, d.type)
        if isinstance(d, Struct):
            tree = d.subtypes is not None
            return ['StructTree' if tree else 'Struct', tns, d.name]
        return ['Union', tns, d.name]
    raise TypeError(t)


def vsig_actual(pkg, v, depth=0):
    bv = pkg.bv
    if depth > 20:
        return ['!deep']
    n = type(v).__name__
    if isinstance(v, bv.Nullable):
        return ['Nullable', vsig_actual(pkg, v.validator, depth + 1)]
    if isinstance(v, bv.List):
        return ['List', vsig_actual(pkg, v.item_validator, depth + 1), v.min_items, v.max_items]
    if isinstance(v, bv.Map):
        return ['Map', vsig_actual(pkg, v.key_validator, depth + 1), vsig_actual(pkg, v.value_validator, depth + 1)]
    if isinstance(v, bv.Integer):
        return [n, v.minimum, v.maximum]
    if isinstance(v, bv.Real):
        return [n, v.minimum, v.maximum]
    if isinstance(v, bv.String):
        return ['String', v.min_length, v.max_length, v.pattern]
    if isinstance(v, bv.Timestamp):
        return ['Timestamp', v.format]
    if isinstance(v, (bv.Struct, bv.Union)):
        kind = 'StructTree' if isinstance(v, bv.StructTree) else ('Struct' if isinstance(v, bv.Struct) else 'Union')
        d = v.definition
        return [kind, d.__module__.rsplit('.', 1)[-1], d.__name__]
    return [n]


def reflect(pkg, model, order):
    """Import the namespace modules in `order`, then compare each with the model. Returns list of (identity, what)."""
    bad = []
    mods = {}
    for nsn in order:
        try:
            mods[nsn] = pkg.mod(nsn)
        except Exception as e:  # noqa
            bad.append((impl.import_error_identity(e) + ':first=%s' % (order[0] == nsn), 'importing %s (order %r) raised %r' % (nsn, order, e)))
            return bad
    bb, bv = pkg.bb, pkg.bv
    schema = refsem.schema_fields(model)
    for nsn in order:
        mod = mods[nsn]
        routes_expected = {}
        for n, fi, di, d in mm.all_defs(model, nsn):
            if isinstance(d, (Struct, Union)):
                cls = getattr(mod, d.name, None)
                if not inspect.isclass(cls):
                    bad.append(('missing-class:%s' % type(d).__name__.lower(), 'module %s defines no class %s' % (nsn, d.name)))
                    continue
                val = getattr(mod, d.name + '_validator', None)
                if val is None or getattr(val, 'definition', None) is not cls:
                    bad.append(('missing-validator:%s' % type(d).__name__.lower(), '%s.%s_validator is %r' % (nsn, d.name, val)))
                if d.parent is not None:
                    pns, pd = mm.resolve(model, nsn, d.parent)
                    pcls = getattr(mods[pns], pd.name, None)
                    if pcls is None or not issubclass(cls, pcls):
                        bad.append(('inheritance:%s' % type(d).__name__.lower(), 'class %s.%s is not a subclass of %s.%s' % (nsn, d.name, pns, pd.name)))
                else:
                    base = bb.Struct if isinstance(d, Struct) else bb.Union
                    if not issubclass(cls, base):
                        bad.append(('inheritance:base', 'class %s.%s does not derive from %s' % (nsn, d.name, base.__name__)))
            if isinstance(d, Struct):
                cls = getattr(mod, d.name)
                chain = list(reversed(mm.struct_chain(model, nsn, d)))
                all_fields = [(cns, f) for cns, cs in chain for f in mm.own_members(model, cns, cs)]
                # constructor takes all fields including inherited ones
                try:
                    params = [p for p in inspect.signature(cls.__init__).parameters if p != 'self']
                except Exception as e:  # noqa
                    params = ['!%r' % e]
                if sorted(params) != sorted(f.name for _, f in all_fields):
                    bad.append(('ctor-params:struct', '%s.%s.__init__ takes %r, fields are %r' % (nsn, d.name, params, [f.name for _, f in all_fields])))
                try:
                    inst = cls()
                except Exception as e:  # noqa
                    bad.append(('ctor-raised:%s' % type(e).__name__, '%s.%s() raised %r' % (nsn, d.name, e)))
                    continue
                for cns, f in all_fields:
                    own = any(f is g for g in mm.own_members(model, nsn, d))
                    where = 'own' if own else 'inherited'
                    desc = inspect.getattr_static(cls, f.name, None)
                    if desc is None:
                        bad.append(('missing-attribute:%s' % where, 'class %s.%s has no attribute for field %s' % (nsn, d.name, f.name)))
                        continue
                    nullable = mm.is_nullable(model, cns, f.type)
                    # unset read
                    try:
                        got = getattr(inst, f.name)
                        if nullable:
                            if got is not None:
                                bad.append(('unset-read:nullable', 'unset nullable field %s.%s reads %r' % (d.name, f.name, got)))
                        elif f.default == NODEF:
                            bad.append(('unset-read:required', 'unset required field %s.%s reads %r instead of raising AttributeError' % (d.name, f.name, got)))
                        elif isinstance(f.default, TagLit):
                            # a tag default reads as the ready instance of that tag, whatever the order of the two classes in the module
                            if not isinstance(got, bb.Union) or getattr(got, '_tag', None) != f.default.tag:
                                bad.append(('unset-read:tag-default', 'unset field %s.%s (default tag %s) reads %r' % (d.name, f.name, f.default.tag, got)))
                        elif got is None or (isinstance(f.default, (bool, int, str)) and not isinstance(f.default, float) and type(got) is type(f.default) and got != f.default):
                            bad.append(('unset-read:default-value', 'unset field %s.%s (default %r) reads %r' % (d.name, f.name, f.default, got)))
                    except AttributeError:
                        if nullable or f.default != NODEF:
                            bad.append(('unset-read:%s' % ('nullable' if nullable else 'defaulted'), 'unset optional field %s.%s raised AttributeError' % (d.name, f.name)))
                    except Exception as e:  # noqa
                        bad.append(('unset-read-raised:%s' % type(e).__name__, 'reading unset %s.%s raised %r' % (d.name, f.name, e)))
                    # the validator attached to the field
                    if own:
                        exp = vsig_expected(model, cns, f.type)
                        act = vsig_actual(pkg, getattr(desc, 'validator', None))
                        if act != exp:
                            bad.append(('field-validator:%s' % exp[0], 'validator of %s.%s.%s is %r, expected %r' % (nsn, d.name, f.name, act, exp)))
                    # delete
                    try:
                        delattr(inst, f.name)
                    except Exception as e:  # noqa
                        bad.append(('delete-raised:%s' % type(e).__name__, 'del %s.%s raised %r' % (d.name, f.name, e)))
            elif isinstance(d, Union):
                cls = getattr(mod, d.name)
                for (tname, ttype, catch_all, tns) in refsem.union_all_tags(model, nsn, d):
                    kind = 'catch-all' if catch_all else ('void' if ttype is None else 'typed')
                    if not callable(getattr(cls, 'is_' + tname, None)):
                        bad.append(('missing-is:%s' % kind, 'union %s.%s has no is_%s' % (nsn, d.name, tname)))
                    if ttype is None:
                        inst = inspect.getattr_static(cls, tname, None)
                        inst = getattr(cls, tname, None)
                        # an inherited void tag is the parent union's ready instance (a parent union's value is a valid
                        # value of the child union)
                        if not isinstance(inst, bb.Union) or not issubclass(cls, type(inst)) or getattr(inst, '_tag', None) != tname:
                            bad.append(('void-tag-instance:%s' % kind, '%s.%s.%s is %r, expected a ready instance' % (nsn, d.name, tname, inst)))
                        else:
                            try:
                                if getattr(inst, 'is_' + tname)() is not True:
                                    bad.append(('is-wrong', '%s.%s.is_%s() is not True' % (d.name, tname, tname)))
                            except Exception as e:  # noqa
                                bad.append(('is-raised:%s' % type(e).__name__, '%s.%s.is_%s() raised %r' % (d.name, tname, tname, e)))
                    else:
                        if not callable(getattr(cls, tname, None)):
                            bad.append(('missing-ctor:typed', 'union %s.%s has no constructor method %s' % (nsn, d.name, tname)))
                        if not callable(getattr(cls, 'get_' + tname, None)):
                            bad.append(('missing-get:typed', 'union %s.%s has no get_%s' % (nsn, d.name, tname)))
                        tm = getattr(cls, '_tagmap', {})
                        if tname in tm:
                            exp = vsig_expected(model, tns, ttype)
                            act = vsig_actual(pkg, tm[tname])
                            if act != exp:
                                bad.append(('tag-validator:%s' % exp[0], 'validator of tag %s.%s.%s is %r, expected %r' % (nsn, d.name, tname, act, exp)))
            elif isinstance(d, Alias):
                val = getattr(mod, d.name + '_validator', None)
                if val is None:
                    bad.append(('missing-validator:alias', 'module %s has no %s_validator' % (nsn, d.name)))
                else:
                    exp = vsig_expected(model, nsn, d.type)
                    act = vsig_actual(pkg, val)
                    if act != exp:
                        bad.append(('alias-validator:%s' % exp[0], '%s.%s_validator is %r, expected %r' % (nsn, d.name, act, exp)))
            elif isinstance(d, Route):
                routes_expected['%s:%d' % (d.name, d.version) if d.version != 1 else d.name] = d
                obj = getattr(mod, route_pyname(d), None)
                if obj is None or not isinstance(obj, bb.Route):
                    bad.append(('missing-route', 'module %s has no route object %s' % (nsn, route_pyname(d))))
                    continue
                if obj.name != d.name or obj.version != d.version or obj.deprecated != (d.deprecated is not None):
                    bad.append(('route-attributes', 'route %s: name/version/deprecated = %r/%r/%r' % (route_pyname(d), obj.name, obj.version, obj.deprecated)))
                for slot, t in (('arg_type', d.arg), ('result_type', d.result), ('error_type', d.error)):
                    exp = vsig_expected(model, nsn, t)
                    act = vsig_actual(pkg, getattr(obj, slot))
                    if act != exp:
                        bad.append(('route-validator:%s:%s' % (slot, exp[0]), 'route %s.%s is %r, expected %r' % (route_pyname(d), slot, act, exp)))
                exp_attrs = refsem.routesig(model, nsn, d, schema)['attrs']
                for k, ev in exp_attrs.items():
                    if ev is None:
                        continue
                    got = obj.attrs.get(k, '<missing>')
                    if ev[0] == 'null':
                        okv = got is None
                    elif ev[0] in ('int', 'float', 'str', 'bool'):
                        okv = got == ev[1] and type(got).__name__ == ev[0]
                    else:
                        okv = True          # tag references / timestamps: representation in generated code is not specified
                    if not okv:
                        bad.append(('route-attr-value:%s' % ev[0], 'route %s attr %s is %r, expected %r' % (route_pyname(d), k, got, ev)))
        table = getattr(mod, 'ROUTES', None)
        if not isinstance(table, dict):
            bad.append(('missing-ROUTES', 'module %s has no ROUTES dict' % nsn))
        else:
            if sorted(table) != sorted(routes_expected):
                bad.append(('ROUTES-keys', 'ROUTES of %s lists %r, expected %r' % (nsn, sorted(table), sorted(routes_expected))))
            for k, d in routes_expected.items():
                if k in table and table[k] is not getattr(mod, route_pyname(d), None):
                    bad.append(('ROUTES-object', 'ROUTES[%r] is not the route object' % k))
    return bad


SUBPROCESS_SCRIPT = '''
import sys, json, importlib
sys.path.insert(0, sys.argv[1])
out = {}
for ns in sys.argv[3:]:
    try:
        m = importlib.import_module(sys.argv[2] + '.' + ns)
        out[ns] = sorted(n for n in dir(m) if not n.startswith('__'))
    except Exception as e:
        out[ns] = 'ERROR %s: %s' % (type(e).__name__, e)
        break
print(json.dumps(out))
'''


# identifiers that are legal in a spec, are not Python reserved words, and collide with something the generated module uses
HAZARD_FIELDS = ['self', 'cls', 'type', 'id', 'property', 'object', 'bb', 'bv', 'validator', 'x_', '_x', '_tag', '_value', 'is_x', 'get_x', 'tag', 'value',
                 'dict', 'str', 'int', 'print', 'exec', 'match', 'case', 'datetime', 'warnings', 'other_', 'field', 'default']
HAZARD_TYPES = ['Exception', 'Object', 'Dict', 'Type', 'Bb', 'Bv', 'Struct', 'Union', 'Route', 'Text', 'Validator', 'Attribute', 'Datetime', 'Ss',
                'HTTPError', 'io_error', 'plainReply', 'X2y', 'ABC']
HAZARD_NAMESPACES = ['bb', 'bv', 'stone_base', 'typing', 'datetime', 'sys', 'json', 're', 'warnings', 'base', 'ns1', 'a_b']


HAZARD_CALLERS = ['teamAdmin', 'Team', 'team_admin2', 'team-admin', 'team admin', '2fa', 'élan']


def caller_task(name):
    """The caller class of Omitted(...) is a free-form string of the spec: the module must load and the field must be there for a
    caller holding exactly that permission."""
    specs = [('a.stone', 'namespace a\n\nannotation Om = Omitted("%s")\n\nstruct S\n    pub Int32\n    hid String\n        @Om\n\nstruct C extends S\n    own String?\n        @Om\n\nunion U\n    v\n    t String\n        @Om\n' % name)]
    inputs = {'specs': specs, 'position': 'omitted-caller', 'name': name}
    out = impl.compile_specs(specs)
    if out.kind != 'ok':
        return {'outcome': 'hazard:not-accepted', 'viol': [], 'n': 1}
    pkg, fail = impl.build_python_package(out.api)
    if pkg is None:
        return {'outcome': 'hazard:generate-failed', 'viol': [viol('hazard-name:omitted-caller:%s:generate' % name, 'python_types fails for a caller class named %r: %s' % (name, fail.identity), inputs, fail.tb)], 'n': 1}
    try:
        try:
            m = pkg.mod('a')
            ss = pkg.ss

            class CP(ss.CallerPermissionsInterface):
                @property
                def permissions(self):
                    return [name]
            enc = ss.json_compat_obj_encode(m.C_validator, m.C(pub=1, hid='h', own='o'), caller_permissions=CP())
            if enc != {'pub': 1, 'hid': 'h', 'own': 'o'}:
                return {'outcome': 'hazard:differs', 'viol': [viol('hazard-name:omitted-caller:%s:encode' % name, 'a caller holding %r gets %r' % (name, enc), inputs)], 'n': 1}
            enc2 = ss.json_compat_obj_encode(m.C_validator, m.C(pub=1, hid='h', own='o'))
            if enc2 != {'pub': 1}:
                return {'outcome': 'hazard:differs', 'viol': [viol('hazard-name:omitted-caller:%s:leak' % name, 'a caller without permissions gets %r' % (enc2,), inputs)], 'n': 1}
        except Exception as e:  # noqa
            return {'outcome': 'hazard:raised', 'viol': [viol('hazard-name:omitted-caller:%s:%s' % (name, type(e).__name__), 'python_types output for a caller class named %r: %s: %s' % (name, type(e).__name__, str(e)[:200]), inputs)], 'n': 1}
    finally:
        pkg.close()
    return {'outcome': 'hazard:same', 'viol': [], 'n': 1}


def hazard_task(pos, name):
    if pos == 'omitted-caller':
        return caller_task(name)
    if pos == 'field':
        specs = [('a.stone', 'namespace a\n\nstruct S\n    %s Int32\n    x Int32 = 2\n\nunion U\n    %s\n    t2 S\n\nstruct C extends S\n    y %s?\n' % (name, name, 'U'))]
    elif pos == 'type':
        specs = [('a.stone', 'namespace a\n\nstruct %s\n    f Int32\n\nstruct T extends %s\n    g %s?\n\nunion Uu\n    t %s\n\nalias Al = %s\n\nroute r(%s, Void, Void)\n' % ((name,) * 6) +
                  '\nstruct %sRoot\n    union\n        leaf %sLeaf\n    k Int32\n\nstruct %sLeaf extends %sRoot\n    m Int32\n\nunion %sChoice\n    one\n    two %s\n' % ((name,) * 6)),
                 ('zz.stone', 'namespace zz\n\nimport a\n\nstruct Far\n    g a.%s\n    h List(a.%sRoot)?\n    c a.%sChoice = one\n\nalias FarAl = a.%s\n\nunion FarU\n    t a.%sLeaf\n\nroute reach(a.%s, a.%sRoot, a.%sChoice)\n' % ((name,) * 8))]
    else:
        specs = [('x.stone', 'namespace %s\n\nstruct S\n    f Timestamp("%%Y") = "2000"\n\nunion U\n    a\n    b S\n' % name),
                 ('y.stone', 'namespace zz\n\nimport %s\n\nstruct T\n    g %s.S\n    h %s.U = a\n\nroute r(%s.S, T, Void)\n' % ((name,) * 4))]
    inputs = {'specs': specs, 'position': pos, 'name': name}
    out = impl.compile_specs(specs)
    if out.kind != 'ok':
        # the compiler may refuse a name (for instance one that clashes with a built-in type): not a matter for this property
        return {'outcome': 'hazard:not-accepted', 'viol': [], 'n': 1}
    pkg, fail = impl.build_python_package(out.api)
    if pkg is None:
        return {'outcome': 'hazard:generate-failed', 'viol': [viol('hazard-name:%s:%s:generate' % (pos, name), 'python_types fails for %s named %s: %s' % (pos, name, fail.identity), inputs, fail.tb)], 'n': 1}
    try:
        try:
            mods = {n: pkg.mod(n) for n in out.api.namespaces}
            if pos == 'field':
                m = mods['a']
                arg = [a for a in m.S.__init__.__code__.co_varnames[1:3]][0]
                s1 = m.S(**{arg: 1})
                enc = pkg.ss.json_compat_obj_encode(m.S_validator, s1)
                if enc != {name: 1}:
                    return {'outcome': 'hazard:differs', 'viol': [viol('hazard-name:field:%s:encode' % name, 'struct with a field named %s encodes as %r' % (name, enc), inputs)], 'n': 1}
                dec = pkg.ss.json_compat_obj_decode(m.S_validator, {name: 1, 'x': 3})
                if dec != m.S(**{arg: 1, 'x': 3}):
                    return {'outcome': 'hazard:differs', 'viol': [viol('hazard-name:field:%s:decode' % name, 'struct with a field named %s does not round-trip' % name, inputs)], 'n': 1}
                c = m.C(**{arg: 1})
                if pkg.ss.json_compat_obj_encode(m.C_validator, c) != {name: 1}:
                    return {'outcome': 'hazard:differs', 'viol': [viol('hazard-name:field:%s:subclass' % name, 'subclass of a struct with a field named %s misbehaves' % name, inputs)], 'n': 1}
                u = pkg.ss.json_compat_obj_decode(m.U_validator, {'.tag': name})
                if pkg.ss.json_compat_obj_encode(m.U_validator, u) not in ({'.tag': name}, name):
                    return {'outcome': 'hazard:differs', 'viol': [viol('hazard-name:tag:%s' % name, 'union with a tag named %s does not round-trip' % name, inputs)], 'n': 1}
            elif pos == 'type':
                m = mods['a']
                from stone.backends.python_helpers import fmt_class
                cls = getattr(m, fmt_class(name))
                t = m.T(f=1)
                if not isinstance(t, cls) or pkg.ss.json_compat_obj_encode(m.T_validator, t) != {'f': 1}:
                    return {'outcome': 'hazard:differs', 'viol': [viol('hazard-name:type:%s:use' % name, 'struct named %s misbehaves' % name, inputs)], 'n': 1}
                leaf = getattr(m, fmt_class(name + 'Leaf'))(k=1, m=2)
                root_v = getattr(m, fmt_class(name + 'Root') + '_validator')
                enc = pkg.ss.json_compat_obj_encode(root_v, leaf)
                if enc != {'.tag': 'leaf', 'k': 1, 'm': 2} or pkg.ss.json_compat_obj_decode(root_v, enc) != leaf:
                    return {'outcome': 'hazard:differs', 'viol': [viol('hazard-name:type:%s:subtypes' % name, 'subtype tree named after %s: encoding %r' % (name, enc), inputs)], 'n': 1}
                far = mods['zz'].Far(g=cls(f=3))
                if pkg.ss.json_compat_obj_encode(mods['zz'].Far_validator, far) != {'g': {'f': 3}}:
                    return {'outcome': 'hazard:differs', 'viol': [viol('hazard-name:type:%s:foreign-use' % name, 'type named %s used from another namespace misbehaves' % name, inputs)], 'n': 1}
            else:
                t = mods['zz'].T(g=mods[name].S())
                enc = pkg.ss.json_compat_obj_encode(mods['zz'].T_validator, t)
                if enc != {'g': {}}:
                    return {'outcome': 'hazard:differs', 'viol': [viol('hazard-name:namespace:%s:use' % name, 'namespace named %s: encoding is %r' % (name, enc), inputs)], 'n': 1}
        except Exception as e:  # noqa
            return {'outcome': 'hazard:raised', 'viol': [viol('hazard-name:%s:%s:%s' % (pos, name, type(e).__name__), 'python_types output for %s named %s: %s: %s' % (pos, name, type(e).__name__, str(e)[:200]),
                                                                   inputs)], 'n': 1}
    finally:
        pkg.close()
    return {'outcome': 'hazard:same', 'viol': [], 'n': 1}


def task(item):
    if item[0] == 'hazard':
        return hazard_task(item[1], item[2])
    if item[0] == 'isolated':
        from checks import c10
        return c10.isolated_default_task(item)
    if item[0] == 'tag-default':
        return tag_default_task(item)
    model, trace, pname, flags, depth = item
    specs = render.render(model)
    out = impl.compile_specs(specs)
    if out.kind != 'ok':
        return {'outcome': 'not-accepted', 'viol': []}
    nss = [ns.name for ns in model.namespaces if ns.name != 'stone_cfg']
    oc = collections.Counter()
    v = []
    n = 0
    orders = [tuple([first] + [x for x in nss if x != first]) for first in nss]
    for order in orders:
        n += 1
        pkg, fail = impl.build_python_package(out.api)
        if pkg is None:
            oc['generate-failed'] += 1
            v.append(viol('generate:%s' % fail.identity, 'python_types failed on an accepted spec: %s' % fail.identity, {'specs': specs, 'trace': list(trace)}, fail.tb))
            break
        try:
            bad = reflect(pkg, model, order)
            if len(nss) > 1 and depth <= SUBPROC_DEPTH[0]:
                p = subprocess.run([sys.executable, '-c', SUBPROCESS_SCRIPT, pkg.root, pkg.name] + list(order), capture_output=True, text=True,
                                   env=dict(os.environ, PYTHONDONTWRITEBYTECODE='1'))
                oc['fresh-interpreter'] += 1
                try:
                    rep = json.loads(p.stdout)
                except ValueError:
                    rep = {'?': 'ERROR no output: ' + p.stderr[-300:]}
                for nsn, names in rep.items():
                    if isinstance(names, str):
                        bad.append(('fresh-interpreter-import', 'fresh interpreter, order %r: %s' % (order, names)))
        finally:
            pkg.close()
        if bad:
            oc['differs'] += 1
            for ident, what in bad:
                v.append(viol(ident, what, {'specs': specs, 'trace': list(trace), 'import_order': list(order)}))
        else:
            oc['ok'] += 1
    return {'outcome': oc, 'viol': v, 'n': n, 'transitions': n}


SUBPROC_DEPTH = [3]


def run(tier, seed):
    TIER[0] = tier
    r = explore.Run(PROP, tier, seed)
    budget = 500 if tier == 'quick' else None
    states = c01.gather_states(tier, r, budget=budget)
    SUBPROC_DEPTH[0] = 4 if tier == 'quick' else 6
    r.bounds['fresh_interpreter_for_multi_namespace_models_up_to_depth'] = SUBPROC_DEPTH[0]
    for s, tr, pn, fl, d in states[:1] + states[len(states) // 2:len(states) // 2 + 1]:
        r.sample({'profile': pn, 'trace': list(tr), 'specs': render.render(s)})
    hazards = [('hazard', 'field', n) for n in HAZARD_FIELDS] + [('hazard', 'type', n) for n in HAZARD_TYPES] + [('hazard', 'namespace', n) for n in HAZARD_NAMESPACES]
    hazards += [('hazard', 'omitted-caller', n) for n in HAZARD_CALLERS]
    r.bounds['hazard_identifiers'] = len(hazards)
    # modules that contain a single defaulted field (directly typed, through a local / imported / chained alias): whatever the
    # default needs (imports, helper names) must be brought in by that one field
    from mc import paramspace
    from mc.machine import valid_literals
    kinds_seen = set()
    for t in paramspace.valid_param_types('thorough'):
        lits = list(valid_literals(t))
        if not lits or t.kind in kinds_seen:
            continue
        kinds_seen.add(t.kind)
        for how in ('direct', 'local-alias', 'imported-alias', 'alias-chain-over-three-namespaces'):
            hazards.append(('isolated', t, lits[0], how))
    tds = tag_default_items()
    r.bounds['tag_default_modules'] = len(tds)
    hazards += tds
    r.run_tasks(task, list(states) + hazards, budget=300, chunksize=8)
    r.assumptions = ['identifiers of the explored models are already in the case style of the generated names (name styles: see DESIGN)',
                     'representation of tag-reference and timestamp route attributes in generated code is not judged']
    r.finish('every model of every family-pair profile x every namespace as first import: python_types output imported (fresh package in-process; '
             'fresh interpreter for the multi-namespace models up to the stated depth) and reflected against the model')


# a struct field whose default is a void tag: {struct name before / after the union's name} x {union here, imported} x {typed directly,
# through an alias whose name sorts first / last} x {own tag, tag inherited from a parent union} x {holder is a plain struct, a child struct}
TAG_DEFAULT_NAMES = [('Box', 'Zoom'), ('Zoom', 'Box')]


def tag_default_items():
    out = []
    for sname, uname in TAG_DEFAULT_NAMES:
        for where in ('local', 'imported'):
            for via in ('direct', 'alias-first', 'alias-last'):
                for tag in ('fit', 'base'):
                    for holder in ('plain', 'child'):
                        out.append(('tag-default', sname, uname, where, via, tag, holder))
    return out


def tag_default_specs(item):
    _, sname, uname, where, via, tag, holder = item
    udef = 'union %sRoot\n    base\n    other_one String\n\nunion %s extends %sRoot\n    fit\n    fill String\n' % (uname, uname, uname)
    q = 'far.' if where == 'imported' else ''
    ref = q + uname
    alias = ''
    if via != 'direct':
        an = 'Aaa' if via == 'alias-first' else 'Zzz'
        alias = 'alias %s = %s\n\n' % (an, ref)
        ref = an
    sdef = 'struct %s\n    late %s = %s\n    n Int32 = 3\n' % (sname, ref, tag)
    if holder == 'child':
        sdef = 'struct %sP\n    late %s = %s\n\nstruct %s extends %sP\n    own %s = %s\n' % (sname, ref, tag, sname, sname, ref, tag)
    if where == 'imported':
        return [('far.stone', 'namespace far\n\n' + udef), ('iso.stone', 'namespace iso\n\nimport far\n\n' + alias + sdef)]
    return [('iso.stone', 'namespace iso\n\n' + alias + sdef + '\n' + udef)]


def tag_default_task(item):
    _, sname, uname, where, via, tag, holder = item
    specs = tag_default_specs(item)
    inputs = {'specs': specs, 'struct': sname, 'union': uname, 'where': where, 'via': via, 'tag': tag, 'holder': holder}
    out = impl.compile_specs(specs)
    if out.kind != 'ok':
        raise explore.InternalError('tag-default spec is not accepted: %s' % out.brief())
    pkg, fail = impl.build_python_package(out.api)
    if pkg is None:
        return {'outcome': 'tag-default:generate-failed', 'viol': [viol('tag-default:generate:%s' % fail.identity, 'python_types fails: %s' % fail.identity, inputs, fail.tb)], 'n': 1}
    v = []
    try:
        try:
            iso = pkg.mod('iso')
            ucls = getattr(pkg.mod('far' if where == 'imported' else 'iso'), uname)
            inst = getattr(iso, sname)()
            for fname in ['late'] + (['own'] if holder == 'child' else []):
                got = getattr(inst, fname)
                if not isinstance(got, pkg.bb.Union) or getattr(got, '_tag', None) != tag or not issubclass(ucls, type(got)):
                    v.append(viol('tag-default:value:%s:%s' % ('struct-first' if sname < uname else 'union-first', 'inherited-field' if fname == 'late' and holder == 'child' else 'own-field'),
                                  'unset field %s.%s (default %s of %s, %s, %s) reads %r' % (sname, fname, tag, uname, where, via, got), inputs))
                setattr(inst, fname, got)
                delattr(inst, fname)
                if getattr(inst, fname) != got:
                    v.append(viol('tag-default:after-delete', 'after del, %s.%s reads %r' % (sname, fname, getattr(inst, fname)), inputs))
        except Exception as e:  # noqa
            v.append(viol('tag-default:%s' % impl.import_error_identity(e), 'module with a tag default (%s): %r' % (item[1:], e), inputs))
    finally:
        pkg.close()
    return {'outcome': 'tag-default:ok' if not v else 'tag-default:violation', 'viol': v, 'n': 1}


def replay(rep):
    specs = [tuple(x) for x in rep['inputs']['specs']]
    if rep['identity'].startswith('tag-default:') and 'holder' in rep['inputs']:
        i = rep['inputs']
        out = tag_default_task(('tag-default', i['struct'], i['union'], i['where'], i['via'], i['tag'], i['holder']))
        if out['viol']:
            print('VIOLATION property=%s replay=replayed' % PROP)
            return 1
        return 0
    out = impl.compile_specs(specs)
    if out.kind != 'ok':
        return 0
    pkg, fail = impl.build_python_package(out.api)
    if pkg is None:
        print('VIOLATION property=%s replay=replayed' % PROP)
        return 1
    try:
        for nsn in rep['inputs'].get('import_order', list(out.api.namespaces)):
            pkg.mod(nsn)
        print('modules import; the reflection oracle needs the model: re-run ./check C09')
        return 1 if rep['identity'].startswith(('missing', 'ctor', 'unset', 'field-validator', 'tag-validator', 'alias-validator', 'route', 'ROUTES', 'inheritance', 'void', 'is-', 'delete')) else 0
    except Exception as e:  # noqa
        print('import raised %r' % (e,))
        print('VIOLATION property=%s replay=replayed' % PROP)
        return 1
    finally:
        pkg.close()
