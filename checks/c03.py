"""C03 - compilation of arbitrary text ends in an API description or a spec error.

Every input of the text spaces (mc/textspace.py) is compiled with specs_to_ir under a watchdog: the outcome must
be an Api or a well-formed InvalidSpec.  One representative of every distinct outcome class is additionally pushed
through stone.cli.main in-process: exit 0, or exit 1 with `path:line: error: message` on stderr, never a traceback.
Pairs of texts (one member per outcome class) cover "any combination of such texts".
"""
import collections
import os
import re
import shutil

from mc import explore, impl, textspace
from mc.explore import viol

PROP = 'C03'


def classify(out):
    if out.kind == 'ok':
        return 'ok'
    if out.kind == 'invalid':
        m = re.sub(r"'[^']*'|\"[^\"]*\"", "'_'", out.msg or '')
        m = re.sub(r'\d+', 'N', m)
        return 'invalid:' + m[:50]
    return out.escape_identity()


def judge(specs, out):
    v = []
    paths = [p for p, _ in specs]
    if out.kind == 'escape':
        v.append(viol(out.escape_identity(), 'foreign exception escapes specs_to_ir: ' + out.brief(), {'specs': specs}, out.tb,
                      'Api or InvalidSpec'))
    elif out.kind == 'invalid':
        if not isinstance(out.msg, str) or not out.msg.strip():
            v.append(viol('malformed-error:empty-message', 'InvalidSpec with empty message', {'specs': specs}, out.brief()))
        if out.lineno is not None and (not isinstance(out.lineno, int) or isinstance(out.lineno, bool)):
            v.append(viol('malformed-error:lineno', 'InvalidSpec.lineno is %r' % (out.lineno,), {'specs': specs}, out.brief()))
        if out.path is not None and out.path not in paths:
            v.append(viol('malformed-error:path', 'InvalidSpec.path %r is not an input path' % (out.path,), {'specs': specs},
                          out.brief()))
    return v


def task(item):
    label, specs = item
    out = impl.compile_specs(specs)
    v = judge(specs, out)
    for x in v:
        x['inputs']['label'] = label
    return {'outcome': classify(out), 'viol': v, 'rep': (classify(out), label)}


CLI_RE = re.compile(r'^(?P<path>[^\n:]*):(?P<line>\d+|None): error: .+', re.S)


def cli_task(item):
    label, specs = item
    d = explore.fresh_dir('cli')
    try:
        paths = []
        for i, (p, t) in enumerate(specs):
            fp = os.path.join(d, '%d_%s' % (i, os.path.basename(p)))
            with open(fp, 'w', encoding='utf-8') as f:
                f.write(t)
            paths.append(fp)
        be = os.path.join(d, 'noop.stoneg.py')
        with open(be, 'w') as f:
            f.write('from stone.backend import Backend\nclass NoopBackend(Backend):\n    preserve_aliases = True\n    def generate(self, api):\n        pass\n')
        code, api, out, err, esc = impl.run_cli([be, os.path.join(d, 'out')] + paths)
        v = []
        if esc is not None:
            v.append(viol('cli-escape:%s@%s' % (esc[0], esc[1]), 'stone.cli.main raised %s instead of printing a spec error' % esc[0],
                          {'specs': specs, 'label': label}, esc[2]))
            oc = 'cli:traceback'
        elif code == 0:
            oc = 'cli:0'
        elif code == 1 and CLI_RE.match(err):
            oc = 'cli:1:error-line'
        else:
            oc = 'cli:%r:other' % (code,)
            v.append(viol('cli-format', 'exit status %r with stderr %r' % (code, err[:200]), {'specs': specs, 'label': label}, err[:500],
                          'exit 1 with path:line: error: message'))
        return {'outcome': oc, 'viol': v}
    finally:
        shutil.rmtree(d, ignore_errors=True)


def run(tier, seed):
    r = explore.Run(PROP, tier, seed)
    items = list(textspace.items(tier))
    r.bounds['inputs'] = len(items)
    r.bounds['token_string_max_len'] = 3 if tier == 'quick' else 4
    r.bounds['token_alphabet'] = len(textspace.ALPHABET)
    r.sample({'label': items[1][0], 'specs': items[1][1][:1]})
    r.sample({'label': items[len(items) // 2][0], 'specs': items[len(items) // 2][1]})
    reps = {}
    for idx, out in explore.pmap(task, items, budget=20):
        r.absorb(idx, out)
        if 'rep' in out:
            cls, label = out['rep']
            if cls not in reps or idx < reps[cls][0]:
                reps[cls] = (idx, items[idx])
    r.transitions += len(items)
    # CLI replay: one representative (first in enumeration order) of every distinct outcome class
    rep_items = [reps[k][1] for k in sorted(reps, key=lambda k: reps[k][0])]
    r.bounds['cli_replays'] = len(rep_items)
    r.run_tasks(cli_task, rep_items, budget=30, order_base=len(items))
    # combinations of texts: every ordered pair of single-file representatives of distinct classes (bounded pool)
    pool = [it for it in rep_items if len(it[1]) == 1][:40 if tier == 'quick' else 70]
    pairs = []
    for a in pool:
        for b in pool:
            if a is b:
                continue
            pairs.append(('pair:%s + %s' % (a[0], b[0]), [('p1.stone', a[1][0][1]), ('p2.stone', b[1][0][1])]))
    r.bounds['pairs'] = len(pairs)
    r.run_tasks(task, pairs, budget=20, order_base=len(items) + len(rep_items))
    r.assumptions = ['termination is judged by a %ds watchdog per input' % 20,
                     'the tokenizer used to mutate texts is the harness\'s own (mc/textspace.py)']
    r.finish('every single token-level deviation (delete, duplicate, swap, replace by each token class, truncate, stray '
             'character, splice, indentation shift, drop/duplicate line) at every token of the base specs; all token strings '
             'up to the length bound in three layouts; lang_ref.rst snippets and all their token prefixes; all ordered pairs '
             'of one representative per outcome class; CLI replay of one representative per outcome class')


def replay(rep):
    specs = [tuple(x) for x in rep['inputs']['specs']]
    a = impl.compile_specs(specs)
    b = impl.compile_specs(specs)
    if a.brief() != b.brief():
        print('replay not deterministic')
        return 2
    print('observed:', a.brief())
    v = judge(specs, a)
    if rep['identity'].startswith('cli'):
        v = cli_task((rep['inputs'].get('label', ''), specs))['viol']
    if v:
        print('VIOLATION property=%s replay=replayed' % PROP)
        return 1
    return 0
