"""C06 - the decoder accepts exactly valid serializations and fails only by validation.

Per (type shape, position): BFS over JSON documents - initial states are the reference encodings of the boundary values
and the alternative valid forms; transitions are single structural mutations (drop / add / rename key, replace the value
at every JSON path by every other JSON kind, push numbers / strings / lengths one step, retag); plus the complete set of
small documents.  Every document is decoded in strict and lenient mode; the reference reading (mc/rtdoc.py) classifies it
must-accept / must-reject / unspecified.  Any exception other than ValidationError is a violation for every document.
"""
import collections
import json

from mc import explore, impl, rt, rtdoc
from mc.explore import viol
from checks import rtbase
from stone.ir import data_types as dt

PROP = 'C06'
TIER = ['quick']
DEPTH = [1]


def doc_key(d):
    return json.dumps(d, sort_keys=True, default=repr)


def names_for(t):
    ut, _ = rt.strip(t)
    keys, tags = [], []
    if isinstance(ut, dt.Struct):
        for leaf in [ut] + (rt.leaves_of(ut) if ut.has_enumerated_subtypes() else []):
            keys += [f.name for f in rt.struct_fields(leaf)]
        if ut.has_enumerated_subtypes():
            tags += [f.name for f in ut.get_enumerated_subtypes()]
    elif isinstance(ut, dt.Union):
        tags += [f.name for f in rt.union_tags(ut)]
        keys += tags
    return list(dict.fromkeys(keys)), list(dict.fromkeys(tags))


def documents(u, t):
    """BFS over documents: (label, doc)."""
    keys, tags = names_for(t)
    seen = {}
    frontier = []
    vals = rt.ref_values(t)
    for v in vals:
        d = rt.ref_encode(u.api, t, v)
        k = doc_key(d)
        if k not in seen:
            seen[k] = ('enc:' + rt.show(v)[:60], d)
            frontier.append(d)
        # alternative valid form: the bare-string form of a tag-only union value
        if isinstance(d, dict) and list(d) == ['.tag']:
            k2 = doc_key(d['.tag'])
            if k2 not in seen:
                seen[k2] = ('compact:' + d['.tag'], d['.tag'])
                frontier.append(d['.tag'])
    for depth in range(DEPTH[0]):
        nxt = []
        for d in frontier:
            for label, m in rtdoc.mutations(d, tags, keys[:4]):
                k = doc_key(m)
                if k not in seen:
                    seen[k] = (label, m)
                    nxt.append(m)
        frontier = nxt
    small_keys = ['.tag', 'zz'] + keys[:1] + tags[:1]
    for d in rtdoc.small_documents(list(dict.fromkeys(small_keys))):
        k = doc_key(d)
        if k not in seen:
            seen[k] = ('small', d)
    return list(seen.values())


def judge(u, t, val, doc, strict, shape, pos, label, entry='obj'):
    VE = u.bv.ValidationError
    inputs = {'shape': shape, 'position': pos, 'document': doc_key(doc)[:600], 'strict': strict, 'mutation': label, 'entry': entry}
    try:
        if entry == 'obj':
            dec = u.ss.json_compat_obj_decode(val, doc, strict=strict)
        else:
            dec = u.ss.json_decode(val, doc, strict=strict)
        accepted = True
    except VE:
        accepted = False
    except Exception as e:  # noqa
        return 'foreign-exception', viol(rtbase.runtime_identity(e, 'decode-escape'), 'decoding %s as %s (%s) raised %r instead of ValidationError' % (
            doc_key(doc)[:200], shape, 'strict' if strict else 'lenient', e), inputs, repr(e), 'a value or ValidationError')
    if entry == 'str':
        try:
            doc = json.loads(doc)
        except ValueError:
            if accepted:
                return 'accepted-non-json', viol('accepted-non-json', 'non-JSON text %r accepted' % (doc,), inputs)
            return 'rejected-non-json', None
    cls = rtdoc.read(u.api, t, doc, strict)
    mode = 'strict' if strict else 'lenient'
    if cls is rtdoc.REJECT:
        if accepted:
            return 'accepted-invalid', viol('accepted-invalid:%s:%s:%s' % (mode, rtbase.shape_kind(shape), label.split('[')[0].split(':')[0]),
                                            'document %s is not a valid serialization of %s (%s) but was accepted as %r' % (doc_key(doc)[:300], shape, mode, dec),
                                            inputs, repr(dec)[:300], 'ValidationError')
        return 'rejected', None
    if not accepted:
        if cls is rtdoc.UNSPEC:
            return 'unspec-rejected', None
        return 'refused-valid', viol('refused-valid:%s:%s:%s' % (mode, rtbase.shape_kind(shape), label.split('[')[0].split(':')[0]),
                                     'valid serialization %s of %s (%s) was refused' % (doc_key(doc)[:300], shape, mode), inputs, 'ValidationError', rt.show(cls[1]))
    try:
        got = rt.observe(u.pkg, u.api, t, dec)
    except Exception as e:  # noqa
        got = ('!unobservable', repr(e))
    if cls is rtdoc.UNSPEC:
        if not rtdoc.abs_valid(u.api, t, got):
            return 'unspec-invalid-value', viol('returned-invalid-value:%s:%s' % (mode, rtbase.shape_kind(shape)),
                                                'decoding %s as %s (%s) returned %s, which is not valid for the type' % (doc_key(doc)[:300], shape, mode, rt.show(got)), inputs, rt.show(got))
        return 'unspec-accepted', None
    if got != cls[1]:
        return 'wrong-value', viol('decoded-value:%s:%s' % (mode, rtbase.shape_kind(shape)), 'decoding %s as %s (%s) gave %s, expected %s' % (
            doc_key(doc)[:300], shape, mode, rt.show(got), rt.show(cls[1])), inputs, rt.show(got), rt.show(cls[1]))
    return 'accepted', None


NON_JSON = ['', '{', 'NaN', '1e999', '-Infinity', '[1,]', 'nul', '"unterminated', '{"a":1}{"b":2}']


def task(item):
    if item[0] == 'namecase':
        return rtbase.name_case_task(['decode'])
    if item[0] == 'history':
        return rtbase.history_task(task, item, TIER[0])
    pos, i = item
    u = rtbase.universe(TIER[0])
    t = u.ir_type(pos, i)
    val = u.validator(pos, i)
    shape = u.shapes[i]
    oc = collections.Counter()
    out_v = []
    n = 0
    docs = documents(u, t)
    for label, doc in docs:
        for strict in (True, False):
            n += 1
            o, v = judge(u, t, val, doc, strict, shape, pos, label)
            oc[o] += 1
            if v:
                out_v.append(v)
        if label.startswith(('enc:', 'compact:')):
            for strict in (True, False):
                n += 1
                o, v = judge(u, t, val, json.dumps(doc), strict, shape, pos, label, entry='str')
                oc['str:' + o] += 1
                if v:
                    out_v.append(v)
    for text in NON_JSON:
        n += 1
        o, v = judge(u, t, val, text, True, shape, pos, 'non-json', entry='str')
        oc['str:' + o] += 1
        if v:
            out_v.append(v)
    return {'outcome': oc, 'viol': out_v, 'n': n, 'transitions': n}


def run(tier, seed):
    TIER[0] = tier
    DEPTH[0] = 1 if tier == 'quick' else 2
    r = explore.Run(PROP, tier, seed)
    try:
        u = rtbase.universe(tier if tier == 'quick' else 'quick')
    except rtbase.UniverseError as e:
        rtbase.universe_failure(r, PROP, e)
        return r.finish('packed universe could not be built')
    TIER[0] = 'quick'
    items = rtbase.items('quick') + [('namecase', 0)]
    r.bounds.update({'shapes': len(u.shapes), 'positions': list(rtbase.POSITIONS), 'mutation_depth': DEPTH[0],
                     'json_kinds': [repr(k) for k in rtdoc.KINDS], 'modes': ['strict', 'lenient']})
    it = items[len(items) // 4]
    docs = documents(u, u.ir_type(*it))
    r.sample({'position': it[0], 'shape': u.shapes[it[1]], 'documents': [[l, doc_key(d)[:120]] for l, d in docs[:10]], 'n_documents': len(docs)})
    r.run_tasks(task, items, budget=600, chunksize=4)
    hist = rtbase.history_items('quick')
    r.bounds['history_pairs'] = len(hist)
    r.run_tasks(task, hist, budget=600, order_base=len(items), fresh=True)
    r.assumptions = ['unspecified zones (DESIGN appendix C): bool for numbers, integral floats for integers, non-base64 strings for Bytes, '
                     'explicit null for nullable union members, null / omission for struct-typed fields without required fields, keys starting '
                     'with .tag in strict struct decoding, extra keys next to non-struct members in lenient mode']
    r.finish('per shape and position: reference encodings of boundary values + compact forms, every single structural mutation '
             '(x2 in the thorough tier), all small documents of depth <= 2; strict and lenient; object entry for all, string entry for '
             'the initial documents and non-JSON texts; history layer: for every ordered pair (A, B) of struct / union shapes, the documents of A '
             'then those of B in a process forked from the pristine parent')


def replay(rep):
    TIER[0] = 'quick'
    u = rtbase.universe('quick')
    shape, pos = rep['inputs']['shape'], rep['inputs']['position']
    if shape not in u.shapes:
        return 2
    i = u.shapes.index(shape)
    if rep['inputs'].get('history') in u.shapes:
        task(('alias', u.shapes.index(rep['inputs']['history'])))
    doc = json.loads(rep['inputs']['document']) if rep['inputs'].get('entry', 'obj') == 'obj' else rep['inputs']['document']
    o, v = judge(u, u.ir_type(pos, i), u.validator(pos, i), doc, rep['inputs']['strict'], shape, pos, rep['inputs'].get('mutation', ''),
                 rep['inputs'].get('entry', 'obj'))
    print('outcome:', o)
    if v:
        print('VIOLATION property=%s replay=replayed' % PROP)
        return 1
    return 0
