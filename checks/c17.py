"""C17 - Swift and Objective-C backends handle every spec and declare the whole API.

Codegen universe (C01 family-pair exploration + cross-namespace product + a shape sweep) extended with the route
attribute schema these backends read (auth, host, style) x {swift_types, swift_types --objc, swift_client,
swift_client --objc, obj_c_types, obj_c_client} with the client arguments they require.
Oracle: the backend completes; a lexer for the Swift / Objective-C lexical grammar (line and nested block comments,
string literals with escapes and interpolation, balance of {} [] ()) accepts every file; a declaration scanner finds each
namespace, struct, union, serializer and route exactly once under the backend's naming scheme and every field and tag;
every user-type name used is declared in the output.
"""
import collections
import os
import re

from mc import explore, render, impl
from mc import model as mm
from mc.model import P, L, M, N, R, NODEF, Struct, Union, Alias, Route
from mc.explore import viol
from checks import c01, c12

PROP = 'C17'

CONFIGS = [
    ('swift_types', []),
    ('swift_types', ['--objc']),
    ('swift_client', impl.BACKEND_RUNS['swift_client']),
    ('swift_client', impl.BACKEND_RUNS['swift_client'] + ['--objc']),
    ('obj_c_types', []),
    ('obj_c_client', impl.BACKEND_RUNS['obj_c_client']),
]


def lex(text, lang):
    """Returns (code with comments blanked and strings replaced, error)."""
    out = []
    i, n = 0, len(text)
    stack = []
    pairs = {')': '(', ']': '[', '}': '{'}
    while i < n:
        c = text[i]
        if text.startswith('//', i):
            j = text.find('\n', i)
            i = n if j < 0 else j
        elif text.startswith('/*', i):
            depth, j = 1, i + 2
            while j < n and depth:
                if text.startswith('/*', j) and lang == 'swift':
                    depth += 1
                    j += 2
                elif text.startswith('*/', j):
                    depth -= 1
                    j += 2
                else:
                    j += 1
            if depth:
                return None, 'unterminated block comment at offset %d' % i
            out.append(' ')
            i = j
        elif c == '"' or (c == '@' and text[i + 1:i + 2] == '"' and lang == 'objc'):
            j = i + (2 if c == '@' else 1)
            if lang == 'swift' and text.startswith('"""', i):
                k = text.find('"""', i + 3)
                if k < 0:
                    return None, 'unterminated multi-line string at offset %d' % i
                out.append('"S"')
                i = k + 3
                continue
            while j < n and text[j] != '"':
                if text[j] == '\n':
                    return None, 'unterminated string literal at offset %d: %r' % (i, text[i:i + 60])
                if text[j] == '\\':
                    if lang == 'swift' and text[j + 1:j + 2] == '(':
                        # interpolation: skip to the matching parenthesis
                        d, j = 1, j + 2
                        while j < n and d:
                            if text[j] == '(':
                                d += 1
                            elif text[j] == ')':
                                d -= 1
                            elif text[j] == '"':
                                # nested string inside interpolation
                                j += 1
                                while j < n and text[j] != '"':
                                    j += 2 if text[j] == '\\' else 1
                            j += 1
                        continue
                    j += 2
                    continue
                j += 1
            if j >= n:
                return None, 'unterminated string literal at offset %d' % i
            out.append('"S"')
            i = j + 1
        elif c == "'" and lang == 'objc':
            j = text.find("'", i + 1)
            if j < 0 or j - i > 4:
                return None, 'unterminated character literal at offset %d' % i
            out.append("'c'")
            i = j + 1
        else:
            if c in '([{':
                stack.append(c)
            elif c in ')]}':
                if not stack or stack.pop() != pairs[c]:
                    return None, 'unbalanced %r at offset %d' % (c, i)
            out.append(c)
            i += 1
    if stack:
        return None, 'unclosed %r' % stack[-1]
    return ''.join(out), None


def pascal(name):
    return name[:1].upper() + name[1:]


def swift_scan(files):
    decl = collections.Counter()
    refs = set()
    for fn, code in files.items():
        for m in re.finditer(r'\b(?:public|open)?\s*(?:final\s+)?(class|enum|struct|protocol)\s+(\w+)', code):
            decl[(m.group(1), m.group(2))] += 1
        for m in re.finditer(r'\b([A-Z]\w*)\.([A-Z]\w*)\b', code):
            refs.add((m.group(1), m.group(2)))
    return decl, refs


class T(object):
    """Inventory entry of a user type: what the spec text declares, independent of stone's IR."""
    def __init__(self, name, is_struct, members):
        self.name, self.is_struct, self.members = name, is_struct, members


class Rt(object):
    def __init__(self, name, version=1, attrs=()):
        self.name, self.version, self.attrs = name, version, tuple(attrs)


def route_method(r):
    """Method name of a route in the client output, for plain lower_case route names only (None otherwise)."""
    if not re.match(r'^[a-z][a-z0-9]*(_[a-z0-9]+)*$', r.name):
        return None
    parts = r.name.split('_')
    return parts[0] + ''.join(x.capitalize() for x in parts[1:]) + ('V%d' % r.version if r.version != 1 else '')


def route_auth(r):
    return dict(getattr(r, 'attrs', ()) or ()).get('auth', 'user')


class Mem(object):
    def __init__(self, name):
        self.name = name


def inventory(model):
    types = [(nsn, T(d.name, isinstance(d, Struct), mm.own_members(model, nsn, d))) for nsn, fi, di, d in mm.all_defs(model)
             if nsn != 'stone_cfg' and isinstance(d, (Struct, Union))]
    routes = [(nsn, d) for nsn, fi, di, d in mm.all_defs(model) if nsn != 'stone_cfg' and isinstance(d, Route)]
    namespaces = [ns.name for ns in model.namespaces if ns.name != 'stone_cfg']
    return namespaces, types, routes


def check_model(inv, specs, trace, oc, out_v, label=None):
    out = impl.compile_specs(specs)
    if out.kind != 'ok':
        if label:
            raise explore.InternalError('shape spec %s not accepted: %s' % (label, out.brief()))
        oc['not-accepted'] += 1
        return 0
    n = 0
    namespaces, types, routes = inv
    pos = label.split(':')[0] if label else None
    for backend, args in CONFIGS:
        n += 1
        api = impl.compile_specs(specs).api
        res = impl.backend_outputs(api, [backend], args_override={backend: args})[backend]
        cfg = backend + (' --objc' if '--objc' in args else '')
        inputs = {'specs': specs, 'trace': list(trace), 'backend': backend, 'args': args}
        if label:
            inputs['shape'] = label
        if 'crash' in res:
            oc['crash'] += 1
            out_v.append(viol('backend-%s:%s%s' % (res['crash'], cfg, ':' + pos if pos else ''), '%s failed on %s: %s' % (cfg, 'shape ' + label if label else 'an accepted spec', res['crash']),
                              inputs, res['tb']))
            continue
        lang_of = lambda fn: 'swift' if fn.endswith('.swift') else ('objc' if fn.endswith(('.h', '.m')) else None)
        codes = {}
        bad = False
        for fn, data in res['files'].items():
            lang = lang_of(fn)
            if lang is None:
                continue
            if fn.startswith('Resources/') or fn in ('StoneBase.swift', 'StoneSerializers.swift', 'StoneValidators.swift', 'ReconnectionHelpers.swift'):
                continue        # copied support files, not generated from the spec
            text = data.decode('utf-8', 'replace')
            code, err = lex(text, lang)
            if code is None:
                oc['lexical'] += 1
                out_v.append(viol('lexical:%s' % cfg, '%s output %s is not lexically well formed: %s' % (cfg, fn, err), inputs, text[:1200]))
                bad = True
                break
            codes[fn] = code
        if bad:
            continue
        if backend == 'swift_types':
            decl, refs = swift_scan(codes)
            for nsn in namespaces:
                has = any(x == nsn for x, _ in types) or any(x == nsn for x, _ in routes) or True
                if decl[('class', pascal(nsn))] != 1 and '--objc' not in args:
                    out_v.append(viol('swift-namespace-declared-once', 'namespace class %s declared %d times' % (pascal(nsn), decl[('class', pascal(nsn))]), inputs))
            for nsn, d in types:
                kind = 'class' if d.is_struct else 'enum'
                if '--objc' in args:
                    continue
                # types are nested in the class of their namespace, which is one file: the same name may recur in another namespace
                code = codes.get(pascal(nsn) + '.swift', '')
                ndecl = len(re.findall(r'\b%s\s+%s\b' % (kind, re.escape(d.name)), code))
                nser = len(re.findall(r'\bclass\s+%sSerializer\b' % re.escape(d.name), code))
                if ndecl != 1:
                    out_v.append(viol('swift-type-declared-once:%s' % kind, '%s %s.%s declared %d times' % (kind, nsn, d.name, ndecl), inputs))
                if nser != 1:
                    out_v.append(viol('swift-serializer-declared-once', 'serializer of %s.%s declared %d times' % (nsn, d.name, nser), inputs))
                for f in d.members:
                    if d.is_struct:
                        if not re.search(r'\b(?:let|var)\s+%s\s*:' % re.escape(f.name), code):
                            out_v.append(viol('swift-field-missing', 'field %s of %s.%s is not declared' % (f.name, nsn, d.name), inputs))
                    else:
                        if not re.search(r'\bcase\s+%s\b' % re.escape(f.name), code):
                            out_v.append(viol('swift-tag-missing', 'tag %s of %s.%s is not declared' % (f.name, nsn, d.name), inputs))
            for nsn, r in routes:
                if '--objc' in args:
                    continue
                rname = r.name + ('V%d' % r.version if r.version != 1 else '')
                code = codes.get(pascal(nsn) + '.swift', '')
                cnt = len(re.findall(r'\bstatic\s+let\s+%s\s*=\s*Route\b' % re.escape(rname), code))
                if cnt != 1:
                    out_v.append(viol('swift-route-declared-once', 'route object %s.%s declared %d times' % (nsn, rname, cnt), inputs))
            swift_builtin = {'String', 'Int32', 'UInt32', 'Int64', 'UInt64', 'Double', 'Float', 'Bool', 'Data', 'Date', 'NSNumber', 'Array', 'Dictionary', 'NSString',
                             'NSArray', 'NSDictionary', 'NSData', 'NSDate', 'JSON', 'Void', 'Any', 'NSObject', 'Int', 'UInt'}
            declared_local = {nm for (k, nm), c in decl.items()}
            if '--objc' in args:
                # the Objective-C compatibility layer wraps the Swift types of the plain swift_types output for the same spec
                plain = impl.backend_outputs(impl.compile_specs(specs).api, ['swift_types'], args_override={'swift_types': []})['swift_types']
                if 'crash' not in plain:
                    for fn2, data2 in plain['files'].items():
                        if fn2.endswith('.swift'):
                            declared_local.update(re.findall(r'\b(?:class|enum|struct)\s+(\w+)', data2.decode('utf-8', 'replace')))
            for fn, code in codes.items():
                for m in re.finditer(r'(?:Dictionary<\s*String\s*,\s*|Array<\s*)([A-Z]\w*)(?![\w.])', code):
                    if m.group(1) not in swift_builtin and m.group(1) not in declared_local:
                        out_v.append(viol('swift-undeclared-type:bare', '%s uses the type name %s, which is not declared' % (fn, m.group(1)), inputs))
            declared_ns = {pascal(nsn) for nsn in namespaces}
            declared_types = {(pascal(nsn), d.name) for nsn, d in types} | {(pascal(nsn), d.name + 'Serializer') for nsn, d in types}
            for a, b in refs:
                # a qualified name resolves if the spec declares it under the plain naming scheme or the output itself declares it
                # (the backends escape some type names, e.g. Client -> Client_)
                if a in declared_ns and (a, b) not in declared_types and b not in declared_local and not b.endswith('Serializer'):
                    out_v.append(viol('swift-undeclared-type', 'output refers to %s.%s, which is not declared' % (a, b), inputs))
                elif a in declared_ns and b.endswith('Serializer') and (a, b) not in declared_types and b not in declared_local:
                    out_v.append(viol('swift-undeclared-type:serializer', 'output refers to %s.%s, which is not declared' % (a, b), inputs))
        elif backend == 'swift_client' and '--objc' not in args:
            # qualified type names <Ns>.<Type> used by the client must be types the spec declares in that namespace
            # they are resolved against what swift_types declares for the same spec (inside the class of namespace <Ns>), so that the naming
            # scheme of the backends - including its escapes for reserved words - is not re-implemented here
            _decl, crefs = swift_scan(codes)
            c_ns = {pascal(nsn) for nsn in namespaces}
            tres0 = impl.backend_outputs(impl.compile_specs(specs).api, ['swift_types'], args_override={'swift_types': []})['swift_types']
            if 'crash' not in tres0:
                declared_in = {}
                for fn, data in tres0['files'].items():
                    if fn.endswith('.swift'):
                        c2, _e = lex(data.decode('utf-8', 'replace'), 'swift')
                        declared_in[fn[:-6]] = set(re.findall(r'\b(?:class|enum|struct)\s+(\w+)', c2 or ''))
                for a, b in sorted(crefs):
                    if a in c_ns and a in declared_in and b not in declared_in[a]:
                        out_v.append(viol('swift-client-undeclared-type', 'swift_client output refers to %s.%s, which the swift_types output for the same spec does not declare in %s' % (a, b, a), inputs))
            # <Ns>Routes.swift refers to the route objects <Ns>.<route> that swift_types declares: resolve them against its output for the same spec
            tres = impl.backend_outputs(impl.compile_specs(specs).api, ['swift_types'], args_override={'swift_types': []})['swift_types']
            if 'crash' not in tres:
                tcode = {}
                for fn, data in tres['files'].items():
                    if fn.endswith('.swift'):
                        c2, _e = lex(data.decode('utf-8', 'replace'), 'swift')
                        tcode[fn] = c2 or ''
                for rnsn, r in routes:
                    mname = route_method(r)
                    if mname is not None:
                        cnt = len(re.findall(r'\bfunc\s+%s\b' % re.escape(mname), codes.get(pascal(rnsn) + 'Routes.swift', '')))
                        if cnt == 0:
                            out_v.append(viol('swift-client-route-missing', 'swift_client declares no function for route %s.%s' % (rnsn, mname), inputs))
                for fn, code in codes.items():
                    for m in re.finditer(r'\b([A-Z]\w*)\.([a-z]\w*)\b', code):
                        nsn = [x for x in namespaces if pascal(x) == m.group(1)]
                        if not nsn or not fn.startswith(m.group(1) + 'Routes'):
                            continue
                        home = tcode.get(m.group(1) + '.swift', '')
                        if not re.search(r'\bstatic\s+let\s+%s\b' % re.escape(m.group(2)), home):
                            out_v.append(viol('swift-client-undeclared-route', '%s uses %s.%s, which the swift_types output for the same spec does not declare'
                                              % (fn, m.group(1), m.group(2)), inputs))
        elif backend == 'swift_client' and '--objc' in args:
            tres1 = impl.backend_outputs(impl.compile_specs(specs).api, ['swift_types'], args_override={'swift_types': ['--objc']})['swift_types']
            if 'crash' not in tres1:
                declared_x = set()
                for src in (res['files'], tres1['files']):
                    for fn, data in src.items():
                        if fn.endswith('.swift'):
                            declared_x.update(re.findall(r'\b(?:class|enum|struct|protocol|typealias)\s+(DBX\w+)', data.decode('utf-8', 'replace')))
                # only the names that are derived from the spec (DBX<Namespace>...): the SDK's own classes are not generated
                prefixes = tuple('DBX' + pascal(nsn) for nsn in namespaces)
                for fn, code in codes.items():
                    for ident in sorted(set(re.findall(r'\bDBX[A-Z]\w*', code))):
                        if ident.startswith(prefixes) and ident not in declared_x:
                            out_v.append(viol('swift-objc-client-undeclared-class', '%s uses %s, which neither swift_client --objc nor swift_types --objc declares' % (fn, ident), inputs))
        elif backend == 'obj_c_client':
            # one request method per route whose auth type the client was asked for (-w user), none for the others
            for nsn, r in routes:
                mname = route_method(r)
                if mname is None or not isinstance(route_auth(r), str):
                    continue
                wanted = 'user' in [x.strip() for x in route_auth(r).split(',')]
                hdr = codes.get('Routes/DB%sUserAuthRoutes.h' % nsn.upper(), '')
                impl_ = codes.get('Routes/DB%sUserAuthRoutes.m' % nsn.upper(), '')
                nh = len(re.findall(r'\)\s*%s\b' % re.escape(mname), hdr))
                nm = len(re.findall(r'\)\s*%s\b' % re.escape(mname), impl_))
                if wanted and (nh == 0 or nm == 0):
                    out_v.append(viol('objc-client-route-missing', 'obj_c_client -w user declares route %s.%s %d times in the header and %d times in the implementation' % (nsn, mname, nh, nm), inputs))
                elif not wanted and (nh or nm):
                    out_v.append(viol('objc-client-foreign-auth-route', 'obj_c_client -w user emits route %s.%s although its auth is %r' % (nsn, mname, route_auth(r)), inputs))
        elif backend == 'obj_c_types':
            user_classes = {'DB%s%s' % (nsn.upper(), d.name) for nsn, d in types}
            for fn, code in codes.items():
                mentioned = {x for x in set(re.findall(r'\bDB[A-Z]+[A-Za-z0-9]*\b', code)) if x in user_classes}
                here = set(re.findall(r'@class\s+(\w+)\s*;', code)) | set(re.findall(r'@interface\s+(\w+)', code)) | set(re.findall(r'#import\s+"S"', code))
                imported = set(re.findall(r'#import\s+"(\w+)\.h"', res['files'][fn].decode('utf-8', 'replace')))
                for x in sorted(mentioned - here - imported):
                    out_v.append(viol('objc-file-undeclared-type:%s' % fn.rsplit('.', 1)[-1], '%s mentions %s without @class, @interface or #import of it' % (fn, x), inputs))
            allcode = '\n'.join(codes.values())
            interfaces = collections.Counter(re.findall(r'@interface\s+(\w+)\s*:', allcode))
            impls = collections.Counter(re.findall(r'@implementation\s+(\w+)\b', allcode))
            for nsn, d in types:
                cname = 'DB%s%s' % (nsn.upper(), d.name)
                if interfaces[cname] != 1 or impls[cname] != 1:
                    out_v.append(viol('objc-type-declared-once', '%s has %d @interface and %d @implementation' % (cname, interfaces[cname], impls[cname]), inputs))
                if interfaces[cname + 'Serializer'] != 1 or impls[cname + 'Serializer'] != 1:
                    out_v.append(viol('objc-serializer-declared-once', '%sSerializer has %d @interface and %d @implementation' % (cname, interfaces[cname + 'Serializer'], impls[cname + 'Serializer']), inputs))
                hdr = codes.get('ApiObjects/%s/Headers/%s.h' % (pascal(nsn), cname), '')
                for f in d.members:
                    if d.is_struct:
                        if not re.search(r'@property[^;]*\b%s;' % re.escape(f.name), hdr):
                            out_v.append(viol('objc-field-missing', 'field %s of %s has no @property' % (f.name, cname), inputs))
                    else:
                        if not re.search(r'\b%s%s\b' % (re.escape(cname), re.escape(pascal(f.name))), hdr):
                            out_v.append(viol('objc-tag-missing', 'tag %s of %s is not declared' % (f.name, cname), inputs))
            declared = set(interfaces) | set(re.findall(r'@class\s+(\w+)\s*;', allcode)) | set(re.findall(r'@protocol\s+(\w+)', allcode)) | \
                set(re.findall(r'typedef\s+NS_(?:CLOSED_)?ENUM\s*\(\s*\w+\s*,\s*(\w+)\s*\)', allcode))
            for m in re.finditer(r'(?:NSDictionary<\s*NSString \*\s*,\s*|NSArray<\s*)([A-Za-z]\w*)', allcode):
                if not m.group(1).startswith(('NS', 'DB')) and m.group(1) not in ('id',):
                    out_v.append(viol('objc-undeclared-type:bare', 'output uses the type name %s, which is not declared' % m.group(1), inputs))
            route_vars = {'DB%s%s%s' % (nsn.upper(), pascal(r.name), 'V%d' % r.version if r.version != 1 else '') for nsn, r in routes}
            prefixes = tuple('DB%s' % nsn.upper() for nsn in namespaces)
            for ident in set(re.findall(r'\bDB[A-Z]+[A-Za-z0-9]*\b', allcode)):
                if not ident.startswith(prefixes):
                    continue
                base = re.sub(r'(Serializer)$', '', ident)
                if ident in declared or base in declared:
                    continue
                # enum constants DB<NS><Type><Tag> and route objects are declared by their own productions
                if any(ident.startswith(x) and ident != x for x in declared):
                    continue
                if ident.endswith(('RouteObjects', 'Objects')) or ident in route_vars:
                    continue
                out_v.append(viol('objc-undeclared-type', 'output refers to %s, which is not declared' % ident, inputs))
        oc['checked:' + cfg] += 1
    return n


LEAVES = ['Int32', 'String', 'String(pattern="[^\\"]+x")', 'Bytes', 'Timestamp("%Y")', 'Float64', 'Boolean', 'UInt64', 'Plain', 'Tree', 'Uni', 'Alp', 'other.Fo']
WRAPS1 = ['%s', '%s?', 'List(%s)', 'List(%s?)', 'Map(String, %s)', 'List(%s)?']
WRAPS2 = ['List(List(%s))', 'List(Map(String, %s))', 'Map(String, List(%s))', 'Map(String, Map(String, %s))', 'List(List(%s)?)', 'List(List(%s?))', 'Map(String, List(%s)?)']
WRAPS3 = ['List(List(List(%s)))', 'List(Map(String, List(%s)))', 'Map(String, List(List(%s)))', 'Map(String, Map(String, List(%s)))', 'List(List(Map(String, %s)))']
TIER = ['quick']


def all_shapes(tier):
    """Complete product: every leaf type under every wrapper combination up to nesting 2 (quick) / 3 (thorough)."""
    wraps = WRAPS1 + WRAPS2 + (WRAPS3 if tier != 'quick' else [])
    out = []
    for leaf in LEAVES:
        for w in wraps:
            out.append(w % leaf)
    if tier == 'quick':
        out += [w % leaf for w in WRAPS3[:2] for leaf in ('String', 'Plain', 'Uni')]
    return out


DEFAULTS = [('Int32', '3'), ('String', '"s"'), ('String', '"a b \\"q\\""'), ('Boolean', 'true'), ('Float64', '1.5'), ('UInt64', '7'), ('Uni', 'va'), ('Alu', 'va'), ('other.Afu', 'fa'),
            ('Bytes', '"YWJj"'), ('Timestamp("%Y")', '"2000"')]


def shape_specs():
    """One small spec per (shape, position): field, tag, route argument/result/error; defaults; namespaces that hold only routes / aliases."""
    base_other = ('other.stone', 'namespace other\n\nstruct Fo\n    x Int32\n\nunion Fu\n    fa\n    fb\n\nalias Afu = Fu\n')
    common = 'namespace sh\n\nimport other\n\nstruct Plain\n    a Int32\n\nstruct Tree\n    union\n        lf Lf\n    t Int32\n\nstruct Lf extends Tree\n    l Int32\n\n' \
             'union Uni\n    va\n    vb String\n\nalias Alp = Plain\n\nalias Alu = Uni\n\n'
    base_types = [('other', T('Fo', True, [Mem('x')])), ('other', T('Fu', False, [Mem('fa'), Mem('fb')])), ('sh', T('Plain', True, [Mem('a')])), ('sh', T('Tree', True, [Mem('t')])), ('sh', T('Lf', True, [Mem('l')])),
                  ('sh', T('Uni', False, [Mem('va'), Mem('vb')]))]
    nss = ['other', 'sh']
    out = []
    for sh in all_shapes(TIER[0]):
        out.append(('field:' + sh, [base_other, ('sh.stone', common + 'struct H\n    f %s\n' % sh), ('cfg.stone', c12.CFG)], (nss, base_types + [('sh', T('H', True, [Mem('f')]))], [])))
        out.append(('tag:' + sh, [base_other, ('sh.stone', common + 'union Hu\n    t %s\n' % sh), ('cfg.stone', c12.CFG)], (nss, base_types + [('sh', T('Hu', False, [Mem('t')]))], [])))
        for slot, sig in (('arg', '%s, Void, Void'), ('result', 'Void, %s, Void'), ('error', 'Void, Void, %s')):
            for style in ('rpc', 'upload', 'download'):
                out.append(('route-%s:%s:%s' % (slot, style, sh), [base_other, ('sh.stone', common + 'route r(%s)\n    attrs\n        style = "%s"\n' % (sig % sh, style)), ('cfg.stone', c12.CFG)],
                            (nss, base_types, [('sh', Rt('r'))])))
    # deprecated routes (plain and with a successor) in every style; route types whose names the Swift backends escape
    for style in ('rpc', 'upload', 'download'):
        for dep in ('deprecated', 'deprecated by succ'):
            body = common + 'route succ(Void, Void, Void)\n\nroute r(Plain, Uni, Void) %s\n    attrs\n        style = "%s"\n' % (dep, style)
            out.append(('route-deprecated:%s:%s' % (style, dep.replace(' ', '-')), [base_other, ('sh.stone', body), ('cfg.stone', c12.CFG)], (nss, base_types, [('sh', Rt('r')), ('sh', Rt('succ'))])))
    for nm in ('Client', 'Description', 'Default', 'Hash', 'Protocol', 'Extension', 'Type', 'Error', 'Data', 'Result'):
        body = common + 'struct %s\n    z Int32\n\nunion %sKind\n    k0\n    k1 %s\n\nroute rw(%s, %s, %sKind)\n\nroute rl(Void, List(%s), Void)\n' % ((nm,) * 7)
        out.append(('reserved-type-name:' + nm, [base_other, ('sh.stone', body), ('cfg.stone', c12.CFG)],
                    (nss, base_types, [('sh', Rt('rw')), ('sh', Rt('rl'))])))
    for t, v in DEFAULTS:
        out.append(('default:' + t, [base_other, ('sh.stone', common + 'struct H\n    f %s = %s\n' % (t, v)), ('cfg.stone', c12.CFG)], (nss, base_types + [('sh', T('H', True, [Mem('f')]))], [])))
    # namespaces whose content is only routes (types imported), only aliases, or nothing but an import
    for lab, body, routes in (
            ('routes-only:void', 'route ping(Void, Void, Void)\n\nroute pong:2(Void, Void, Void)\n', [Rt('ping'), Rt('pong', 2)]),
            ('routes-only:imported', 'route get(sh.Plain, sh.Uni, sh.Uni)\n    attrs\n        style = "rpc"\n', [Rt('get')]),
            ('routes-only:alias', 'alias Pl = sh.Plain\n\nroute get(Pl, Void, Void)\n', [Rt('get')]),
            ('routes-only:imported-union-arg', 'route getu(sh.Uni, Void, Void)\n    attrs\n        style = "rpc"\n', [Rt('getu')]),
            ('routes-only:imported-union-arg-upload', 'route getu(sh.Uni, sh.Plain, Void)\n    attrs\n        style = "upload"\n', [Rt('getu')]),
            ('routes-only:imported-tree', 'route gett(sh.Tree, sh.Tree, sh.Tree)\n    attrs\n        style = "download"\n', [Rt('gett')]),
            ('routes-only:alias-of-union', 'alias Ul = sh.Uni\n\nroute geta(Ul, Ul, Void)\n', [Rt('geta')]),
            ('aliases-only', 'alias Pl = sh.Plain\n\nalias Ls = List(sh.Uni)\n', []),
            ('same-route-name-other-auth', 'route getinfo(sh.Plain, Void, Void)\n    attrs\n        auth = "team"\n\nroute onlyteam:2(Void, sh.Plain, Void)\n    attrs\n        auth = "team"\n\nroute both(Void, Void, Void)\n    attrs\n        auth = "team, user"\n\nroute appuser:2(sh.Plain, Void, Void)\n    attrs\n        auth = "app, user"\n',
             [Rt('getinfo', 1, (('auth', 'team'),)), Rt('onlyteam', 2, (('auth', 'team'),)), Rt('both', 1, (('auth', 'team, user'),)), Rt('appuser', 2, (('auth', 'app, user'),))]),
            ('empty-ns', '', [])):
        sh_text, sh_routes = common, []
        if lab == 'same-route-name-other-auth':
            # the namespace `sh` has routes of the same names whose auth is the client's (the default "user")
            sh_text = common + 'route getinfo(Plain, Void, Void)\n\nroute onlyteam:2(Void, Uni, Void)\n'
            sh_routes = [('sh', Rt('getinfo')), ('sh', Rt('onlyteam', 2))]
        out.append(('namespace:' + lab, [base_other, ('sh.stone', sh_text), ('ro.stone', 'namespace ro\n\nimport sh\n\n' + body), ('cfg.stone', c12.CFG)],
                    (nss + ['ro'], base_types, [('ro', r) for r in routes] + sh_routes)))
    return out


SENTINEL_SPEC = [('zzprev.stone', 'namespace zzprev\n\nstruct ZzPrevType\n    a Int32\n    l List(ZzPrevItem)\n\nstruct ZzPrevItem\n    b String?\n\nunion ZzPrevUnion\n    pa\n    pb ZzPrevType\n\n'
                  'struct ZzPrevTree\n    union\n        zleaf ZzPrevLeaf\n    t Int32\n\nstruct ZzPrevLeaf extends ZzPrevTree\n    l Int32\n\n'
                  'route zzprevroute(ZzPrevType, ZzPrevUnion, ZzPrevTree)\n    attrs\n        style = "upload"\n\nroute zzprevget(Void, ZzPrevItem, Void)\n')]
HISTORY_SHAPES = ['field:Plain', 'tag:List(Uni)', 'route-arg:upload:Tree', 'route-result:rpc:Map(String, Plain)', 'namespace:routes-only:imported', 'default:Uni', 'field:other.Fo']


def history_task(label, specs, inv):
    """Process history: every configuration first builds an unrelated spec (sentinel names) in this process, then the spec under
    observation; nothing of the first build may show up in the second output."""
    oc = collections.Counter()
    out_v = []
    n = 0
    first = impl.compile_specs(SENTINEL_SPEC + [('cfg.stone', c12.CFG)])
    if first.kind != 'ok':
        raise explore.InternalError('sentinel spec not accepted: ' + first.brief())
    for backend, args in CONFIGS:
        n += 1
        impl.backend_outputs(impl.compile_specs(SENTINEL_SPEC + [('cfg.stone', c12.CFG)]).api, [backend], args_override={backend: args})
        res = impl.backend_outputs(impl.compile_specs(specs).api, [backend], args_override={backend: args})[backend]
        cfg = backend + (' --objc' if '--objc' in args else '')
        if 'crash' in res:
            oc['crash'] += 1
            continue
        leaked = []
        for fn, data in res['files'].items():
            text = data.decode('utf-8', 'replace')
            for m in re.finditer(r'\w*(?:zzprev|ZzPrev|ZZPREV|Zzprev)\w*', text):
                leaked.append((fn, m.group(0)))
            if re.search(r'zzprev|ZzPrev|ZZPREV|Zzprev', fn):
                leaked.append((fn, '(file name)'))
        if leaked:
            oc['leak'] += 1
            out_v.append(viol('history-leak:%s' % cfg, '%s output for %s mentions names of a spec that was built earlier in the same process: %r' % (cfg, label, leaked[:4]),
                              {'specs': specs, 'backend': backend, 'args': args, 'history': 'the sentinel spec (namespace zzprev) was built first in the same process', 'shape': label}))
        else:
            oc['history-clean:' + cfg] += 1
    return {'outcome': oc, 'viol': out_v, 'n': n, 'transitions': n}


def shape_task(label, specs, inv):
    oc = collections.Counter()
    out_v = []
    n = check_model(inv, specs, [], oc, out_v, label=label)
    return {'outcome': oc, 'viol': out_v, 'n': max(n, 1), 'transitions': n}


def task(item):
    if item[0] == 'shape':
        return shape_task(item[1], item[2], item[3])
    if item[0] == 'history':
        return history_task(item[1], item[2], item[3])
    model, trace, pname, flags, depth = item[1]
    specs = render.render(model)
    if not any(ns.name == 'stone_cfg' for ns in model.namespaces):
        specs = specs + [('cfg.stone', c12.CFG)]
    oc = collections.Counter()
    out_v = []
    n = check_model(inventory(model), specs, trace, oc, out_v)
    return {'outcome': oc, 'viol': out_v, 'n': max(n, 1), 'transitions': n}


def run(tier, seed):
    TIER[0] = tier
    r = explore.Run(PROP, tier, seed)
    states = c01.gather_states(tier, r, budget=100 if tier == 'quick' else 500)
    # the attrs families use schemas without auth/host/style: the client backends need those, keep them for the types backends only
    # route names with a path are left to the Python / JavaScript checks: the Swift / Objective-C naming of such routes is not documented
    items = [('model', s) for s in states if not any(ns.name == 'stone_cfg' for ns in s[0].namespaces) and s[2] != 'path-routes']
    shapes = shape_specs()
    items += [('shape', lab, sp, inv) for lab, sp, inv in shapes]
    hist = [('history', lab, sp, inv) for lab, sp, inv in shapes if lab in HISTORY_SHAPES]
    r.bounds['history_specs'] = [h[1] for h in hist]
    items += hist
    r.bounds.update({'configurations': [b + ' ' + ' '.join(a[:1] if a and a[0] == '--objc' else []) for b, a in CONFIGS], 'models': len(items) - len(shapes) - len(hist),
                     'shape_specs': len(shapes), 'shape_leaves': LEAVES, 'shape_wrappers': WRAPS1 + WRAPS2 + (WRAPS3 if tier != 'quick' else WRAPS3[:2])})
    r.sample({'shape': shapes[3][0], 'specs': shapes[3][1][1][1][-300:]})
    r.run_tasks(task, items, budget=600, chunksize=4)
    r.assumptions = ['no Swift / Objective-C compiler is available: lexical well-formedness, declaration coverage and name resolution are decided by scanners written for the purpose',
                     'copied runtime-support files are not scanned']
    r.finish('every explored model and every (shape, position) spec x six backend configurations: completion, lexical well-formedness, declared-exactly-once '
             'for namespaces / types / serializers / routes, every field and tag present, no undeclared user-type name')


def replay(rep):
    specs = [tuple(x) for x in rep['inputs']['specs']]
    out = impl.compile_specs(specs)
    if out.kind != 'ok':
        return 0
    b, a = rep['inputs']['backend'], rep['inputs']['args']
    res = impl.backend_outputs(out.api, [b], args_override={b: a})[b]
    if 'crash' in res:
        print(res['crash'])
        print('VIOLATION property=%s replay=replayed' % PROP)
        return 1
    print('backend completes; scanners need the model: re-run ./check C17')
    return 1 if not rep['identity'].startswith('backend-') else 0
