"""C07 - backwards-compatible spec changes keep old and new peers interoperable.

A history exploration: states are spec versions, transitions the compatible edits of docs/evolve_spec.rst at every
applicable site (mc/evolve.py).  For every explored version B and EVERY ancestor A on its path, with both generated
packages loaded side by side: every varied boundary value of every B type that exists in A is encoded under B and
decoded under A (lenient: must equal the reference A-reading, and must not be refused; strict: refused iff the reference
A-reading refuses), and every value of A is encoded under A and decoded under B in both modes (new fields unset, reading
as their defaults), except through a tag that B changed from Void to a non-nullable type.
"""
import collections
import json

from mc import explore, impl, rt, rtdoc, render, evolve
from mc.explore import viol
from checks import rtbase
from stone.ir import data_types as dt

PROP = 'C07'


def vary_values(api, t, depth=0):
    """Boundary values in which one component at a time takes each of its alternatives (every site x every value)."""
    t0 = t
    if isinstance(t, dt.Alias):
        return vary_values(api, t.data_type, depth)
    if isinstance(t, dt.Nullable):
        return [None] + vary_values(api, t.data_type, depth)
    if depth >= 3:
        return rt.ref_values(t, 2, rich=False)[:1]
    if isinstance(t, dt.List):
        inner = vary_values(api, t.data_type, depth + 1)
        return [[]] + [[x] for x in inner] + ([[inner[0], inner[-1]]] if len(inner) > 1 else [])
    if isinstance(t, dt.Map):
        inner = vary_values(api, t.value_data_type, depth + 1)
        return [{}] + [{'k': x} for x in inner]
    if isinstance(t, dt.Struct):
        out = []
        for leaf in rt.leaves_of(t):
            fields = rt.struct_fields(leaf)
            base = {}
            for f in fields:
                if not rt.is_optional(f):
                    base[f.name] = first_value(api, f.data_type, depth + 1)
            ns = leaf.namespace.name
            out.append(rt.SV(ns, leaf.name, tuple((f.name, base[f.name]) for f in fields if f.name in base)))
            for f in fields:
                vals = vary_values(api, f.data_type, depth + 1)
                for x in vals:
                    if x is None and rt.strip(f.data_type)[1]:
                        continue
                    vals_ = dict(base)
                    vals_[f.name] = x
                    sv = rt.SV(ns, leaf.name, tuple((g.name, vals_[g.name]) for g in fields if g.name in vals_))
                    if sv not in out:
                        out.append(sv)
        return out
    if isinstance(t, dt.Union):
        out = []
        for f in rt.union_tags(t):
            if f.catch_all:
                continue
            ft, nullable = rt.strip(f.data_type)
            if isinstance(ft, dt.Void):
                out.append(rt.UV(t.namespace.name, t.name, f.name, None))
            else:
                for x in vary_values(api, f.data_type, depth + 1):
                    out.append(rt.UV(t.namespace.name, t.name, f.name, x))
        return out
    return rt.ref_values(t, 2 if depth else 0)[:2]


def first_value(api, t, depth):
    vals = rt.ref_values(t, 2, rich=False)
    for v in vals:
        if v is not None:
            return v
    return vals[0]


class Loaded:
    def __init__(self, version):
        self.v = version
        self.specs = render.render(version.model)
        out = impl.compile_specs(self.specs)
        self.err = None
        if out.kind != 'ok':
            self.err = ('compile', out.brief())
            return
        self.api = out.api
        self.pkg, fail = impl.build_python_package(self.api)
        if self.pkg is None:
            self.err = ('generate', fail.identity)
            return
        try:
            self.mod = self.pkg.mod(evolve.NS)
        except Exception as e:  # noqa
            self.err = ('import', repr(e))

    def ir(self, name):
        ns = self.api.namespaces[evolve.NS]
        return ns.data_type_by_name.get(name) or ns.alias_by_name.get(name)

    def validator(self, name):
        return getattr(self.mod, name + '_validator')

    def by_origin(self):
        return {o: n for n, o in self.v.lineage.items()}

    def close(self):
        if getattr(self, 'pkg', None) is not None:
            self.pkg.close()


def compare(sender, receiver, tname_s, tname_r, direction, trace, oc, out_v, skip_tags=()):
    ts, tr = sender.ir(tname_s), receiver.ir(tname_r)
    vs, vr = sender.validator(tname_s), receiver.validator(tname_r)
    VE = receiver.pkg.bv.ValidationError
    n = 0
    for v in vary_values(sender.api, ts):
        try:
            inst = rt.instantiate(sender.pkg, sender.api, ts, v)
            enc = json.loads(json.dumps(sender.pkg.ss.json_compat_obj_encode(vs, inst)))
        except Exception as e:  # noqa    (C04/C05 judge encodability)
            oc['not-encodable'] += 1
            continue
        for strict in (False, True):
            n += 1
            mode = 'strict' if strict else 'lenient'
            inputs = {'direction': direction, 'type': '%s->%s' % (tname_s, tname_r), 'mode': mode, 'message': json.dumps(enc)[:500],
                      'trace': list(trace), 'sender_spec': sender.specs, 'receiver_spec': receiver.specs}
            exp = rtdoc.read(receiver.api, tr, enc, strict)
            try:
                dec = receiver.pkg.ss.json_compat_obj_decode(vr, enc, strict=strict)
                accepted = True
            except VE as e:
                accepted = False
                err = e
            except Exception as e:  # noqa
                oc['foreign-exception'] += 1
                out_v.append(viol('evolve-%s' % rtbase.runtime_identity(e, direction), '%s: decoding %s raised %r' % (direction, json.dumps(enc)[:200], e), inputs, repr(e)))
                continue
            if exp is rtdoc.UNSPEC:
                oc['unspecified'] += 1
                continue
            if exp is rtdoc.REJECT:
                if skip_tags and mentions_tag(enc, skip_tags):
                    oc['not-promised'] += 1
                    continue
                if not strict:
                    # the guide promises lenient decoding of every compatible message
                    oc['lenient-reference-rejects'] += 1
                    if not accepted:
                        out_v.append(viol('%s:lenient-refuses-compatible-message:%s' % (direction, edit_kinds(trace)),
                                          '%s: message %s of the other version is refused in lenient mode (%s)' % (direction, json.dumps(enc)[:300], err), inputs, repr(err)))
                    continue
                if accepted:
                    oc['strict-accepted-unknown'] += 1
                    out_v.append(viol('%s:strict-accepts-unknown:%s' % (direction, edit_kinds(trace)),
                                      '%s: strict decoding accepted %s although it contains something the receiver does not know' % (direction, json.dumps(enc)[:300]), inputs))
                else:
                    oc['strict-rejected'] += 1
                continue
            if not accepted:
                oc['refused'] += 1
                out_v.append(viol('%s:%s-refuses:%s' % (direction, mode, edit_kinds(trace)), '%s: %s decoding refused %s: %s' % (direction, mode, json.dumps(enc)[:300], err),
                                  inputs, repr(err), rt.show(exp[1])))
                continue
            try:
                got = rt.observe(receiver.pkg, receiver.api, tr, dec)
            except Exception as e:  # noqa
                got = ('!unobservable', repr(e))
            if got != exp[1]:
                oc['view-differs'] += 1
                out_v.append(viol('%s:%s-view:%s' % (direction, mode, edit_kinds(trace)), '%s: %s decoding of %s gave %s, expected %s' % (
                    direction, mode, json.dumps(enc)[:300], rt.show(got), rt.show(exp[1])), inputs, rt.show(got), rt.show(exp[1])))
                continue
            oc['ok'] += 1
            if direction == 'old->new' and isinstance(rt.unalias(tr), dt.Struct) and isinstance(exp[1], rt.SV):
                # new fields read as their defaults
                actual = rt.find_struct(receiver.api, exp[1].ns, exp[1].name)
                given = dict(exp[1].fields)
                for f in rt.struct_fields(actual):
                    if f.name in given:
                        continue
                    try:
                        val = getattr(dec, f.name)
                    except AttributeError:
                        val = ('!missing',)
                    if rt.strip(f.data_type)[1]:
                        want = None
                    elif f.has_default and not isinstance(f.default, dt.TagRef):
                        want = f.default
                    elif f.has_default:
                        want = getattr(rt.py_class(receiver.pkg, evolve.NS, rt.strip(f.data_type)[0].name), f.default.tag_name)
                    else:
                        continue
                    if val != want:
                        out_v.append(viol('old->new:default-not-applied:%s' % edit_kinds(trace), 'absent field %s reads %r, expected its default %r' % (f.name, val, want), inputs))
    return n


def mentions_tag(doc, tags):
    if isinstance(doc, dict):
        if doc.get('.tag') in tags:
            return True
        return any(mentions_tag(x, tags) for x in doc.values())
    if isinstance(doc, list):
        return any(mentions_tag(x, tags) for x in doc)
    return doc in tags if isinstance(doc, str) else False


def edit_kinds(trace):
    return '+'.join(sorted({lab.split(' ')[0].split('->')[0] for lab in trace})) or 'none'


def task(item):
    versions, trace = item
    oc = collections.Counter()
    out_v = []
    n = 0
    loaded = [Loaded(v) for v in versions]
    try:
        for i, l in enumerate(loaded):
            if l.err:
                what = 'version after edits %r is not usable (%s): %s' % (list(trace[:i]), l.err[0], l.err[1])
                return {'outcome': 'version-unusable', 'viol': [viol('version-%s:%s' % (l.err[0], edit_kinds(trace[:i])), what, {'specs': l.specs, 'trace': list(trace[:i])}, l.err[1])]}
        B = loaded[-1]
        for ai, A in enumerate(loaded[:-1]):
            sub = trace[ai:]
            a_by_origin = A.by_origin()
            skip = {t for (u, t) in (B.v.void_to_required - A.v.void_to_required)}
            for bname, origin in sorted(B.v.lineage.items()):
                aname = a_by_origin.get(origin)
                if aname is None:
                    continue
                tb = B.ir(bname)
                if not isinstance(rt.unalias(tb), (dt.Struct, dt.Union)) or tb is None:
                    continue
                n += compare(B, A, bname, aname, 'new->old', sub, oc, out_v)
                n += compare(A, B, aname, bname, 'old->new', sub, oc, out_v, skip_tags=skip)
    finally:
        for l in loaded:
            l.close()
    return {'outcome': oc, 'viol': out_v, 'n': max(n, 1), 'transitions': n}


def explore_versions(depth):
    base = evolve.base_version()
    seen = {base.key(): 0}
    items = []
    frontier = [([base], ())]
    transitions = 0
    per_depth = [1]
    for d in range(depth):
        nxt = []
        for path, trace in frontier:
            for label, v2 in evolve.edits(path[-1], d + 1):
                transitions += 1
                k = v2.key()
                if k in seen:
                    continue
                seen[k] = 1
                p2, t2 = path + [v2], trace + (label,)
                items.append((p2, t2))
                nxt.append((p2, t2))
        per_depth.append(len(nxt))
        frontier = nxt
    return items, transitions, per_depth


def run(tier, seed):
    r = explore.Run(PROP, tier, seed)
    depth = 2 if tier == 'quick' else 3
    items, transitions, per_depth = explore_versions(depth if tier == 'quick' else 2)
    if tier == 'thorough':
        # depth 3 on the histories whose first two edits touch the same or nested types (the interacting ones)
        extra = []
        for path, trace in items:
            if len(trace) == 2 and len({lab.split(' ')[0] for lab in trace}) == 2 and not any(l.startswith(('route+', 'rename', 'alias')) for l in trace):
                for label, v3 in evolve.edits(path[-1], 3):
                    if label.startswith(('void->', 'subtype+', 'tag+')):
                        extra.append((path + [v3], trace + (label,)))
        items = items + extra[::7]
        r.notes.append('depth 3: every 7th history (in enumeration order) extending a two-edit history of distinct kinds by a union/subtype edit')
    r.transitions += transitions
    r.bounds.update({'history_length': depth, 'versions_per_depth': per_depth, 'histories': len(items), 'modes': ['lenient', 'strict'],
                     'directions': ['new->old', 'old->new']})
    r.sample({'trace': list(items[0][1]), 'base_spec': render.render(items[0][0][0].model)[0][1][:1500]})
    r.sample({'trace': list(items[-1][1])})
    r.run_tasks(task, items, budget=600, chunksize=2)
    r.assumptions = ['reference reading of a message by a version: mc/rtdoc.py (json_serializer.rst); the evolution promises are the lenient branches of it',
                     'A->B through a tag that B changed from Void to a non-nullable type is not promised and not judged']
    r.finish('BFS over spec histories: every compatible edit at every applicable site, histories up to the bound; for every version and '
             'every ancestor: every varied boundary value of every common type, both directions, strict and lenient, compared with the reference '
             'reading; new fields read as defaults', exhaustive=(tier == 'quick'))


def replay(rep):
    print('re-run ./check C07; recorded trace: %r' % (rep['inputs'].get('trace'),))
    items, _, _ = explore_versions(2)
    for path, trace in items:
        if list(trace)[-len(rep['inputs']['trace']):] == rep['inputs']['trace'] or list(trace) == rep['inputs']['trace']:
            out = task((path, trace))
            if any(v['id'] == rep['identity'] for v in out['viol']):
                print('VIOLATION property=%s replay=replayed' % PROP)
                return 1
            return 0
    return 2
