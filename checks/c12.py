"""C12 - code generation is deterministic.

Configurations are enumerated completely: specs (hand-built determinism specs biased to what flows through sets and
dicts + every model of the annotation-family profiles) x all built-in backends x a COVERING set of hash seeds x
histories {fresh process, after compiling and generating an unrelated spec, a second run into a directory of different
path length in the same process} (x a route whitelist for the specs that have routes).  Every run happens in its own
interpreter (tools/c12_worker.py) with its own PYTHONHASHSEED; all outputs must be byte-identical to the reference
configuration (seed 0, fresh).

The covering seed set is computed, not sampled: seeds are added until every pair of same-kind identifiers of the pool has
been observed in both set-iteration orders and every triple of caller names in all six orders.
"""
import collections
import itertools
import json
import os
import shutil
import subprocess
import sys

from mc import explore, render, impl, profiles
from mc import model as mm
from mc.explore import viol

PROP = 'C12'
WORKER = os.path.join(explore.VERIF, 'tools', 'c12_worker.py')

CFG = '''namespace stone_cfg
struct Route
    auth String = "user"
    host String = "api"
    style String = "rpc"
'''

RICH = [
    ('callers-and-annotations', [('cfg.stone', CFG), ('files.stone', '''namespace files
import common
import annots
annotation OA = Omitted("alpha")
annotation OB = Omitted("beta")
annotation OC = Omitted("gamma")
annotation OD = Omitted("delta")
annotation N1 = annots.Note("a")
annotation N2 = annots.Mark("b")
annotation N3 = annots.Note("c")
struct Meta
    union
        file FileMeta
        folder FolderMeta
    name String
        @OA
        @N1
        @N2
    tags List(String)?
        @OB
    owner common.User
        @OC
    extra Int32?
        @OD
        @N3
struct FileMeta extends Meta
    size UInt64 = 3
        @OB
    mode Mode = add
        @OD
struct FolderMeta extends Meta
    shared Boolean = false
        @OA
    more String?
        @OC
alias Noted = String
    @N3
struct Plain
    a String
        @OC
    b String
        @OA
    c String
        @OB
    z String?
        @N1
        @N3
        @N2
    w Noted?
        @N1
struct Deep extends Plain
    d String
        @OD
struct Deeper extends Deep
    e String
        @OA
union Mode
    "doc :route:`get` :route:`put:2` :type:`common.User` :type:`Plain` :field:`Plain.a`"
    add
        @OA
    update String
        @OB
    meta Meta
        @OC
    del
        @OD
union Mode2 extends Mode
    plus
        @OB
    plus2 String
        @OC
route get(Meta, Meta, Mode)
    ":route:`put:2` and :route:`get` :type:`Mode2`"
    attrs
        style = "download"
route put:2(Meta, Void, Void) deprecated by get
    attrs
        style = "upload"
route lst(Plain, List(Deeper), Mode2)
    attrs
        auth = "team"
route adm(Void, Void, Void)
    attrs
        auth = "team, user"
'''), ('common.stone', '''namespace common
import annots
struct User
    id String
    n annots.Num
alias Uid = String
'''), ('annots.stone', '''namespace annots
annotation_type Note
    x String
annotation_type Mark
    y String
alias Num = Int32
''')], {'route_whitelist': {'files': ['get', 'put:2']}, 'datatype_whitelist': {'files': ['Deeper', 'Mode2'], 'common': ['User']}}),
    ('many-imports', [('cfg.stone', CFG)] + [('n%d.stone' % i, 'namespace n%d\n%s\nstruct S%d\n    x Int32\n%s\nroute r%d(S%d, Void, Void)\n' % (
        i, ''.join('import n%d\n' % j for j in range(i)), i, ''.join('    f%d n%d.S%d?\n' % (j, j, j) for j in range(i)), i, i)) for i in range(5)],
     {'route_whitelist': {'n4': ['*'], 'n2': ['r2']}, 'datatype_whitelist': {'n0': ['S0']}}),
]

# Siblings: specs with the SAME namespace, type, alias, annotation and route names as a rich spec but different content (imports,
# owners of names, field types, alias targets); generated first in the 'after-sibling' history.
REACH = ('alias-reach', [('cfg.stone', CFG),
                         ('files.stone', 'namespace files\nimport users\nstruct F\n    "doc :type:`F` :type:`users.Holder`"\n    t users.ThingAlias\n    l List(users.ThingAlias)?\n    e users.ExAlias?\n    z users.ZedAlias?\n    m users.MoreAlias?\n'
                                         '    s users.Str2 = "x"\n    k users.Kind2 = a\nroute get(F, Void, Void)\n    ":type:`F`"\n'),
                         ('users.stone', 'namespace users\nimport common\nimport extra\nimport zed\nimport more\nalias ThingAlias = common.Thing\nalias ExAlias = extra.Ex\nalias ZedAlias = List(zed.Zd)\nalias MoreAlias = more.Mo\n'
                                         'alias Str1 = String\nalias Str2 = Str1\nalias Kind1 = common.Kind\nalias Kind2 = Kind1\nstruct Holder\n    h ThingAlias\n'),
                         ('common.stone', 'namespace common\nstruct Thing\n    "doc :type:`Thing`"\n    x Int32\nunion Kind\n    a\n    b\n'),
                         ('extra.stone', 'namespace extra\nstruct Ex\n    x Int32\n'), ('zed.stone', 'namespace zed\nstruct Zd\n    x Int32\n'), ('more.stone', 'namespace more\nstruct Mo\n    x Int32\n')], None)
REACH_SIBLING = [('cfg.stone', CFG),
                 ('files.stone', 'namespace files\nimport users\nimport common\nstruct F\n    "doc :type:`F` :type:`users.Holder`"\n    t users.ThingAlias\n    c common.Thing\n    k common.Kind = a\nstruct Thing\n    y String\nroute get(F, Thing, Void)\n    ":type:`F`"\n'),
                 ('users.stone', 'namespace users\nalias ThingAlias = String\nstruct Holder\n    h ThingAlias\n    i Int32 = 1\n'),
                 ('common.stone', 'namespace common\nimport users\nstruct Thing\n    "doc :type:`Thing`"\n    x users.Holder?\nunion Kind\n    a\n    b\n    c Thing\n')]


IDENT_POOL = {
    'callers': ['alpha', 'beta', 'gamma', 'delta'],
    'namespaces': ['files', 'common', 'annots', 'n0', 'n1', 'n2', 'n3', 'n4', 'na', 'nb', 'users', 'extra', 'zed', 'more'],
    'types': ['Meta', 'FileMeta', 'FolderMeta', 'Plain', 'Deep', 'Deeper', 'Mode', 'Mode2', 'User', 'S0', 'S1', 'S2', 'S3', 'S4', 'Saa', 'Sab', 'Uaa'],
    'annotations': ['OA', 'OB', 'OC', 'OD', 'N1', 'N2', 'N3', 'Note', 'Mark', 'Om1', 'Om2', 'Rb', 'Rh'],
    'routes': ['get', 'put', 'put:2', 'lst', 'r0', 'r1', 'r2', 'r3', 'r4'],
}


def orders_for_seed(seed):
    code = ('import json,itertools\npool=%r\nout={}\n'
            'for kind,names in pool.items():\n'
            '    for a,b in itertools.combinations(names,2):\n'
            '        out[kind+":"+a+","+b]=list(set([a,b]))[0]\n'
            'for t in itertools.combinations(pool["callers"],3):\n'
            '    out["triple:"+",".join(t)]=",".join(set(t))\n'
            'print(json.dumps(out))') % (IDENT_POOL,)
    p = subprocess.run([sys.executable, '-c', code], capture_output=True, text=True, env=dict(os.environ, PYTHONHASHSEED=str(seed)))
    return json.loads(p.stdout)


def covering_seeds(limit=400):
    """Greedy cover: every same-kind pair in both orders, every caller triple in all 6 orders."""
    need = {}
    first = orders_for_seed(0)
    for k in first:
        need[k] = set()
    target = {k: (6 if k.startswith('triple:') else 2) for k in first}
    chosen = []
    for seed in range(limit):
        o = first if seed == 0 else orders_for_seed(seed)
        new = [k for k, v in o.items() if v not in need[k]]
        if seed == 0 or new:
            chosen.append(seed)
            for k, v in o.items():
                need[k].add(v)
        if all(len(need[k]) >= target[k] for k in need):
            return chosen, True, {k: len(v) for k, v in need.items() if len(v) < target[k]}
    return chosen, False, {k: len(v) for k, v in need.items() if len(v) < target[k]}


OPTION_SETS = {
    # the option set under test (auth-type filtering in the clients) and a different one run earlier in the same process
    'args': {'python_client': ['-m', 'client', '-c', 'C', '-t', 'pkg', '-w', 'user'],
             'js_client': ['r.js', '--wrap-response-in', 'Wrapped', '-a', 'auth'],
             'tsd_client': ['ctpl.d.ts', 'c.d.ts', '-a', 'host'],
             'tsd_types': ['tpl.d.ts', '--export-namespaces'],
             'js_types': ['t.js'] + [x for k, v in (('auth', 'user'), ('host', 'api'), ('style', 'rpc'), ('style', 'upload')) for x in
                                     ('-e', json.dumps({'match': [k, v], 'arg_name': 'x_' + k + '_' + v, 'arg_type': 'string', 'arg_docstring': 'extra for %s' % k}))]},
    'pre_args': {'python_client': ['-m', 'client', '-c', 'C', '-t', 'pkg', '-w', 'team'],
                 'js_client': ['r.js', '-c', 'OtherClass', '-a', 'style'],
                 'tsd_client': ['ctpl.d.ts', 'c.d.ts', '--wrap-response-in', 'W'],
                 'tsd_types': ['tpl.d.ts', '-p', 'prefix']},
}


def run_job(specs, seed, history, whitelist, unrelated, keep_text=False, sibling=None):
    d = explore.fresh_dir('c12')
    try:
        job = {'specs': specs, 'history': history, 'outdir': d, 'whitelist': whitelist, 'unrelated': unrelated, 'keep_text': keep_text, 'sibling': sibling, 'failing': FAILING,
               'args': OPTION_SETS['args'], 'pre_args': OPTION_SETS['pre_args']}
        env = dict(os.environ, PYTHONHASHSEED=str(seed), PYTHONDONTWRITEBYTECODE='1')
        p = subprocess.run([sys.executable, WORKER], input=json.dumps(job), capture_output=True, text=True, env=env, timeout=300)
        if p.returncode != 0:
            return {'error': p.stderr[-1500:]}
        return json.loads(p.stdout)
    finally:
        shutil.rmtree(d, ignore_errors=True)


UNRELATED = [('zz.stone', 'namespace zz\nannotation OZ = Omitted("zeta")\nstruct Z\n    z String\n        @OZ\nunion ZU\n    a\n        @OZ\nroute zr(Z, ZU, Void)\n'),
             ('cfg.stone', CFG)]


# accepted by the frontend; the Python / JavaScript / TypeScript backends stop with a route-name conflict after they have emitted the types
FAILING = [('cfg.stone', CFG), ('aa.stone', 'namespace aa\nstruct Early\n    "doc :type:`Early`"\n    when Timestamp("%Y")?\n    many List(String)\n    m Map(String, Int32)?\n    u Eu = ea\nunion Eu\n    ea\n    eb Early\n'
                                            'alias Ea = Early\nroute get_item(Early, Void, Void)\nroute get/item(Void, Early, Eu)\n')]


def first_diff(ref, got):
    for be in ref:
        if ref[be] == got.get(be):
            continue
        if isinstance(ref[be], str) or isinstance(got.get(be), str):
            return be, '(outcome) %r vs %r' % (ref[be] if isinstance(ref[be], str) else 'files', got.get(be) if isinstance(got.get(be), str) else 'files')
        if sorted(ref[be]) != sorted(got[be]):
            return be, '(file set) %r vs %r' % (sorted(ref[be]), sorted(got[be]))
        for f in sorted(ref[be]):
            if ref[be][f] != got[be][f]:
                return be, f
    return None


def task(item):
    name, specs, whitelist, seeds, histories = item[:5]
    sibling = item[5] if len(item) > 5 else None
    oc = collections.Counter()
    out_v = []
    n = 0
    ref = run_job(specs, 0, 'fresh', None, UNRELATED)
    if 'error' in ref:
        raise explore.InternalError('C12 worker failed: ' + ref['error'])
    if 'compile' in ref['runs'][0]:
        return {'outcome': 'spec-not-accepted', 'viol': []}
    ref_wl = run_job(specs, 0, 'fresh', whitelist, UNRELATED) if whitelist else None
    for wl, reference in ((None, ref), (whitelist, ref_wl)):
        if wl is not None and reference is None:
            continue
        if wl is None and reference is None:
            continue
        for seed in seeds:
            for hist in histories:
                if seed == 0 and hist == 'fresh':
                    continue
                n += 1
                if hist == 'after-sibling' and sibling is None:
                    continue
                got = run_job(specs, seed, hist, wl, UNRELATED, sibling=sibling)
                if 'error' in got:
                    raise explore.InternalError('C12 worker failed: ' + got['error'])
                for ri, run_ in enumerate(got['runs']):
                    d = first_diff(reference['runs'][0], run_)
                    if d is None:
                        oc['identical'] += 1
                        continue
                    oc['differs'] += 1
                    cause = 'hash-seed' if seed != 0 and hist == 'fresh' else ('history:' + hist if seed == 0 else 'seed+history')
                    # fetch the differing line for the report
                    detail = ''
                    try:
                        a = run_job(specs, 0, 'fresh', wl, UNRELATED, keep_text=True)['text'][d[0]][d[1]].split('\n')
                        b = run_job(specs, seed, hist, wl, UNRELATED, keep_text=True, sibling=sibling)['text'][d[0]][d[1]].split('\n')
                        for x, y in zip(a, b):
                            if x != y:
                                detail = '%r vs %r' % (x[:200], y[:200])
                                break
                    except Exception:
                        pass
                    out_v.append(viol('bytes:%s:%s%s' % (d[0], cause.split(':')[0], ':whitelist' if wl else ''),
                                      'output of %s differs (%s) for spec %s, seed %d, history %s%s, run %d: %s' % (d[0], d[1], name, seed, hist, ', whitelist' if wl else '', ri, detail),
                                      {'specs': specs, 'seed': seed, 'history': hist, 'whitelist': wl, 'backend': d[0], 'file': d[1], 'sibling': sibling}, detail))
    return {'outcome': oc, 'viol': out_v, 'n': max(n, 1), 'transitions': n}


def run(tier, seed):
    r = explore.Run(PROP, tier, seed)
    seeds, complete, missing = covering_seeds()
    r.bounds['covering_seed_set'] = seeds
    r.bounds['covering_complete'] = complete
    if not complete:
        r.caps_hit.append('covering-seed-search-limit')
        r.notes.append('orders not observed: %r' % (missing,))
    extra_seed = 1000 + (seed % 1000)
    all_seeds = seeds + [extra_seed]
    r.bounds['extra_seed_from_VERIF_SEED'] = extra_seed
    items = []
    for name, specs, wl in RICH:
        items.append((name, specs, wl, all_seeds, ['fresh', 'after-unrelated', 'after-namesake', 'after-other-options', 'after-failed', 'isolated', 'twice']))
    # a pair of specs that share every name but differ in imports, owners and targets: each is generated after the other
    items.append((REACH[0], REACH[1], None, all_seeds, ['fresh', 'after-sibling', 'after-namesake', 'after-failed', 'isolated', 'twice'], REACH_SIBLING))
    items.append((REACH[0] + '-sibling', REACH_SIBLING, None, all_seeds[:3], ['fresh', 'after-sibling', 'after-namesake', 'twice'], REACH[1]))
    budget = 60 if tier == 'quick' else 400
    seen = set()
    nm = 0
    prev_specs = {}
    for fams in [('F13-annotations', 'F3-inherit'), ('F13-annotations', 'F5-unions'), ('F13-annotations', 'F1-imports'), ('F13-annotations', 'F12-routes'),
                 ('F1-imports', 'F12-routes'), ('F13-annotations', 'F14-patches')]:
        p = profiles.make_profile(fams)
        br = profiles.explore_budget(p, budget)
        r.add_bfs(p.name, br)
        for s, tr, d in br.states:
            if s in seen or d < 2:
                continue
            seen.add(s)
            specs = render.render(s) + [('cfg.stone', CFG)]
            sib = prev_specs.get(p.name)
            prev_specs[p.name] = specs
            items.append(('%s:%s' % (p.name, '/'.join(tr)), specs, None, all_seeds[:4] if tier == 'quick' else all_seeds,
                          (['fresh'] if tier == 'quick' else ['fresh', 'twice']) + (['after-sibling'] if sib else []), sib))
            nm += 1
    r.bounds.update({'rich_specs': len(RICH), 'machine_models': nm, 'backends': list(impl.BACKEND_RUNS), 'histories': ['fresh', 'after-unrelated', 'after-namesake (the same spec under other namespace names first)', 'after-other-options (same spec, other backend options first)', 'isolated (each backend on its own freshly compiled Api instead of all backends on one Api)', 'twice (two output directories)', 'after-failed (a spec on which the backends stop half-way was generated first)', 'after-sibling (another spec with the same namespace / type names but different imports, owners and targets first; machine models: the previous model of the same profile)'], 'option_sets': OPTION_SETS})
    r.sample({'spec': RICH[0][0], 'files': [p for p, _ in RICH[0][1]], 'whitelist': RICH[0][2], 'seeds': all_seeds})
    r.run_tasks(task, items, budget=1800, chunksize=1)
    r.assumptions = ['object addresses are not controlled; the history dimension perturbs them', 'every run is a separate interpreter with its own PYTHONHASHSEED']
    r.finish('specs x all built-in backends x covering hash-seed set (every same-kind identifier pair in both set-iteration orders, every caller '
             'triple in all orders) x histories x whitelist; byte equality with the reference configuration')


def replay(rep):
    specs = [tuple(x) for x in rep['inputs']['specs']]
    a = run_job(specs, 0, 'fresh', rep['inputs'].get('whitelist'), UNRELATED)
    b = run_job(specs, rep['inputs']['seed'], rep['inputs']['history'], rep['inputs'].get('whitelist'), UNRELATED, sibling=rep['inputs'].get('sibling'))
    for run_ in b['runs']:
        if first_diff(a['runs'][0], run_):
            print('VIOLATION property=%s replay=replayed' % PROP)
            return 1
    return 0
