"""C01 - the compiler accepts exactly the specs that obey the language rules.

Exhaustive BFS of the spec construction machine under every pair (quick) / triple (thorough) of
feature families; every reachable state is valid by the reference rules and must compile; the
fault catalogue (mc/faults.py) is applied at every applicable site of every state and each
faulted spec must be refused with InvalidSpec.
"""
import collections
import os

from mc import explore, render, impl, faults, profiles, paramspace
from mc import model as mm
from mc.explore import viol

PROP = 'C01'
BASE_DEPTH = [3]


def gather_states(tier, run, budget=None, extra_models=True):
    """All states of all family profiles, deduplicated globally.
    Returns [(model, trace, profile_name, flags, depth)] - flags: union of the machine flags of the profiles that
    reach the state, depth: smallest BFS depth at which it is reached."""
    k = 2 if tier == 'quick' else 3
    budget = budget or int(os.environ.get('VERIF_STATE_BUDGET', '0')) or (1500 if tier == 'quick' else 600)
    seen = {}
    out = []
    prof_info = {}
    plan = [(fams, budget) for fams in profiles.combos(k)]
    if tier == 'thorough':
        # every pair of families deeply, every triple to the completed depth within the smaller budget
        plan = [(fams, 5000) for fams in profiles.combos(2)] + plan
    for fams, budget_ in plan:
        p = profiles.make_profile(fams)
        r = profiles.explore_budget(p, budget_)
        if r is None:
            raise explore.InternalError('profile %s has no complete depth within budget' % p.name)
        run.add_bfs(p.name, r)
        new = 0
        for s, tr, d in r.states:
            if s not in seen:
                seen[s] = len(out)
                out.append([s, tr, p.name, set(p.families), d])
                new += 1
            else:
                e = out[seen[s]]
                e[3] |= p.families
                e[4] = min(e[4], d)
        prof_info[p.name] = {'states': r.n, 'new': new, 'depth': r.depth_completed}
    run.bounds['profiles'] = len(prof_info)
    run.bounds['family_combination_size'] = k
    run.bounds['per_profile_state_budget'] = budget
    run.bounds['profile_depths'] = {k_: v['depth'] for k_, v in prof_info.items()}
    res = [(s, tr, pn, tuple(sorted(fl)), d) for s, tr, pn, fl, d in out]
    # name-reversed variants: the same structure with, per namespace and kind, the names handed out in reverse alphabetical
    # order, for every state in which a definition depends on another one of its own kind (alias -> alias through any
    # wrapper, child -> parent, root -> subtypes): alphabetical listings and dependency-first linearizations then disagree
    nrev = 0
    for s, tr, pn, fl, d in list(res):
        if not _same_kind_dependency(s):
            continue
        r2 = mm.reversed_names(s)
        if r2 is None or r2 in seen:
            continue
        seen[r2] = -1
        res.append((r2, tuple(tr) + ('rename: reverse alphabetical names',), pn, fl, d))
        nrev += 1
    run.bounds['name_reversed_variants'] = nrev
    if extra_models:
        for m, tr in profiles.cross_namespace_models():
            if m not in seen:
                res.append((m, tr, 'cross-namespace-product', ('aliases', 'imports', 'ns', 'routes', 'unions', 'wrappers'), 3))
        run.bounds['cross_namespace_alias_product_models'] = len(profiles.cross_namespace_models())
        ann = profiles.annotation_models()
        for m, tr in ann:
            if m not in seen:
                res.append((m, tr, 'annotation-types', ('annotations', 'imports', 'ns', 'routes', 'unions', 'aliases'), 3))
        run.bounds['annotation_type_models'] = len(ann)
        cni = profiles.cross_namespace_inheritance_models()
        for m, tr in cni:
            if m not in seen:
                res.append((m, tr, 'cross-namespace-inheritance', ('aliases', 'imports', 'inherit', 'uinherit', 'ns', 'routes', 'unions', 'wrappers', 'defaults'), 3))
        run.bounds['cross_namespace_inheritance_models'] = len(cni)
        tnc = profiles.three_namespace_chain_models()
        for m, tr in tnc:
            if m not in seen:
                res.append((m, tr, 'three-namespace-alias-chain', ('aliases', 'imports', 'ns', 'routes', 'unions', 'wrappers', 'defaults'), 3))
        run.bounds['three_namespace_alias_chain_models'] = len(tnc)
        irm = profiles.import_reason_models()
        for m, tr in irm:
            if m not in seen:
                res.append((m, tr, 'import-reasons', ('aliases', 'annotations', 'docs', 'imports', 'ns', 'routes', 'unions', 'wrappers'), 3))
        run.bounds['import_reason_models'] = len(irm)
        dim = profiles.deep_inheritance_models()
        for m, tr in dim:
            if m not in seen:
                res.append((m, tr, 'deep-inheritance', ('defaults', 'imports', 'inherit', 'uinherit', 'ns', 'routes', 'unions', 'wrappers'), 3))
        run.bounds['deep_inheritance_models'] = len(dim)
        prm = profiles.path_route_models()
        for m, tr in prm:
            if m not in seen:
                res.append((m, tr, 'path-routes', ('imports', 'ns', 'routes', 'unions'), 3))
        run.bounds['path_route_models'] = len(prm)
        tan = profiles.tree_across_namespaces_models()
        for m, tr in tan:
            if m not in seen:
                res.append((m, tr, 'tree-across-namespaces', ('aliases', 'imports', 'inherit', 'subtypes', 'ns', 'routes', 'unions', 'wrappers', 'defaults'), 3))
        run.bounds['tree_across_namespaces_models'] = len(tan)
    return res


def _same_kind_dependency(model):
    for nsn, fi, di, d in mm.all_defs(model):
        if isinstance(d, mm.Alias):
            for r in mm.type_refs(d.type):
                t = mm.resolve(model, nsn, r)
                if t is not None and t[0] == nsn and isinstance(t[1], mm.Alias):
                    return True
        elif isinstance(d, (mm.Struct, mm.Union)) and d.parent is not None:
            t = mm.resolve(model, nsn, d.parent)
            if t is not None and t[0] == nsn:
                return True
    return False


def judge_valid(specs, out):
    if out.kind == 'ok':
        return None
    if out.kind == 'invalid':
        return viol('refused:valid-spec:' + classify_msg(out.msg), 'valid spec refused: ' + out.brief(), {'specs': specs},
                    out.brief(), 'an Api')
    return viol(out.escape_identity(), 'valid spec: foreign exception ' + out.brief(), {'specs': specs}, out.tb, 'an Api')


def classify_msg(msg):
    import re
    m = re.sub(r"'[^']*'", "'_'", msg or '')
    m = re.sub(r'\d+', 'N', m)
    return m[:60]


def judge_fault(rule, kind, label, specs, out):
    if out.kind == 'invalid':
        return None
    if out.kind == 'ok':
        return viol('accepted:%s:%s' % (rule, kind), 'accepted although rule %s is broken at %s' % (rule, label),
                    {'specs': specs, 'rule': rule, 'site': label}, 'an Api was returned', 'InvalidSpec')
    return viol(out.escape_identity(), 'rule %s broken at %s: foreign exception %s' % (rule, label, out.brief()),
                {'specs': specs, 'rule': rule, 'site': label}, out.tb, 'InvalidSpec')


def task(item):
    model, trace, pname, flags, depth = item
    specs = render.render(model)
    oc = collections.Counter()
    v = []
    out = impl.compile_specs(specs)
    x = judge_valid(specs, out)
    oc['valid:' + out.kind] += 1
    n = 1
    if x:
        x['inputs']['trace'] = list(trace)
        v.append(x)
    # nested definitions (lang_ref: identical to a top-level definition): the same model with its definitions written inline
    for lab, ispecs in render.render_inline_variants(model)[:1]:
        n += 1
        io = impl.compile_specs(ispecs)
        oc['valid-inline:' + io.kind] += 1
        x = judge_valid(ispecs, io)
        if x:
            x['id'] = x['id'].replace('refused:valid-spec:', 'refused:valid-spec:nested-definition:')
            x['inputs']['trace'] = list(trace) + [lab]
            v.append(x)
    for rule, kind, label, fspecs in faults.faults(model, flags, base=depth <= BASE_DEPTH[0]):
        if fspecs is None:
            continue
        n += 1
        fo = impl.compile_specs(fspecs)
        oc['fault:%s:%s' % (rule, fo.kind)] += 1
        x = judge_fault(rule, kind, label, fspecs, fo)
        if x:
            x['inputs']['trace'] = list(trace)
            v.append(x)
    return {'outcome': oc, 'viol': v, 'n': n, 'transitions': n - 1}


def ptask(item):
    """parameter / literal space: item = (label, expect_valid, rule, specs)"""
    label, expect_valid, rule, specs = item
    out = impl.compile_specs(specs)
    if expect_valid:
        x = judge_valid(specs, out)
        return {'outcome': 'param-valid:' + out.kind, 'viol': [x] if x else []}
    x = judge_fault(rule, label.split('|')[0], label, specs, out)
    return {'outcome': 'param-fault:%s:%s' % (rule, out.kind), 'viol': [x] if x else []}


def run(tier, seed):
    r = explore.Run(PROP, tier, seed)
    states = gather_states(tier, r)
    BASE_DEPTH[0] = 3 if tier == 'quick' else 4
    r.bounds['context_free_faults_applied_up_to_depth'] = BASE_DEPTH[0]
    for s, tr, pn, fl, d in states[:3] + states[len(states) // 2:len(states) // 2 + 2] + states[-2:]:
        r.sample({'profile': pn, 'trace': list(tr), 'specs': render.render(s)})
    r.run_tasks(task, states, budget=120)
    pitems = list(paramspace.items(tier)) + list(paramspace.fixed_items())
    r.bounds['parameter_space_items'] = len(pitems)
    r.run_tasks(ptask, pitems, budget=60, order_base=len(states))
    r.sample({'parameter-space': pitems[0][0], 'specs': pitems[0][3]})
    r.assumptions = ['reference rules written from docs/lang_ref.rst (mc/machine.py guards, mc/faults.py catalogue)',
                     'small-scope bound: see coverage.bounds']
    r.finish('BFS of the spec construction machine per feature-family profile (all pairs/triples), global dedup on the '
             'model; every state compiled with specs_to_ir (must succeed) and every fault of the rule-violation catalogue '
             'applied at every applicable site (must raise InvalidSpec); plus the parameter/literal product space')


def replay(rep):
    specs = [tuple(x) for x in rep['inputs']['specs']]
    res = []
    for _ in range(2):
        out = impl.compile_specs(specs)
        res.append(out.brief())
    if res[0] != res[1]:
        print('replay is not deterministic: %r' % (res,))
        return 2
    rule = rep['inputs'].get('rule')
    out = impl.compile_specs(specs)
    x = judge_fault(rule, '', rep['inputs'].get('site', ''), specs, out) if rule else judge_valid(specs, out)
    print('observed:', out.brief())
    if x:
        print('VIOLATION property=%s replay=%s' % (PROP, 'replayed'))
        return 1
    return 0
