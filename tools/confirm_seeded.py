#!/venv/bin/python
"""Confirm sub-agent seeded changes: apply each patch in a scratch worktree, run the unedited test suite, run the
demonstration with and without the patch, and file the confirmed ones under /verif/seeded/<id>/."""
import json, os, shutil, subprocess, sys
SRC = sys.argv[1] if len(sys.argv) > 1 else '/tmp/wt/out'
WT = '/tmp/wt/confirm'
DEST = '/verif/seeded'
only = sys.argv[2:]
OFFSET = int(os.environ.get('SEED_OFFSET', '0'))      # second wave: ids -3, -4

def sh(cmd, cwd=None, env=None, timeout=900):
    p = subprocess.run(cmd, shell=True, cwd=cwd, env=env, capture_output=True, text=True, timeout=timeout)
    return p.returncode, (p.stdout + p.stderr)[-3000:]

subprocess.run('git -C /repo worktree remove --force %s 2>/dev/null; git -C /repo worktree prune' % WT, shell=True)
rc, out = sh('git -C /repo worktree add --detach %s HEAD' % WT)
assert rc == 0, out
env = dict(os.environ, PYTHONPATH=WT, PYTHONDONTWRITEBYTECODE='1')
results = []
try:
    for pid in sorted(os.listdir(SRC)):
        d = os.path.join(SRC, pid)
        if not os.path.isdir(d) or (only and pid not in only):
            continue
        for k in (1, 2):
            patch = os.path.join(d, 'patch%d.diff' % k)
            demo = os.path.join(d, 'demo%d.py' % k)
            if not (os.path.exists(patch) and os.path.exists(demo)):
                continue
            sid = '%s-%d' % (pid, k + OFFSET)
            sh('git checkout -- . && git clean -fdq', cwd=WT)
            rc0, o0 = sh('/venv/bin/python %s' % demo, cwd=WT, env=env)
            rca, oa = sh('git apply %s' % patch, cwd=WT)
            res = {'id': sid, 'property': pid, 'applies': rca == 0, 'demo_without_patch_exit': rc0}
            if rca == 0:
                rct, ot = sh('/venv/bin/python -m pytest -q -p no:cacheprovider -x --timeout=900 2>&1 | tail -3', cwd=WT, env=env)
                res['tests'] = ot.strip().split('\n')[-1]
                res['tests_pass'] = ' passed' in ot and 'failed' not in ot and 'error' not in ot.lower()
                rc1, o1 = sh('/venv/bin/python %s' % demo, cwd=WT, env=env)
                res['demo_with_patch_exit'] = rc1
                res['demo_with_patch_output'] = o1[-800:]
            res['confirmed'] = bool(res.get('applies') and res.get('tests_pass') and res.get('demo_with_patch_exit') == 1 and rc0 == 0)
            print(json.dumps({k_: v for k_, v in res.items() if k_ != 'demo_with_patch_output'}), flush=True)
            results.append(res)
            if res['confirmed']:
                dd = os.path.join(DEST, sid)
                os.makedirs(dd, exist_ok=True)
                shutil.copy(patch, os.path.join(dd, 'patch.diff'))
                shutil.copy(demo, os.path.join(dd, 'demo.py'))
                meta = {}
                mp = os.path.join(d, 'meta%d.json' % k)
                if os.path.exists(mp):
                    try:
                        meta = json.load(open(mp))
                    except Exception:
                        meta = {'raw': open(mp).read()}
                meta.update({'id': sid, 'property': pid, 'confirmed_by': 'tools/confirm_seeded.py: patch applies to HEAD of /repo at confirmation time; '
                             'full unedited test suite passes with it (%s); demo exits 1 with the patch and 0 without' % res['tests'],
                             'repo_head_at_confirmation': subprocess.run('git -C /repo rev-parse HEAD', shell=True, capture_output=True, text=True).stdout.strip()})
                json.dump(meta, open(os.path.join(dd, 'meta.json'), 'w'), indent=1)
finally:
    sh('git checkout -- . && git clean -fdq', cwd=WT)
    subprocess.run('git -C /repo worktree remove --force %s; git -C /repo worktree prune' % WT, shell=True)
json.dump(results, open('/tmp/wt/confirm_results.json', 'w'), indent=1)
print('confirmed %d of %d' % (sum(r['confirmed'] for r in results), len(results)))
