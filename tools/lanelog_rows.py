#!/venv/bin/python
"""Rows of a seeded regression recovered from lane logs (for a regression that was stopped before it wrote its report).
usage: lanelog_rows.py out.json lane.log ...   A log line is '<seed>  exit=<code> wall=<s>s [identities]'."""
import ast, json, re, sys
rows = {}
for path in sys.argv[2:]:
    for line in open(path):
        m = re.match(r'(C\d\d-\d+)\s+exit=(\S+)\s+wall=\s*([\d.]+)s (\[.*\])\s*$', line)
        if m:
            code = int(m.group(2)) if m.group(2).lstrip('-').isdigit() else m.group(2)
            rows[m.group(1)] = [m.group(1), code, float(m.group(3)), ast.literal_eval(m.group(4))]
json.dump(list(rows.values()), open(sys.argv[1], 'w'), indent=1)
print(len(rows), 'rows')
