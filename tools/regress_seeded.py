#!/venv/bin/python
"""Run every seeded change against the check of its own property (quick tier unless --thorough) and print a table.
usage: regress_seeded.py [--thorough] [seed-id ...]      (modifies and restores /repo: run nothing else meanwhile)"""
import json, os, subprocess, sys
HERE = os.path.dirname(os.path.dirname(os.path.abspath(__file__)))
only = [a for a in sys.argv[1:] if not a.startswith('--')]
extra = [a for a in sys.argv[1:] if a.startswith('--')]
rows = []
for sid in sorted(os.listdir(os.path.join(HERE, 'seeded'))):
    if only and sid not in only:
        continue
    prop = sid.split('-')[0]
    p = subprocess.run([os.path.join(HERE, 'tools', 'run_seeded.py'), sid, prop] + extra, capture_output=True, text=True)
    try:
        res = json.loads(p.stdout[p.stdout.index('{'):])[sid][prop]
        idents = [v.split('identity: ')[1] for v in res['violations'] if 'identity: ' in v]
        rows.append((sid, res['exit'], res['wall'], idents[:3]))
    except Exception as e:  # noqa
        rows.append((sid, 'ERR', 0, [p.stdout[-200:] + p.stderr[-200:]]))
    print('%-7s exit=%-3s wall=%6.1fs %s' % tuple(rows[-1]), flush=True)
missed = [r[0] for r in rows if r[1] != 1]
print('caught %d / %d; not caught: %s' % (len(rows) - len(missed), len(rows), missed))
out = os.environ.get('SEEDED_REPORT', '/tmp/wt/seeded-report.json')
os.makedirs(os.path.dirname(out), exist_ok=True)
json.dump(rows, open(out, 'w'), indent=1)
