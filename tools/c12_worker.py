#!/venv/bin/python
"""Worker of C12: runs in its own interpreter (own PYTHONHASHSEED).  Reads a JSON job from stdin:
  {"specs": [[path, text], ...], "history": "fresh"|"after-unrelated"|"after-namesake"|"after-other-options"|"isolated"|"twice", "outdir": dir, "whitelist": null|{...}, "unrelated": [[path, text], ...]}
and prints {"runs": [{backend: {relpath: sha1} | "crash ..."}]}.  No state is shared with the parent."""
import hashlib
import json
import os
import shutil
import sys

sys.path.insert(0, os.path.dirname(os.path.dirname(os.path.abspath(__file__))))
os.environ['VERIF_FRESH_PARSER'] = '1'     # the real thing: no parser cache in the process under observation
from mc import impl  # noqa


ISOLATED = [False]


def digest(outs):
    d = {}
    for name, o in outs.items():
        if 'crash' in o:
            d[name] = 'crash ' + o['crash']
        else:
            d[name] = {k: hashlib.sha1(v).hexdigest() for k, v in o['files'].items()}
    return d


def texts(outs):
    return {name: {k: v.decode('utf-8', 'replace') for k, v in o['files'].items()} for name, o in outs.items() if 'files' in o}


def generate(specs, whitelist, root, sub, args_override=None):
    kw = {}
    if whitelist is not None:
        kw['route_whitelist_filter'] = whitelist
    out = impl.compile_specs([tuple(x) for x in specs], **kw)
    if out.kind != 'ok':
        return {'compile': out.brief()}, {}
    os.environ['VERIF_SCRATCH'] = root
    if ISOLATED[0]:
        # every backend on its own freshly compiled Api (nothing another backend did to the Api can matter)
        o = {}
        for name in impl.BACKEND_RUNS:
            api = impl.compile_specs([tuple(x) for x in specs], **kw).api
            o.update(impl.backend_outputs(api, [name], args_override=args_override))
    else:
        o = impl.backend_outputs(out.api, args_override=args_override)
    return digest(o), texts(o)


def namesake(specs):
    """The same spec under other namespace names: every type, alias and route name recurs in a namespace that the spec under
    observation does not have (a cache keyed by a bare name would be primed with the wrong owner)."""
    import re
    names = set()
    for _, t in specs:
        names.update(re.findall(r'(?m)^namespace[ \t]+(\w+)', t))
    names.discard('stone_cfg')
    out = []
    for p, t in specs:
        for n in sorted(names, key=len, reverse=True):
            t = re.sub(r'(?m)^(namespace|import)([ \t]+)%s\b' % re.escape(n), r'\1\2%sq' % n, t)
            t = re.sub(r'(?<![\w.`"])%s\.(?=[A-Za-z_])' % re.escape(n), '%sq.' % n, t)
            t = re.sub(r'`%s\.(?=[A-Za-z_])' % re.escape(n), '`%sq.' % n, t)
        out.append((p, t))
    return out


def main():
    job = json.load(sys.stdin)
    root = job['outdir']
    os.makedirs(root, exist_ok=True)
    import mc.explore as ex
    ex._scratch_root = root
    runs = []
    keep_text = job.get('keep_text')
    if job['history'] == 'after-unrelated':
        generate(job['unrelated'], None, root, 'u')
    if job['history'] == 'after-namesake':
        pre, _ = generate(namesake(job['specs']), None, root, 'n', job.get('args'))
        if 'compile' in pre:
            print(json.dumps({'error': 'namesake spec does not compile: %s' % pre['compile']}))
            return
    if job['history'] == 'after-sibling':
        # another spec with the SAME namespace names but different content first (a cache keyed by a namespace or type name
        # would be primed with the sibling's answer)
        pre, _ = generate(job['sibling'], None, root, 's', job.get('args'))
        if 'compile' in pre:
            print(json.dumps({'error': 'sibling spec does not compile: %s' % pre['compile']}))
            return
    if job['history'] == 'after-failed':
        # a spec that the frontend accepts but on which backends stop half-way (two routes whose generated names coincide): whatever
        # the aborted run left behind must not reach the next run
        pre, _ = generate(job['failing'], None, root, 'f', job.get('args'))
        if 'compile' in pre:
            print(json.dumps({'error': 'failing spec does not compile: %s' % pre['compile']}))
            return
    if job['history'] == 'after-other-options':
        generate(job['specs'], job.get('whitelist'), root, 'o', job.get('pre_args'))
    ISOLATED[0] = job['history'] == 'isolated'
    d, t = generate(job['specs'], job.get('whitelist'), root, 'a', job.get('args'))
    runs.append(d)
    if job['history'] == 'twice':
        deeper = os.path.join(root, 'a-much-longer-output-directory-name', 'nested')
        os.makedirs(deeper, exist_ok=True)
        ex._scratch_root = deeper
        d2, _ = generate(job['specs'], job.get('whitelist'), deeper, 'b', job.get('args'))
        runs.append(d2)
    out = {'runs': runs}
    if keep_text:
        out['text'] = t
    json.dump(out, sys.stdout)


if __name__ == '__main__':
    main()
