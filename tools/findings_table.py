#!/venv/bin/python
"""Rewrites the two tables of DESIGN.md section 13.2 (between the FINDINGS markers) from known_findings.json and /repo's git log."""
import json, os, re, subprocess
HERE = os.path.dirname(os.path.dirname(os.path.abspath(__file__)))
k = json.load(open(os.path.join(HERE, 'known_findings.json')))['findings']
log = subprocess.run(['git', '-C', '/repo', 'log', '--format=%h %s'], capture_output=True, text=True).stdout.strip().split('\n')
fixes = [(l.split(' ', 1)[0], l.split(' ', 1)[1]) for l in log if l.split(' ', 1)[1].startswith('fix:')]
by_commit = {}
for f in k:
    if f['status'] == 'fixed':
        by_commit.setdefault(f.get('commit', '?')[:7], []).append(f)
rows = ['| commit | repair (commit subject) | property: what the checks observed before the repair |', '|---|---|---|']
for sha, subj in reversed(fixes):
    obs = by_commit.get(sha[:7], [])
    what = '; '.join('%s: %s' % (o['property'], re.sub(r'\s+', ' ', o['what'])[:160]) for o in obs) or '(see commit message)'
    rows.append('| %s | %s | %s |' % (sha, subj[5:].replace('|', '\\|'), what.replace('|', '\\|')))
fixed_table = '\n'.join(rows)
rows = ['| property | identity in `known_findings.json` | what fails (real input in the `example` field) |', '|---|---|---|']
for f in k:
    if f['status'] == 'known':
        rows.append('| %s | `%s` | %s |' % (f['property'], f['identity'].replace('|', '\\|'), re.sub(r'\s+', ' ', f['what']).replace('|', '\\|')))
known_table = '\n'.join(rows)
p = os.path.join(HERE, 'DESIGN.md')
s = open(p).read()
for name, table in (('FIXED', fixed_table), ('KNOWN', known_table)):
    a, b = s.index('<!-- FINDINGS-%s-BEGIN -->' % name), s.index('<!-- FINDINGS-%s-END -->' % name)
    s = s[:a] + '<!-- FINDINGS-%s-BEGIN -->\n' % name + table + '\n' + s[b:]
open(p, 'w').write(s)
print('%d fix commits, %d fixed entries, %d known' % (len(fixes), sum(1 for f in k if f['status'] == 'fixed'), sum(1 for f in k if f['status'] == 'known')))
