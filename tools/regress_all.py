#!/venv/bin/python
"""Regress every seeded change (or the given ids) against the check of its property, in parallel lanes.

usage: regress_all.py [--lanes N] [--out report.json] [seed-id ...]
Each lane owns a scratch worktree of /repo at HEAD (removed at the end); seeds are dealt to the lanes longest-first by the
measured cost of their property's check, so that the lanes finish together.  Works from a snapshot of /verif as well."""
import json, os, subprocess, sys, time
HERE = os.path.dirname(os.path.dirname(os.path.abspath(__file__)))
COST = {'C01': 260, 'C02': 150, 'C03': 50, 'C04': 20, 'C05': 12, 'C06': 35, 'C07': 200, 'C08': 30, 'C09': 180, 'C10': 15, 'C11': 400, 'C12': 190, 'C13': 10, 'C14': 25,
        'C15': 30, 'C16': 180, 'C17': 90, 'C18': 10, 'C19': 20, 'C20': 35}
args = sys.argv[1:]
lanes = 4
out = os.path.join(HERE, 'seeded-report.json')
ids = []
while args:
    a = args.pop(0)
    if a == '--lanes':
        lanes = int(args.pop(0))
    elif a == '--out':
        out = args.pop(0)
    else:
        ids.append(a)
ids = ids or sorted(os.listdir(os.path.join(HERE, 'seeded')))
ids.sort(key=lambda s: -COST.get(s.split('-')[0], 60))
buckets = [[] for _ in range(lanes)]
load = [0] * lanes
for s in ids:
    i = load.index(min(load))
    buckets[i].append(s)
    load[i] += COST.get(s.split('-')[0], 60)
base = os.environ.get('REGRESS_SCRATCH', '/tmp/wt/final')
os.makedirs(base, exist_ok=True)
procs = []
for i, b in enumerate(buckets):
    wt = os.path.join(base, 'r%d' % i)
    subprocess.run('git -C /repo worktree remove --force %s 2>/dev/null; git -C /repo worktree prune; git -C /repo worktree add --detach %s HEAD' % (wt, wt), shell=True, capture_output=True)
    env = dict(os.environ, SEED_REPO=wt, SEED_EVIDENCE=os.path.join(base, 'ev%d' % i), SEEDED_REPORT=os.path.join(base, 'report%d.json' % i))
    log = open(os.path.join(base, 'lane%d.log' % i), 'w')
    procs.append(subprocess.Popen([os.path.join(HERE, 'tools', 'regress_seeded.py')] + b, stdout=log, stderr=subprocess.STDOUT, env=env, cwd=HERE))
t0 = time.time()
for p in procs:
    p.wait()
rows = []
for i in range(lanes):
    try:
        rows += json.load(open(os.path.join(base, 'report%d.json' % i)))
    except Exception as e:  # noqa
        print('lane %d: no report (%s)' % (i, e))
    subprocess.run('git -C /repo worktree remove --force %s' % os.path.join(base, 'r%d' % i), shell=True, capture_output=True)
json.dump(rows, open(out, 'w'), indent=1)
missed = sorted(r[0] for r in rows if r[1] != 1)
print('regressed %d seeds in %.0f s; caught %d; not caught: %s' % (len(rows), time.time() - t0, len(rows) - len(missed), missed))
