#!/bin/bash
# usage: tools/sweep.sh <tier> <log> [checks...]   - runs the checks one after another, one summary line each
tier=$1; log=$2; shift 2
checks=${@:-C04 C05 C13 C14 C08 C06 C10 C18 C19 C20 C17 C15 C12 C03 C16 C07 C02 C09 C11 C01}
cd "$(dirname "$0")/.."
for c in $checks; do
  s=$(date +%s)
  out=$(./check $c --tier $tier 2>&1); rc=$?
  e=$(date +%s)
  echo "$c rc=$rc wall=$((e-s))s $(echo "$out" | grep -c '^VIOLATION') violations | $(echo "$out" | tail -1 | cut -c1-200)" >> $log
  echo "$out" | grep -A2 '^VIOLATION\|INTERNAL' | head -40 >> $log
done
echo DONE >> $log
