#!/venv/bin/python
"""Apply a seeded change to /repo, run the given checks against it, and revert.  usage: run_seeded.py <seed-id> <check> [<check>...] [--tier quick]"""
import json, os, subprocess, sys, time
args = [a for a in sys.argv[1:] if not a.startswith('--')]
tier = 'thorough' if '--thorough' in sys.argv else 'quick'
sid, checks = args[0], args[1:]
patch = '/verif/seeded/%s/patch.diff' % sid
st = subprocess.run('git -C /repo status --short', shell=True, capture_output=True, text=True).stdout.strip()
if st:
    print('refusing: /repo is dirty:\n' + st); sys.exit(2)
r = subprocess.run('git -C /repo apply %s' % patch, shell=True, capture_output=True, text=True)
if r.returncode != 0:
    r = subprocess.run('git -C /repo apply -3 %s' % patch, shell=True, capture_output=True, text=True)
    if r.returncode != 0:
        subprocess.run('git -C /repo reset -q ; git -C /repo checkout -- .', shell=True)
        print('PATCH DOES NOT APPLY to current /repo HEAD: ' + r.stderr[-300:]); sys.exit(3)
    subprocess.run('git -C /repo reset -q', shell=True)
results = {}
try:
    for c in checks:
        t = time.time()
        env = dict(os.environ, VERIF_EVIDENCE_DIR='/tmp/wt/seeded-evidence')
        p = subprocess.run(['/verif/check', c, '--tier', tier], capture_output=True, text=True, cwd='/verif', env=env)
        viol = [l for l in p.stdout.split('\n') if l.startswith('VIOLATION') or l.startswith('  identity')]
        results[c] = {'exit': p.returncode, 'violations': viol[:12], 'wall': round(time.time() - t, 1)}
        if p.returncode not in (0, 1):
            results[c]['stderr'] = p.stderr[-1500:]
finally:
    subprocess.run('git -C /repo checkout -- . && git -C /repo clean -fdq stone', shell=True)
print(json.dumps({sid: results}, indent=1))
