#!/venv/bin/python
"""Apply a seeded change to /repo, run the given checks against it, and revert.  usage: run_seeded.py <seed-id> <check> [<check>...] [--tier quick]"""
import json, os, subprocess, sys, time
args = [a for a in sys.argv[1:] if not a.startswith('--')]
tier = 'thorough' if '--thorough' in sys.argv else 'quick'
sid, checks = args[0], args[1:]
HERE = os.path.dirname(os.path.dirname(os.path.abspath(__file__)))      # the /verif tree this tool belongs to (possibly a snapshot)
patch = os.path.join(HERE, 'seeded', sid, 'patch.diff')
# SEED_REPO: a scratch worktree of /repo to patch instead of /repo itself (the checks then import stone from it)
REPO = os.environ.get('SEED_REPO', '/repo')
st = subprocess.run('git -C {REPO} status --short'.replace('{REPO}', REPO), shell=True, capture_output=True, text=True).stdout.strip()
if st:
    print('refusing: /repo is dirty:\n' + st); sys.exit(2)
r = subprocess.run('git -C {REPO} apply %s'.replace('{REPO}', REPO) % patch, shell=True, capture_output=True, text=True)
if r.returncode != 0:
    r = subprocess.run('git -C {REPO} apply -3 %s'.replace('{REPO}', REPO) % patch, shell=True, capture_output=True, text=True)
    if r.returncode != 0:
        subprocess.run('git -C {REPO} reset -q ; git -C {REPO} checkout -- .'.replace('{REPO}', REPO), shell=True)
        print('PATCH DOES NOT APPLY to current /repo HEAD: ' + r.stderr[-300:]); sys.exit(3)
    subprocess.run('git -C {REPO} reset -q'.replace('{REPO}', REPO), shell=True)
results = {}
try:
    for c in checks:
        t = time.time()
        env = dict(os.environ, VERIF_EVIDENCE_DIR=os.environ.get('SEED_EVIDENCE', '/tmp/wt/seeded-evidence'))
        if REPO != '/repo':
            env.update(PYTHONPATH=REPO, VERIF_REPO=REPO)
        p = subprocess.run([os.path.join(HERE, 'check'), c, '--tier', tier], capture_output=True, text=True, cwd=HERE, env=env)
        viol = [l for l in p.stdout.split('\n') if l.startswith('VIOLATION') or l.startswith('  identity')]
        results[c] = {'exit': p.returncode, 'violations': viol[:12], 'wall': round(time.time() - t, 1)}
        if p.returncode not in (0, 1):
            results[c]['stderr'] = p.stderr[-1500:]
finally:
    subprocess.run('git -C {REPO} checkout -- . && git -C {REPO} clean -fdq stone'.replace('{REPO}', REPO), shell=True)
print(json.dumps({sid: results}, indent=1))
