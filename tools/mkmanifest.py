#!/venv/bin/python
"""Regenerates /verif/MANIFEST.json from the table below (kept in one place so it is always valid)."""
import json, os, subprocess
HERE = os.path.dirname(os.path.dirname(os.path.abspath(__file__)))

CHECKS = {
    'C01': dict(tech='explicit-state BFS of a spec construction machine + exhaustive rule-violation fault layer, executed on specs_to_ir',
                text='Bounded exhaustive exploration: every spec reachable by the construction machine under every pair (quick) / triple (thorough) of feature families up to the completed depth is compiled by the real frontend and must be accepted; every entry of the rule-violation catalogue is injected at every applicable site of every such state and must be refused with InvalidSpec; plus the complete parameter/literal product space. Every state is also compiled with its definitions written as nested (inline) definitions; alias cycles through every wrapper are injected at every alias; import rings, diamonds and imported-namespace / local-name clashes are judged under every file order.',
                note='Reference rules (guards and fault catalogue) are written from docs/lang_ref.rst in mc/machine.py, mc/faults.py; small-scope bounds listed in the evidence; constructs the reference leaves open are never generated (DESIGN 6/C01 unspec).', ref='6/C01'),
    'C02': dict(tech='explicit-state BFS of the spec construction machine; whole-description comparison against a reference elaboration of the model',
                text='For every explored valid state the complete API description dumped from the real Api object equals the signature computed from the model by an independent reference elaboration; closure/ordering invariants are additionally evaluated on every accepted text mutant of the C03 space. The description includes the custom annotations that apply below each type (reference: reachability closure) and is also compared for every nested-definition rendering of each state.',
                note='Reference elaboration in mc/refsem.py; injected doc warnings and the order of annotation types are not judged (DESIGN 6/C02 unspec).', ref='6/C02'),
    'C03': dict(tech='exhaustive enumeration of token-level deviations and of all token strings up to a length bound, executed on specs_to_ir and stone.cli.main',
                text='Every single token-level deviation at every token of the base specs, every token string up to length 3 (quick) / 4 (thorough) in three layouts, every lang_ref snippet and token prefix, and all ordered pairs of one representative per outcome class must end in an Api or a well-formed InvalidSpec within the watchdog; one representative per outcome class is replayed through the CLI. Plus a reference-site x qualifier x name matrix (unqualified, own, imported, unimported, unknown namespaces, namespaces named like local definitions and built-in types), a literal x type matrix with over-long literals and degenerate timestamp formats, and a documentation-reference space.',
                note='Termination judged by a 20 s watchdog; mutation tokenizer is the harness\'s own.', ref='6/C03'),
    'C11': dict(tech='exhaustive enumeration of layout variants (file/definition permutations, set partitions into files, comment/blank/continuation insertions, stdin) of every BFS-explored model, executed on specs_to_ir, the built-in backends and stone.cli.main',
                text='For every model of the layout exploration, every file permutation, every definition permutation per file, every set partition of a namespace into up to three files, one comment/blank/trailer insertion at every line boundary, every continuation break and stdin delivery must give the same API signature (namespace docs recomputed in file order); backend output bytes are compared for the structural variants; a layout that flips acceptance is a violation. Standard-input delivery is repeated with trailing comments / blanks on namespace lines, a comment or blank line before them and a missing final newline.',
                note='Backend byte comparison is restricted to the shallower models in the quick tier (the signature dump covers everything backends read); positions inside multi-line doc strings are not layout.', ref='6/C11'),
    'C04': dict(tech='exhaustive enumeration of (type shape, position, boundary value, mode) over a packed runtime universe; round trip executed on the generated classes and serializers + history layer (ordered pairs of user types, each in a pristine forked process)',
                text='Every type expression up to the nesting bound over primitives with boundary parameters, user types of every kind and aliases, at every position (struct field, union member, alias, route argument), with every boundary value, in strict and lenient mode through both entry points: decode(encode(v)) equals v (observed through public attributes and by the generated __eq__) and re-encoding gives the same JSON. Positions include a real containing struct / union per shape (unset, null, set); a history layer runs every ordered pair of related (thorough: all) user types in a process forked from the unused parent, and a re-specification history generates every ordered pair of six revisions of a spec into the same package name in one process.',
                note='Values are instantiated through public constructors only; the catch-all tag is not a sendable value; one documented exception (nullable struct member without set fields).', ref='6/C04'),
    'C05': dict(tech='exhaustive enumeration of (type shape, position, boundary value) with an independent reference encoder driven by stone.ir',
                text='For the same space as C04, the output of json_compat_obj_encode and json_encode equals (as parsed JSON) the reference encoding written clause by clause from docs/json_serializer.rst and driven by the stone.ir description, never by the generated reflection tables. Also for timezone-aware UTC timestamps, instances of extending structs at parent-typed positions, and under the history layer of C04.',
                note='Key order is not compared.', ref='6/C05'),
    'C06': dict(tech='BFS over JSON documents per type shape (reference encodings, every single structural mutation, all small documents) against a three-valued reference reading',
                text='Every document of the explored set is decoded in strict and lenient mode: the outcome is a value or ValidationError (any other exception is a violation), must-accept documents decode to the reference value, must-reject documents are refused, and a value returned for an unspecified document is still valid for the type. String leaves are additionally pushed to near-format variants; the history layer of C04 applies (documents of A, then of B, in a pristine forked process).',
                note='Reference reading in mc/rtdoc.py from docs/json_serializer.rst; unspecified zones listed in the evidence assumptions.', ref='6/C06'),
    'C08': dict(tech='exhaustive enumeration of probes (bound-1, bound, bound+1, every wrong Python type, related/unrelated classes) for every parameterised primitive and every universe shape through three doors',
                text='accept <=> valid by the reference predicate derived from stone.ir, refusal is always ValidationError, accepted values read back equal up to the documented normalisations. A wire-text door feeds every Timestamp type strings in and near its declared format; every typed member (own and inherited) of every union of the universe is constructed from every probe of its type; the history layer of C04 applies.',
                note='bool offered to numeric types is unspecified; for user types the class relation is judged.', ref='6/C08'),
    'C07': dict(tech='BFS over spec histories (compatible edits at every site) with old and new generated packages loaded side by side; every ancestor pair compared against a reference reading',
                text='Every history of compatible edits up to the length bound from a base spec in which every edit site is reachable through every nesting position; for every version B and every ancestor A: every varied boundary value of every common type, both directions, strict and lenient, compared with the reference reading of the message by the receiving version; new fields read as their defaults. The base spec has an open union extending a closed one, a subtype tree behind list / map / alias / nullable-tag positions and a struct without fields.',
                note='The A-view is the lenient branch of the reference document reading (mc/rtdoc.py); A->B through a Void tag retyped to a non-nullable type is not judged.', ref='6/C07'),
    'C10': dict(tech='exhaustive product of (parameterised primitive, boundary literal) defaults and BFS-explored example models, executed on the generated classes',
                text='Every accepted default reads back as declared and is accepted on assignment; invalid literals that the compiler accepts must be accepted by the runtime too; every computed example of every explored model and of the rich example specs decodes strictly and re-encodes to the same document. A literal x type matrix offers every literal kind, valid or not, as example value at struct-field and union-member position: whatever the compiler accepts must decode strictly and re-encode to itself; examples are read in compact form first (reading must not change them).',
                note='Examples are decoded on behalf of a caller holding every declared permission; the catch-all example is excluded.', ref='6/C10'),
    'C13': dict(tech='complete bounded product of annotation placements x permission subsets x redaction on/off x encoders, packed into generated specs and executed on the serializers',
                text='Omission patterns over inheritance chains (depth 3 quick / 4 thorough) and union chains, omitted fields behind containers, union members and subtype trees, for every subset of the caller classes: visible iff permitted, strict decode refuses iff not permitted; every redactor kind at every eligible placement: no clear sentinel in the output with redaction on, exact mask at scalar positions, untouched with redaction off. Redacted aliases of nullable types and unannotated aliases of redacted aliases (one and two links) are placements too.',
                note='Visibility/redaction model from lang_ref.rst; exact masks judged at scalar and one-level positions only.', ref='6/C13'),
    'C09': dict(tech='BFS-explored codegen universe (family pairs/triples + cross-namespace alias product) x every namespace as first import; generated modules imported and reflected against the model',
                text='For every explored model python_types is generated and, for every namespace as first import, imported (fresh package in-process; fresh interpreter for multi-namespace models up to the stated depth) and reflected: classes, field attributes (unset read, validator, delete), constructors, union helpers and ready void instances, inheritance, validators with their parameters, route objects, attrs and ROUTES.',
                note='Models use identifiers already in the case style of the generated names; Python reserved words are excluded by the property.', ref='6/C09'),
    'C12': dict(tech='complete enumeration of configurations: specs x backends x covering hash-seed set x histories x option sets x output directories, each run in its own interpreter',
                text='The covering seed set is computed so that every same-kind identifier pair is seen in both set-iteration orders and every caller triple in all six; every configuration output must be byte-identical to the reference configuration. Histories: fresh, after an unrelated spec, after the same spec under other namespace names, after a sibling spec with the same names but other imports / owners / targets, after other backend options, isolated backends, two output directories.',
                note='Object addresses are not controlled (perturbed by the history dimension).', ref='6/C12'),
    'C14': dict(tech='complete bounded product of route shapes packed into generated specs; generated client methods called against a recording request()',
                text='Every sequence of field kinds up to the length bound, flat and split over inheritance, plus union/Void arguments, over versions, deprecation, styles, result kinds and namespace layouts: signature order and defaults, exactly one request with the right route object, namespace, argument, body; warning iff deprecated; return value. Isolated scenarios (one situation per spec, generated and imported in a pristine forked process): version x deprecation x argument kind x style, namespace chains, every ordered pair of literal defaults.',
                note='Expected arguments are built by attribute assignment on the generated classes.', ref='6/C14'),
    'C15': dict(tech='BFS-explored codegen universe; parsed stub (ast) compared with the introspected runtime module and an independent Stone->PEP 484 mapping',
                text='For every explored model and namespace: classes, attributes, helpers, validators, class aliases, routes, bases, constructor parameters agree between stub and runtime module; annotations equal the reference mapping; every annotation name resolves. Name-style models put Python keywords, names used by the generated code and mixed-case names at field, void-tag and typed-tag position; the import-reason family covers every subset of reasons to import a namespace.',
                note='ROUTES, dunder and private attributes are outside the comparison.', ref='6/C15'),
    'C16': dict(tech='BFS-explored codegen universe x {js_types, js_client, tsd_types, tsd_client}; output executed / scanned by purpose-written lexers and declaration scanners',
                text='For every explored model the four JavaScript / TypeScript backends complete; js_types output is loaded by node and its typedef inventory compared with the model; the .d.ts output is lexed, its declarations scanned and compared with the model (every namespace, struct, union, field, tag and route exactly once, types by an independent Stone->TS mapping, no undeclared name). tsd_client --import-namespaces output is checked for namespace-qualified names whose namespace is not imported or that the spec does not declare.',
                note='No TypeScript compiler is installed: well-formedness is decided by the harness\'s own lexer and declaration scanner; three genuine crashes are recorded as known findings.', ref='6/C16'),
    'C17': dict(tech='BFS-explored codegen universe + complete (type shape x position) product x six Swift / Objective-C backend configurations; output scanned by purpose-written lexers and declaration scanners',
                text='For every explored model and every (shape, position) spec the six configurations complete; every generated file is lexically well formed (comments, strings with interpolation, balanced brackets); every namespace, type, serializer, field, tag and route is declared exactly once under the backend naming scheme; every user-type name used is declared (per file for Objective-C: @class / @interface / #import). The shape product is complete: every leaf type under every wrapper combination up to nesting 2 (quick) / 3 (thorough) at field, tag and the nine route positions, plus foreign union / subtype-tree route arguments.',
                note='No Swift / Objective-C compiler is installed; five crash classes on type shapes the backends do not handle are recorded as known findings.', ref='6/C17'),
    'C18': dict(tech='exhaustive enumeration of target paths, emit scripts (BFS by script length) and manifest runs, executed on the real Backend/Compiler classes and stone.cli.main over a scratch file system',
                text='Every target path up to the segment bound (.., absolute, symlinked, nested) is either written inside the output folder or refused; every emit script up to the length bound yields exactly the bytes an independent pretty-printer predicts; --output-manifest lists exactly the files a real run creates for every backend x rich spec. Manifest runs are repeated into an output folder that does not exist yet; the command line\'s manifest options are run as a product of backends x output names (dot files, dot folders) x expected-manifest variants; generate_multiline_list is run over its whole argument product.',
                note='File-system state is observed by walking the scratch root after every run.', ref='6/C18'),
    'C19': dict(tech='exhaustive enumeration of command lines (filter expression trees by depth in four renderings, all single-token edits, all -w/-b namespace subsets, all -a attribute subsets) executed on stone.cli.main with a recording backend and on the filter seam',
                text='Every expression tree within the depth bounds is evaluated on every route of a spec whose routes realise the full product of attribute values (all truth assignments of the atoms) and compared with a reference evaluator; every single-token edit of the base expressions is accepted or refused as a reference recogniser says; every namespace and attribute subset, :all and unknown names give exactly the selected view, with consistent by-name tables.',
                note='Integer-vs-float and boolean-vs-0/1 literal comparisons are not judged.', ref='6/C19'),
    'C20': dict(tech='exhaustive enumeration of (spec, whitelist): gadget specs for every dependency edge kind alone and in pairs + BFS-explored models x every subset of route versions x data-type candidates; executed on specs_to_ir(route_whitelist_filter) and python_types import',
                text='For every (spec, whitelist) the retained data types and routes lie between the must-retain closure L and the may-retain closure U computed on the model; by-name tables agree; nothing retained refers to a removed type; python_types of the filtered API imports with every namespace first and exposes the retained items. Mirror gadgets define the same names with the same doc texts in two namespaces (and a third that uses both).',
                note='Namespace-doc references and docs of doc-pulled routes belong to U only; unreachable aliases with retained targets are not judged.', ref='6/C20'),
}

NOT_YET = {}

def main():
    props = [json.loads(l) for l in open(os.path.join(HERE, 'properties.jsonl'))]
    checks = []
    na = []
    for p in props:
        pid = p['id']
        c = CHECKS.get(pid)
        if c is None:
            na.append({'property_id': pid, 'reason': NOT_YET.get(pid, 'check not built yet in this session (work in progress, see DESIGN.md section 12 for the order of construction)')})
            continue
        checks.append({
            'property_id': pid,
            'quick_cmd': './check %s --tier quick' % pid,
            'thorough_cmd': './check %s --tier thorough' % pid,
            'evidence_file': '/verif/evidence/%s.json' % pid,
            'replay_cmd_template': './check %s --replay {path}' % pid,
            'engine': 'mc-explore',
            'level_claimed': {'category': 'model_checking', 'text': c['text'], 'design_ref': 'DESIGN.md ' + c['ref']},
            'level_note': c['note'],
            'technique': c['tech'],
        })
    hooks_commits = []
    man = {
        'version': 1,
        'setup_cmd': './setup.sh',
        'hooks': {'guard': 'STONE_VERIF', 'enable': 'no hooks: every observation point (specs_to_ir, Api, Compiler.build, generated files, runtime functions, stone.cli.main) is public; checks import stone from /repo\'s working tree',
                  'baseline_off_cmd': 'cd /repo && /venv/bin/python -m pytest -ra -q -p no:cacheprovider --timeout=900 --continue-on-collection-errors',
                  'source_commits': hooks_commits, 'add_only': True},
        'engines': [{'name': 'mc-explore', 'path': '/verif/mc/explore.py', 'serves_properties': [c['property_id'] for c in checks],
                     'kind_free_text': 'explicit-state BFS over description states (spec models, values, JSON documents, argv, emit scripts) with canonical dedup and a deviation layer; executes the real stone code in every state; forked worker pool'}],
        'checks': checks,
        'notes': 'All checks: ./check <ID> --tier quick|thorough; exit 0 = property held on everything explored (known findings printed as KNOWN-FINDING lines), exit 1 = VIOLATION lines, exit 2 = internal harness error. known_findings.json lists recorded and fixed genuine defects.',
        'not_applicable': na,
    }
    with open(os.path.join(HERE, 'MANIFEST.json'), 'w') as f:
        json.dump(man, f, indent=1)
    # validate
    try:
        import jsonschema
        jsonschema.validate(man, json.load(open('/root/.vp/MANIFEST.schema.json')))
        print('MANIFEST.json valid; %d checks, %d not claimed' % (len(checks), len(na)))
    except ImportError:
        print('written (jsonschema not available in this interpreter)')

if __name__ == '__main__':
    main()
