#!/venv/bin/python
"""Writes the table of DESIGN.md section 13.4 from the report of tools/regress_seeded.py and the seeds' meta.json."""
import json, os, re, sys
HERE = os.path.dirname(os.path.dirname(os.path.abspath(__file__)))
# several report files (one per regression lane) may be given; a later entry for the same seed replaces an earlier one
rep_by_id = {}
for path in (sys.argv[1:] or ['/tmp/wt/seeded-report.json']):
    for row in json.load(open(path)):
        rep_by_id[row[0]] = row


def _key(sid):
    p, k = sid.split('-')
    return (p, int(k))


# retired seeds (neutralised by a later fix commit: their demonstration passes with the patch applied) get a row of their own
for sid in os.listdir(os.path.join(HERE, 'seeded')):
    m = json.load(open(os.path.join(HERE, 'seeded', sid, 'meta.json')))
    if m.get('retired'):
        rep_by_id[sid] = [sid, 'retired', 0, []]
rep = [rep_by_id[k] for k in sorted(rep_by_id, key=_key)]
rows = ['| seed | change (file: what) | caught by (quick tier) | first identities reported |', '|---|---|---|---|']
for sid, code, wall, idents in rep:
    m = json.load(open(os.path.join(HERE, 'seeded', sid, 'meta.json')))
    summ = re.sub(r'\s+', ' ', m['summary'])
    summ = summ[:230].rsplit(' ', 1)[0] + ' …' if len(summ) > 230 else summ
    summ = summ.replace('|', '\\|')
    prop = sid.split('-')[0]
    rows.append('| %s | %s | %s | %s |' % (sid, summ, ('%s (%.0f s)' % (prop, wall)) if code == 1 else 'retired: no longer breaks the property on the repaired tree' if code == 'retired' else '**not caught** (exit %s)' % code,
                                         ', '.join('`%s`' % i.replace('|', '\\|')[:90] for i in idents[:2])))
p = os.path.join(HERE, 'DESIGN.md')
s = open(p).read()
a, b = s.index('<!-- SEEDED-TABLE-BEGIN -->'), s.index('<!-- SEEDED-TABLE-END -->')
# rows of an earlier regression are kept for seeds that the given reports do not cover
kept = {}
for line in s[a:b].split('\n'):
    m = re.match(r'\| (C\d\d-\d+) \|', line)
    if m and m.group(1) not in rep_by_id:
        kept[m.group(1)] = line
body = {r.split(' | ')[0][2:]: r for r in rows[2:]}
body.update(kept)
rows = rows[:2] + [body[k] for k in sorted(body, key=_key)]
table = '\n'.join(rows) + '\n'
s = s[:a] + '<!-- SEEDED-TABLE-BEGIN -->\n' + table + s[b:]
open(p, 'w').write(s)
print('%d rows kept from the earlier table; ' % len(kept), end='')
print('%d rows, %d caught; not caught: %s' % (len(rep), sum(1 for r in rep if r[1] == 1), [r[0] for r in rep if r[1] not in (1, 'retired')]))
