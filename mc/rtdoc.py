"""Reference reading of JSON documents (C06, C07): DESIGN appendix C, written from docs/json_serializer.rst.

read(api, t, d, strict) returns ('ok', abstract value) | REJECT | UNSPEC.
"""
import base64
import binascii
import datetime
import math
import re

from stone.ir import data_types as dt

from . import rt
from .rt import SV, UV

REJECT = ('reject',)
UNSPEC = ('unspec',)

B64_RE = re.compile(r'^(?:[A-Za-z0-9+/]{4})*(?:[A-Za-z0-9+/]{2}==|[A-Za-z0-9+/]{3}=)?$')


def ok(v):
    return ('ok', v)


def read(api, t, d, strict):
    if isinstance(t, dt.Alias):
        return read(api, t.data_type, d, strict)
    if isinstance(t, dt.Nullable):
        if d is None:
            return ok(None)
        return read(api, t.data_type, d, strict)
    if isinstance(t, dt.Void):
        if d is None:
            return ok(None)
        return REJECT if strict else ok(None)
    if isinstance(t, dt.Boolean):
        return ok(d) if isinstance(d, bool) else REJECT
    if isinstance(t, (dt.Int32, dt.Int64, dt.UInt32, dt.UInt64)):
        if isinstance(d, bool):
            return UNSPEC
        if isinstance(d, int):
            lo, hi = rt.int_bounds(t)
            return ok(d) if lo <= d <= hi else REJECT
        if isinstance(d, float) and not math.isnan(d) and not math.isinf(d) and d == int(d):
            return UNSPEC
        return REJECT
    if isinstance(t, (dt.Float32, dt.Float64)):
        if isinstance(d, bool):
            return UNSPEC
        if isinstance(d, (int, float)):
            try:
                f = float(d)
            except OverflowError:
                return REJECT
            if math.isnan(f) or math.isinf(f):
                return REJECT
            if isinstance(t, dt.Float32) and rt.F32 < abs(f) <= 3.4028235e38:
                return UNSPEC
            lo, hi = rt.float_bounds(t)
            if (lo is not None and f < lo) or (hi is not None and f > hi):
                return REJECT
            return ok(f)
        return REJECT
    if isinstance(t, dt.String):
        if not isinstance(d, str):
            return REJECT
        if t.min_length is not None and len(d) < t.min_length:
            return REJECT
        if t.max_length is not None and len(d) > t.max_length:
            return REJECT
        if t.pattern is not None and re.fullmatch(t.pattern, d) is None:
            return REJECT
        return ok(d)
    if isinstance(t, dt.Bytes):
        if not isinstance(d, str):
            return REJECT
        if B64_RE.match(d):
            return ok(base64.b64decode(d))
        return UNSPEC
    if isinstance(t, dt.Timestamp):
        if not isinstance(d, str):
            return REJECT
        try:
            return ok(datetime.datetime.strptime(d, t.format))
        except ValueError:
            return REJECT
    if isinstance(t, dt.List):
        if not isinstance(d, list):
            return REJECT
        if t.min_items is not None and len(d) < t.min_items:
            return REJECT
        if t.max_items is not None and len(d) > t.max_items:
            return REJECT
        return _collect([read(api, t.data_type, x, strict) for x in d], list)
    if isinstance(t, dt.Map):
        if not isinstance(d, dict):
            return REJECT
        keys = [read(api, t.key_data_type, k, strict) for k in d]
        vals = [read(api, t.value_data_type, x, strict) for x in d.values()]
        r = _collect(keys + vals, list)
        if r[0] != 'ok':
            return r
        n = len(keys)
        return ok(dict(zip(r[1][:n], r[1][n:])))
    if isinstance(t, dt.Struct):
        if t.has_enumerated_subtypes():
            return read_tree(api, t, d, strict)
        return read_struct(api, t, d, strict)
    if isinstance(t, dt.Union):
        return read_union(api, t, d, strict)
    raise TypeError(t)


def _collect(results, ctor):
    res = []
    unspec = False
    for r in results:
        if r is REJECT:
            return REJECT
        if r is UNSPEC:
            unspec = True
        else:
            res.append(r[1])
    return UNSPEC if unspec else ok(ctor(res))


def read_struct(api, s, d, strict, exempt=('.tag',), as_type=None):
    fields = rt.struct_fields(s)
    if d is None:
        if all(rt.is_optional(f) for f in fields):
            return UNSPEC
        return REJECT
    if not isinstance(d, dict):
        return REJECT
    names = {f.name for f in fields}
    unspec = False
    for k in d:
        if k not in names:
            if strict:
                if isinstance(k, str) and k.startswith('.tag'):
                    unspec = unspec or (k not in exempt)
                else:
                    return REJECT
    out = []
    for f in fields:
        ft, nullable = rt.strip(f.data_type)
        if f.name in d:
            raw = d[f.name]
            if raw is None:
                if nullable:
                    continue                       # explicit null for a nullable field == unset
                if isinstance(ft, dt.Struct) and not ft.has_enumerated_subtypes() and all(rt.is_optional(g) for g in rt.struct_fields(ft)):
                    unspec = True                  # null for a struct-typed field without required fields
                    continue
                return REJECT
            r = read(api, f.data_type, raw, strict)
            if r is REJECT:
                return REJECT
            if r is UNSPEC:
                unspec = True
                continue
            out.append((f.name, r[1]))
        elif not rt.is_optional(f):
            # a required field of a struct type without required fields may be defaulted by the decoder: unspecified
            if isinstance(ft, dt.Struct) and not ft.has_enumerated_subtypes() and all(rt.is_optional(g) for g in rt.struct_fields(ft)):
                unspec = True
                continue
            return REJECT
    if unspec:
        return UNSPEC
    return ok(SV(s.namespace.name, s.name, tuple(out)))


def read_tree(api, root, d, strict):
    if not isinstance(d, dict):
        return REJECT
    tag = d.get('.tag')
    if not isinstance(tag, str):
        return REJECT
    for f in root.get_enumerated_subtypes():
        if f.name == tag:
            leaf = f.data_type
            if leaf.has_enumerated_subtypes():
                return UNSPEC
            return read_struct(api, leaf, d, strict)
    if strict:
        return REJECT
    if not root.is_catch_all():
        return REJECT
    return read_struct(api, root, d, strict)


def read_union(api, u, d, strict):
    tags = rt.union_tags(u)
    by = {f.name: f for f in tags}
    catch_all = [f.name for f in tags if f.catch_all]
    is_open = bool(catch_all)

    def unknown():
        if strict or not is_open:
            return REJECT
        return ok(UV(u.namespace.name, u.name, catch_all[0], None))
    if isinstance(d, str):
        f = by.get(d)
        if f is None:
            return unknown()
        if f.catch_all:
            return REJECT
        ft, nullable = rt.strip(f.data_type)
        if isinstance(ft, dt.Void) or nullable:
            return ok(UV(u.namespace.name, u.name, d, None))
        return REJECT
    if not isinstance(d, dict):
        return REJECT
    tag = d.get('.tag')
    if not isinstance(tag, str):
        return REJECT
    f = by.get(tag)
    if f is None:
        return unknown()
    if f.catch_all:
        return REJECT
    ft, nullable = rt.strip(f.data_type)
    others = [k for k in d if k not in ('.tag', tag)]
    if isinstance(ft, dt.Void):
        if strict:
            if others:
                return REJECT
            if tag in d and d[tag] is not None:
                return REJECT
        else:
            if others or (tag in d and d[tag] is not None):
                pass      # ignored
        return ok(UV(u.namespace.name, u.name, tag, None))
    if isinstance(ft, dt.Struct) and not ft.has_enumerated_subtypes():
        if nullable and len(d) == 1:
            return ok(UV(u.namespace.name, u.name, tag, None))
        r = read_struct(api, ft, d, strict)
        if r is REJECT or r is UNSPEC:
            return r
        if nullable and not r[1].fields:
            # keys are present but none of them is a known field (possible in lenient mode only): whether this is the
            # null member or a struct value whose fields this reader does not know is not settled by the document
            return UNSPEC
        return ok(UV(u.namespace.name, u.name, tag, r[1]))
    # member nested under the tag key
    if tag not in d:
        if others:
            return REJECT if strict else UNSPEC
        return ok(UV(u.namespace.name, u.name, tag, None)) if nullable else REJECT
    if others:
        return REJECT if strict else UNSPEC
    raw = d[tag]
    if raw is None:
        return UNSPEC if nullable else REJECT
    r = read(api, f.data_type, raw, strict)
    if r is REJECT or r is UNSPEC:
        return r
    return ok(UV(u.namespace.name, u.name, tag, r[1]))


# ---------------------------------------------------------------------------
# validity of an abstract value (for values returned on unspecified documents)


def abs_valid(api, t, v):
    if isinstance(t, dt.Alias):
        return abs_valid(api, t.data_type, v)
    if isinstance(t, dt.Nullable):
        return v is None or abs_valid(api, t.data_type, v)
    if isinstance(t, dt.Void):
        return v is None
    if isinstance(t, dt.Boolean):
        return isinstance(v, bool)
    if isinstance(t, (dt.Int32, dt.Int64, dt.UInt32, dt.UInt64)):
        if not isinstance(v, int):
            return False
        lo, hi = rt.int_bounds(t)
        return lo <= v <= hi
    if isinstance(t, (dt.Float32, dt.Float64)):
        if not isinstance(v, (int, float)) or isinstance(v, bool):
            return isinstance(v, bool)       # bool accepted on purpose
        f = float(v)
        if math.isnan(f) or math.isinf(f):
            return False
        lo, hi = rt.float_bounds(t)
        if isinstance(t, dt.Float32) and rt.F32 < abs(f) <= 3.4028235e38:
            return True
        return (lo is None or f >= lo) and (hi is None or f <= hi)
    if isinstance(t, dt.String):
        return isinstance(v, str) and (t.min_length is None or len(v) >= t.min_length) and \
            (t.max_length is None or len(v) <= t.max_length) and (t.pattern is None or re.fullmatch(t.pattern, v) is not None)
    if isinstance(t, dt.Bytes):
        return isinstance(v, bytes)
    if isinstance(t, dt.Timestamp):
        return isinstance(v, datetime.datetime)
    if isinstance(t, dt.List):
        return isinstance(v, list) and (t.min_items is None or len(v) >= t.min_items) and \
            (t.max_items is None or len(v) <= t.max_items) and all(abs_valid(api, t.data_type, x) for x in v)
    if isinstance(t, dt.Map):
        return isinstance(v, dict) and all(abs_valid(api, t.key_data_type, k) for k in v) and \
            all(abs_valid(api, t.value_data_type, x) for x in v.values())
    if isinstance(t, dt.Struct):
        if not isinstance(v, SV):
            return False
        actual = rt.find_struct(api, v.ns, v.name)
        # right class: the struct itself or a descendant
        cur, okc = actual, False
        while cur is not None:
            if cur is t:
                okc = True
            cur = cur.parent_type
        if not okc:
            return False
        given = dict(v.fields)
        for f in rt.struct_fields(actual):
            if f.name in given:
                if not abs_valid(api, f.data_type, given[f.name]):
                    return False
            elif not rt.is_optional(f):
                return False
        return True
    if isinstance(t, dt.Union):
        if not isinstance(v, UV):
            return False
        f = [x for x in rt.union_tags(t) if x.name == v.tag]
        if not f:
            return False
        ft, nullable = rt.strip(f[0].data_type)
        if isinstance(ft, dt.Void):
            return v.value is None
        if v.value is None:
            return nullable
        return abs_valid(api, f[0].data_type, v.value)
    raise TypeError(t)


# ---------------------------------------------------------------------------
# document generation

KINDS = [None, True, 0, -1, 1.5, 's', '', [], [0], {}, {'zz': 0}]


def paths(doc, prefix=()):
    yield prefix
    if isinstance(doc, dict):
        for k, v in doc.items():
            yield from paths(v, prefix + (k,))
    elif isinstance(doc, list):
        for i, v in enumerate(doc):
            yield from paths(v, prefix + (i,))


def get_at(doc, path):
    for p in path:
        doc = doc[p]
    return doc


def set_at(doc, path, value):
    if not path:
        return value
    if isinstance(doc, dict):
        new = dict(doc)
        new[path[0]] = set_at(doc[path[0]], path[1:], value)
        return new
    new = list(doc)
    new[path[0]] = set_at(doc[path[0]], path[1:], value)
    return new


def del_at(doc, path):
    if len(path) == 1:
        if isinstance(doc, dict):
            return {k: v for k, v in doc.items() if k != path[0]}
        return doc[:path[0]] + doc[path[0] + 1:]
    if isinstance(doc, dict):
        new = dict(doc)
        new[path[0]] = del_at(doc[path[0]], path[1:])
        return new
    new = list(doc)
    new[path[0]] = del_at(doc[path[0]], path[1:])
    return new


def same_json(a, b):
    if type(a) is not type(b):
        return False
    if isinstance(a, dict):
        return a.keys() == b.keys() and all(same_json(a[k], b[k]) for k in a)
    if isinstance(a, list):
        return len(a) == len(b) and all(same_json(x, y) for x, y in zip(a, b))
    return a == b


def mutations(doc, tag_names=(), key_names=()):
    """Every single structural mutation of a JSON document: (label, new_doc)."""
    for p in paths(doc):
        cur = get_at(doc, p)
        for k in KINDS:
            if not same_json(cur, k):
                yield 'replace%s<-%r' % (list(p), k), set_at(doc, p, k)
        if isinstance(cur, bool):
            pass
        elif isinstance(cur, int):
            for x in (cur + 1, cur - 1, float(cur), cur + 0.5, str(cur)):
                yield 'number%s<-%r' % (list(p), x), set_at(doc, p, x)
        elif isinstance(cur, float):
            for x in (cur + 1.0, cur - 1.0, math.nextafter(cur, math.inf), math.nextafter(cur, -math.inf)):
                yield 'number%s<-%r' % (list(p), x), set_at(doc, p, x)
        elif isinstance(cur, str):
            near = [cur + 'z', cur[:-1], cur + '\n', ' ' + cur, cur.upper(), 'é' + cur, cur.lower(), cur + cur[-1:], cur[:-1] + '.5' + cur[-1:], cur.replace('T', ' '),
                    cur.replace('-', '').replace(':', ''), cur[:10] + cur[-1:], cur[:16] + cur[-1:], cur[:-1] + '+00:00' + cur[-1:], cur[:-1] + '+05:00' + cur[-1:],
                    cur[:-1], cur.rstrip('=') , cur + '=', cur[1:]]
            seen_near = set()
            for x in near:
                if x != cur and x not in seen_near:
                    seen_near.add(x)
                    yield 'string%s<-%r' % (list(p), x), set_at(doc, p, x)
            if tag_names and p and p[-1] == '.tag':
                for tname in tag_names:
                    if tname != cur:
                        yield 'retag%s<-%r' % (list(p), tname), set_at(doc, p, tname)
                yield 'retag%s<-unknown' % (list(p),), set_at(doc, p, 'zzunknown')
        elif isinstance(cur, list):
            yield 'append%s' % (list(p),), set_at(doc, p, cur + cur[:1] if cur else [None])
            if cur:
                yield 'pop%s' % (list(p),), set_at(doc, p, cur[:-1])
                yield 'triple%s' % (list(p),), set_at(doc, p, cur + cur + cur)
        elif isinstance(cur, dict):
            yield 'addkey%s zz' % (list(p),), set_at(doc, p, dict(cur, zz=0))
            if '.tag' not in cur:
                yield 'addkey%s .tag' % (list(p),), set_at(doc, p, dict(cur, **{'.tag': 'zz'}))
            yield 'addkey%s .tagx' % (list(p),), set_at(doc, p, dict(cur, **{'.tagx': 1}))
            for k in list(cur):
                yield 'dropkey%s %s' % (list(p), k), set_at(doc, p, {a: b for a, b in cur.items() if a != k})
                yield 'renamekey%s %s' % (list(p), k), set_at(doc, p, {(a if a != k else a + '_x'): b for a, b in cur.items()})
            for k in key_names:
                if k not in cur:
                    yield 'addkey%s %s=null' % (list(p), k), set_at(doc, p, dict(cur, **{k: None}))
                    yield 'addkey%s %s=0' % (list(p), k), set_at(doc, p, dict(cur, **{k: 0}))
    if isinstance(doc, str):
        pass


def small_documents(keys):
    """All JSON values of depth <= 2 over leaves {null, true, 0, 's'} and the given keys (objects with <= 2 keys, arrays <= 2)."""
    leaves = [None, True, 0, 's']
    level1 = list(leaves)
    for a in leaves:
        level1.append([a])
    level1.append([])
    level1.append({})
    for k in keys:
        for a in leaves:
            level1.append({k: a})
    out = list(level1)
    for x in level1:
        if isinstance(x, (list, dict)):
            out.append([x])
    for k in keys:
        for x in level1:
            if isinstance(x, (list, dict)):
                out.append({k: x})
    for k1 in keys:
        for k2 in keys:
            if k1 < k2:
                for a in leaves + [{}, []]:
                    for b in leaves:
                        out.append({k1: a, k2: b})
    return out
