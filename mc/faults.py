"""The rule-violation catalogue of C01 (the deviation layer of the construction machine).

Every fault takes a *valid* model and yields (rule, site_kind, site_label, specs) where `specs`
is a list of (path, text) that violates at least the named rule of docs/lang_ref.rst at the
named site.  Faults are applied at every applicable site of every explored state.
"""
from .model import (P, L, M, N, R, VOID, NODEF, TagLit, Field, Tag, Struct, Union, Alias, Route, Annotation, AnnType,
                    Patch, AnnRef, Example, mkfield, mktag, mkstruct, mkunion, mkroute, prim)
from . import model as mm
from . import render
from .render import RawType, RawDef
from .machine import visible_refs, INT_RANGES, void_tags

UNDEF = R(None, 'Zzundefined')


def _specs(model):
    return render.render(model)


def _text_edit(model, ns_name, fi, fn):
    """Render, then apply fn(lines)->lines|None to one file."""
    out = []
    hit = False
    for ns in model.namespaces:
        for i, f in enumerate(ns.files):
            text = render.render_file(ns.name, f)
            if ns.name == ns_name and i == fi:
                lines = text.split('\n')
                new = fn(lines)
                if new is None:
                    return None
                text = '\n'.join(new)
                hit = True
            out.append((render.file_path(ns.name, i), text))
    return out if hit else None


def _sites(model, kinds):
    for ns_name, fi, di, d in mm.all_defs(model):
        if isinstance(d, kinds):
            yield ns_name, fi, di, d


def _replace_type_sites(model):
    """Yield (site_kind, label, fn(new_type)->model) for every type-reference site."""
    for ns_name, fi, di, d in mm.all_defs(model):
        if isinstance(d, Struct):
            for i, f in enumerate(d.fields):
                for kind, lab, mk in _type_positions(f.type):
                    yield ('field' + kind, '%s.%s.%s%s' % (ns_name, d.name, f.name, lab),
                           lambda nt, mk=mk, i=i, f=f, d=d, a=(ns_name, fi, di): mm.replace_def(
                               model, a[0], a[1], a[2], d._replace(fields=d.fields[:i] + (f._replace(type=mk(nt)),) + d.fields[i + 1:])))
            if d.parent is not None:
                yield ('parent', '%s.%s' % (ns_name, d.name),
                       lambda nt, d=d, a=(ns_name, fi, di): mm.replace_def(model, a[0], a[1], a[2], d._replace(parent=nt)))
            if d.subtypes is not None:
                closed, subs = d.subtypes
                for i, (tag, ref) in enumerate(subs):
                    yield ('subtype', '%s.%s.%s' % (ns_name, d.name, tag),
                           lambda nt, d=d, i=i, tag=tag, a=(ns_name, fi, di), closed=closed, subs=subs: mm.replace_def(
                               model, a[0], a[1], a[2], d._replace(subtypes=(closed, subs[:i] + ((tag, nt),) + subs[i + 1:]))))
        elif isinstance(d, Union):
            for i, t in enumerate(d.tags):
                if t.type is None:
                    continue
                for kind, lab, mk in _type_positions(t.type):
                    yield ('tag' + kind, '%s.%s.%s%s' % (ns_name, d.name, t.name, lab),
                           lambda nt, mk=mk, i=i, t=t, d=d, a=(ns_name, fi, di): mm.replace_def(
                               model, a[0], a[1], a[2], d._replace(tags=d.tags[:i] + (t._replace(type=mk(nt)),) + d.tags[i + 1:])))
            if d.parent is not None:
                yield ('uparent', '%s.%s' % (ns_name, d.name),
                       lambda nt, d=d, a=(ns_name, fi, di): mm.replace_def(model, a[0], a[1], a[2], d._replace(parent=nt)))
        elif isinstance(d, Alias):
            for kind, lab, mk in _type_positions(d.type):
                yield ('alias' + kind, '%s.%s%s' % (ns_name, d.name, lab),
                       lambda nt, mk=mk, d=d, a=(ns_name, fi, di): mm.replace_def(model, a[0], a[1], a[2], d._replace(type=mk(nt))))
        elif isinstance(d, Route):
            for slot in ('arg', 'result', 'error'):
                for kind, lab, mk in _type_positions(getattr(d, slot)):
                    yield ('route-' + slot + kind, '%s.%s:%d%s' % (ns_name, d.name, d.version, lab),
                           lambda nt, mk=mk, d=d, slot=slot, a=(ns_name, fi, di): mm.replace_def(
                               model, a[0], a[1], a[2], d._replace(**{slot: mk(nt)})))


def _type_positions(t):
    """All positions inside a type expression: (kind suffix, label, rebuild(new_subexpr))."""
    yield ('', '', lambda nt: nt)
    if isinstance(t, L):
        for k, lab, mk in _type_positions(t.item):
            yield ('/item' + k, '[]' + lab, lambda nt, mk=mk: L(mk(nt), t.min_items, t.max_items))
    elif isinstance(t, M):
        for k, lab, mk in _type_positions(t.value):
            yield ('/value' + k, '{}' + lab, lambda nt, mk=mk: M(mk(nt)))
    elif isinstance(t, N):
        for k, lab, mk in _type_positions(t.inner):
            yield ('/inner' + k, '?' + lab, lambda nt, mk=mk: N(mk(nt)))


BAD_PARAM_TYPES = [
    ('param-values-legal', 'Int32(min_value=-2147483649)'),
    ('param-values-legal', 'Int32(max_value=2147483648)'),
    ('param-values-legal', 'UInt32(min_value=-1)'),
    ('param-values-legal', 'UInt64(max_value=18446744073709551616)'),
    ('param-values-legal', 'Int64(min_value=1.5)'),
    ('param-values-legal', 'Int32(min_value="a")'),
    ('param-values-legal', 'Float64(min_value="a")'),
    ('param-values-legal', 'Float32(max_value=3.5e38)'),
    ('param-values-legal', 'Int32(min_value=1, max_value="a")'),
    ('param-values-legal', 'Int64(min_value="a", max_value=1)'),
    ('param-values-legal', 'Float64(min_value=0, max_value="a")'),
    ('param-values-legal', 'Float32(min_value=null, max_value=1)'),
    ('param-values-legal', 'String(min_length=1, max_length="a")'),
    ('param-values-legal', 'String(min_length=-1)'),
    ('param-values-legal', 'String(max_length=0)'),
    ('param-values-legal', 'String(min_length=2, max_length=1)'),
    ('param-values-legal', 'String(min_length="a")'),
    ('param-values-legal', 'String(pattern="(")'),
    ('param-values-legal', 'String(pattern=3)'),
    ('param-values-legal', 'Timestamp(3)'),
    ('param-values-legal', 'Map(Int32, String)'),
    ('param-values-legal', 'List(Int32, max_items=0)'),
    ('param-values-legal', 'List(Int32, min_items=-1)'),
    ('param-values-legal', 'List(Int32, min_items=2, max_items=1)'),
    ('param-values-legal', 'List(String, min_items="a")'),
    ('type-arg-is-type', 'List(3)'),
    ('type-arg-is-type', 'Map(String, 3)'),
    ('type-arg-is-type', 'List("x")'),
    ('positional-args-exact', 'List()'),
    ('positional-args-exact', 'List'),
    ('positional-args-exact', 'List(Int32, Int32)'),
    ('positional-args-exact', 'Timestamp'),
    ('positional-args-exact', 'Timestamp()'),
    ('positional-args-exact', 'Map(String)'),
    ('positional-args-exact', 'Int32(1)'),
    ('positional-args-exact', 'Boolean(true)'),
    ('kwargs-known', 'String(foo=1)'),
    ('kwargs-known', 'Int32(min_length=1)'),
    ('kwargs-known', 'Boolean(min_value=1)'),
    ('positional-not-by-keyword', 'List(data_type=Int32)'),
    ('positional-not-by-keyword', 'Timestamp(fmt="%Y")'),
    ('kwarg-once', 'String(min_length=1, min_length=2)'),
    ('void-not-nullable', 'Void?'),
    ('ref-defined', 'Zzundefined'),
    ('ref-defined', 'List(Zzundefined)'),
    ('ns-imported', 'zzns.Foo'),
]


def faults(model, flags=None, base=True, light=True):
    """Yield (rule, site_kind, label, specs).

    `flags`: machine feature flags of the profile(s) that reached the state; the family-specific parts of the
    catalogue are applied only in profiles that contain the family (every state is also reached, or has a
    sub-state reached, in the profiles of the other families).  `base`: apply the context-free part (reference
    resolution at every type site, names, layout); the caller restricts it to the shallower states."""
    full = flags is None
    flags = flags or ()

    def want(*fl):
        return full or any(f in flags for f in fl)
    for item in faults_base(model, light, want, base):
        yield item
    for item in faults_ext(model, want):
        yield item


def faults_base(model, light, want, base):
    # ---- resolution: every type site --------------------------------------------------------
    sites = list(_replace_type_sites(model))
    all_structs = [(n, d) for n, fi, di, d in mm.all_defs(model) if isinstance(d, Struct)]
    all_unions = [(n, d) for n, fi, di, d in mm.all_defs(model) if isinstance(d, Union)]
    all_aliases = [(n, d) for n, fi, di, d in mm.all_defs(model) if isinstance(d, Alias)]
    all_routes = [(n, d) for n, fi, di, d in mm.all_defs(model) if isinstance(d, Route)]
    if base:
        for kind, label, put in sites:
            yield ('ref-defined', kind, label, _specs(put(UNDEF)))
            if kind in ('parent', 'uparent', 'subtype'):
                continue
            if not light:
                for rule, text in BAD_PARAM_TYPES:
                    if rule == 'ref-defined':
                        continue
                    yield (rule, kind, label + '<-' + text, _specs(put(RawType(text))))
            # a route used as a type
            for n, r in all_routes:
                if label.startswith(n + '.'):
                    yield ('route-not-a-type', kind, label + '<-' + r.name, _specs(put(R(None, r.name))))
                    break
            # arguments on a user type / alias
            for n, d in (all_structs + all_aliases)[:1]:
                if label.startswith(n + '.'):
                    yield ('no-args-on-user-type', kind, label + '<-' + d.name, _specs(put(RawType(d.name + '(min_length=1)'))))
            # Void where a value type is required (directly, nullable, and through an alias: alias transparency)
            if kind.startswith(('field', 'tag')) and '/' not in kind:
                rule = 'field-not-void' if kind.startswith('field') else 'tag-not-explicit-void'
                yield (rule, kind, label + '<-Void', _specs(put(VOID)))
        # Void reached through an alias (needs an alias of Void in the right namespace)
        for n, a in all_aliases:
            ns2, u, nullable, _ = mm.strip(model, n, a.type)
            if isinstance(u, P) and u.kind == 'Void':
                for kind, label, put in sites:
                    if not label.startswith(n + '.') or label.startswith('%s.%s' % (n, a.name)):
                        continue
                    if kind in ('field', 'tag'):
                        rule = 'field-not-void' if kind == 'field' else 'tag-not-explicit-void'
                        yield (rule, kind + '@alias', label + '<-' + a.name, _specs(put(R(None, a.name))))
                        yield ('void-not-nullable', kind + '@alias', label + '<-' + a.name + '?', _specs(put(N(R(None, a.name)))))
            if nullable:
                for kind, label, put in sites:
                    if not label.startswith(n + '.') or label.startswith('%s.%s' % (n, a.name)) or kind in ('parent', 'uparent', 'subtype'):
                        continue
                    yield ('nullable-not-nullable', kind + '@alias', label + '<-' + a.name + '?', _specs(put(N(R(None, a.name)))))
        # nullable of nullable written directly is a syntax error (`T??`)
        for kind, label, put in sites[:3]:
            yield ('nullable-not-nullable', kind, label + '<-Int32??', _specs(put(RawType('Int32??'))))

    # ---- namespaces / imports ---------------------------------------------------------------
    if want('imports'):
        names = [ns.name for ns in model.namespaces]
        for ns in model.namespaces:
            for fi in range(len(ns.files)):
                yield ('import-exists', 'import', '%s/%d' % (ns.name, fi),
                       _specs(mm.update_file(model, ns.name, fi, lambda f: f._replace(imports=f.imports + ('zzunknown',)))))
                yield ('import-not-self', 'import', '%s/%d' % (ns.name, fi),
                       _specs(mm.update_file(model, ns.name, fi, lambda f: f._replace(imports=f.imports + (ns.name,)))))
            for other in names:
                if other != ns.name and ns.name in mm.imports_of(model, other) and other not in mm.imports_of(model, ns.name):
                    yield ('import-acyclic', 'import', '%s<->%s' % (ns.name, other),
                           _specs(mm.update_file(model, ns.name, 0, lambda f: f._replace(imports=f.imports + (other,)))))
        # reference into a namespace that exists but is not imported
        for ns in model.namespaces:
            imps = mm.imports_of(model, ns.name)
            for other in model.namespaces:
                if other.name == ns.name or other.name in imps:
                    continue
                tgt = [d for n, d in all_structs + all_unions + all_aliases if n == other.name]
                if not tgt:
                    continue
                for kind, label, put in sites:
                    if label.startswith(ns.name + '.') and kind not in ('subtype',):
                        yield ('ns-imported', kind, label + '<-%s.%s' % (other.name, tgt[0].name), _specs(put(R(other.name, tgt[0].name))))
                        break
        # the bare name of an imported namespace where a type is expected (lang_ref: a reference names a type or an alias)
        for ns in model.namespaces:
            imps = sorted(mm.imports_of(model, ns.name))
            if not imps:
                continue
            seen_kinds = set()
            for kind, label, put in sites:
                if label.startswith(ns.name + '.') and kind not in ('subtype',) and kind not in seen_kinds:
                    seen_kinds.add(kind)
                    yield ('namespace-not-a-type', kind, label + '<-' + imps[0], _specs(put(R(None, imps[0]))))
        # prefix that is not a namespace
        for n, d in (all_structs + all_unions)[:2]:
            for kind, label, put in sites:
                if label.startswith(n + '.') and kind not in ('subtype',):
                    yield ('prefix-is-namespace', kind, label + '<-%s.X' % d.name, _specs(put(R(d.name, 'X'))))
                    break

    # ---- names ------------------------------------------------------------------------------
    if base:
        for ns_name, fi, di, d in mm.all_defs(model):
            ns = mm.get_ns(model, ns_name)
            if isinstance(d, (Struct, Union, Alias)):
                for fj in range(len(ns.files)):
                    # duplicate symbol: same kind, and a different kind with the same name
                    dup = d if not isinstance(d, Alias) else d
                    if isinstance(d, Struct):
                        dup = mkstruct(d.name, doc='dup')
                    elif isinstance(d, Union):
                        dup = mkunion(d.name, doc='dup')
                    yield ('symbol-unique', type(d).__name__.lower(), '%s.%s@file%d' % (ns_name, d.name, fj),
                           _specs(mm.add_def(model, ns_name, fj, dup, sort=False)))
                    other = Alias(d.name, prim('Int32'), None, ()) if not isinstance(d, Alias) else mkstruct(d.name, doc='dup')
                    yield ('symbol-unique', type(d).__name__.lower() + '/otherkind', '%s.%s@file%d' % (ns_name, d.name, fj),
                           _specs(mm.add_def(model, ns_name, fj, other, sort=False)))
                # canonical-name clashes
                for variant in (d.name.lower(), d.name[0] + '_' + d.name[1:], d.name.upper()):
                    if variant == d.name:
                        continue
                    yield ('canonical-name-unique', type(d).__name__.lower(), '%s.%s~%s' % (ns_name, d.name, variant),
                           _specs(mm.add_def(model, ns_name, fi, mkstruct(variant, doc='clash'), sort=False)))
                # route with the (canonically) same name as a type
                yield ('canonical-name-unique', 'route-vs-type', '%s.%s' % (ns_name, d.name),
                       _specs(mm.add_def(model, ns_name, fi, mkroute(d.name.lower()), sort=False)))
            if isinstance(d, Route):
                yield ('route-version-unique', 'route', '%s.%s:%d' % (ns_name, d.name, d.version),
                       _specs(mm.add_def(model, ns_name, fi, mkroute(d.name, d.version), sort=False)))
                for fj in range(len(ns.files)):
                    if fj != fi:
                        yield ('route-version-unique', 'route@otherfile', '%s.%s:%d' % (ns_name, d.name, d.version),
                               _specs(mm.add_def(model, ns_name, fj, mkroute(d.name, d.version), sort=False)))
                yield ('version-positive', 'route', '%s.%s' % (ns_name, d.name),
                       _specs(mm.replace_def(model, ns_name, fi, di, d._replace(version=0))))
                yield ('version-positive', 'route', '%s.%s' % (ns_name, d.name),
                       _specs(mm.replace_def(model, ns_name, fi, di, d._replace(version=-1))))
                yield ('deprecated-by-exists', 'route', '%s.%s' % (ns_name, d.name),
                       _specs(mm.replace_def(model, ns_name, fi, di, d._replace(deprecated=('zzroute', 1)))))
                yield ('deprecated-by-exists', 'route/version', '%s.%s' % (ns_name, d.name),
                       _specs(mm.replace_def(model, ns_name, fi, di, d._replace(deprecated=(d.name, 9)))))
                for n2, t in (all_structs + all_unions + all_aliases):
                    if n2 == ns_name:
                        yield ('deprecated-by-is-route', 'route', '%s.%s<-%s' % (ns_name, d.name, t.name),
                               _specs(mm.replace_def(model, ns_name, fi, di, d._replace(deprecated=(t.name, 1)))))
                        break
        # type named like its namespace
        for ns in model.namespaces:
            nm = ns.name.capitalize()
            yield ('canonical-name-unique', 'type-vs-namespace', ns.name, _specs(mm.add_def(model, ns.name, 0, mkstruct(nm, doc='x'), sort=False)))

    # ---- fields and tags --------------------------------------------------------------------
    if base or want('inherit', 'uinherit'):
        for ns_name, fi, di, d in mm.all_defs(model):
            if isinstance(d, Struct):
                chain = mm.struct_chain(model, ns_name, d)
                for depth_, (cns, cs) in enumerate(chain):
                    for f in mm.own_members(model, cns, cs):
                        f2 = mkfield(f.name, prim('Boolean'))
                        rule = 'field-unique' if depth_ == 0 else 'field-not-in-ancestors'
                        yield (rule, 'struct@depth%d' % depth_, '%s.%s+%s' % (ns_name, d.name, f.name),
                               _specs(mm.replace_def(model, ns_name, fi, di, d._replace(fields=d.fields + (f2,)))))
                        break
                # struct with a Void field spelled as a bare name
                yield ('field-not-void', 'struct/bare', '%s.%s' % (ns_name, d.name),
                       _specs(mm.replace_def(model, ns_name, fi, di, d._replace(fields=d.fields + (mktag('zbare'),)))))
            if isinstance(d, Union):
                chain = mm.struct_chain(model, ns_name, d)
                for depth_, (cns, cu) in enumerate(chain):
                    for t in mm.own_members(model, cns, cu):
                        rule = 'field-unique' if depth_ == 0 else 'tag-not-in-ancestors'
                        yield (rule, 'union@depth%d' % depth_, '%s.%s+%s' % (ns_name, d.name, t.name),
                               _specs(mm.replace_def(model, ns_name, fi, di, d._replace(tags=d.tags + (mktag(t.name),)))))
                        break
                yield ('no-tag-named-other', 'union', '%s.%s' % (ns_name, d.name),
                       _specs(mm.replace_def(model, ns_name, fi, di, d._replace(tags=d.tags + (mktag('other'),)))))

    # ---- alias cycles -----------------------------------------------------------------------
    # an alias that reaches itself through aliases, nullables, list items or map values has no definition to start from
    if want('aliases', 'wrappers'):
        wrappers = [('direct', lambda r: r), ('nullable', lambda r: N(r)), ('list', lambda r: L(r, None, None)), ('map', lambda r: M(r)),
                    ('list-nullable', lambda r: L(N(r), None, None)), ('map-list', lambda r: M(L(r, None, None)))]
        for ns_name, fi, di, d in mm.all_defs(model):
            if not isinstance(d, Alias) or d.anns:
                continue
            for wname, w in wrappers:
                yield ('alias-acyclic', 'alias-self:' + wname, '%s.%s' % (ns_name, d.name),
                       _specs(mm.replace_def(model, ns_name, fi, di, d._replace(type=w(R(None, d.name))))))
            # a cycle of length two: an alias of the same namespace that (directly) refers to this one is made its target
            for n2, fi2, di2, a2 in mm.all_defs(model):
                if n2 != ns_name or not isinstance(a2, Alias) or a2.name == d.name:
                    continue
                if any(r.ns in (None, ns_name) and r.name == d.name for r in mm.type_refs(a2.type)):
                    for wname, w in wrappers:
                        yield ('alias-acyclic', 'alias-cycle:' + wname, '%s.%s<->%s' % (ns_name, d.name, a2.name),
                               _specs(mm.replace_def(model, ns_name, fi, di, d._replace(type=w(R(None, a2.name))))))

    # ---- inheritance ------------------------------------------------------------------------
    if want('inherit', 'uinherit'):
        for ns_name, fi, di, d in mm.all_defs(model):
            if isinstance(d, Struct) and d.parent is None and d.subtypes is None:
                for n2, u in all_unions:
                    if n2 == ns_name:
                        yield ('struct-extends-struct', 'struct<union', '%s.%s' % (ns_name, d.name),
                               _specs(mm.replace_def(model, ns_name, fi, di, d._replace(parent=R(None, u.name)))))
                        break
                for n2, a in all_aliases:
                    if n2 == ns_name:
                        yield ('no-extends-alias', 'struct<alias', '%s.%s<%s' % (ns_name, d.name, a.name),
                               _specs(mm.replace_def(model, ns_name, fi, di, d._replace(parent=R(None, a.name)))))
                yield ('struct-extends-struct', 'struct<primitive', '%s.%s' % (ns_name, d.name),
                       _specs(mm.replace_def(model, ns_name, fi, di, d._replace(parent=prim('Int32')))))
                yield ('inheritance-acyclic', 'struct<self', '%s.%s' % (ns_name, d.name),
                       _specs(mm.replace_def(model, ns_name, fi, di, d._replace(parent=R(None, d.name)))))
                # cycle of length 2..: make the root of a chain extend its descendant
                for cns, c in mm.children_of(model, ns_name, d.name):
                    if cns == ns_name:
                        yield ('inheritance-acyclic', 'struct-cycle', '%s.%s<%s' % (ns_name, d.name, c.name),
                               _specs(mm.replace_def(model, ns_name, fi, di, d._replace(parent=R(None, c.name)))))
            if isinstance(d, Struct) and d.parent is not None:
                yield ('parent-not-nullable', 'struct', '%s.%s' % (ns_name, d.name),
                       _specs(mm.replace_def(model, ns_name, fi, di, d._replace(parent=N(d.parent)))))
            if isinstance(d, Union) and d.parent is None:
                for n2, s in all_structs:
                    if n2 == ns_name:
                        yield ('union-extends-union', 'union<struct', '%s.%s' % (ns_name, d.name),
                               _specs(mm.replace_def(model, ns_name, fi, di, d._replace(parent=R(None, s.name)))))
                        break
                for n2, a in all_aliases:
                    if n2 == ns_name:
                        yield ('no-extends-alias', 'union<alias', '%s.%s<%s' % (ns_name, d.name, a.name),
                               _specs(mm.replace_def(model, ns_name, fi, di, d._replace(parent=R(None, a.name)))))
                yield ('inheritance-acyclic', 'union<self', '%s.%s' % (ns_name, d.name),
                       _specs(mm.replace_def(model, ns_name, fi, di, d._replace(parent=R(None, d.name)))))
                if d.closed:
                    for n2, u in all_unions:
                        if n2 == ns_name and not u.closed and u.name != d.name and u.parent is None:
                            yield ('closed-needs-closed-parent', 'union', '%s.%s<%s' % (ns_name, d.name, u.name),
                                   _specs(mm.replace_def(model, ns_name, fi, di, d._replace(parent=R(None, u.name)))))
            if isinstance(d, Union) and d.parent is not None and not d.closed:
                pns, pu = mm.resolve(model, ns_name, d.parent)
                if not pu.closed:
                    yield ('closed-needs-closed-parent', 'union@close-child', '%s.%s' % (ns_name, d.name),
                           _specs(mm.replace_def(model, ns_name, fi, di, d._replace(closed=True))))

    # ---- enumerated subtypes ----------------------------------------------------------------
    if want('subtypes'):
        for ns_name, fi, di, d in mm.all_defs(model):
            if not isinstance(d, Struct):
                continue
            if d.subtypes is not None:
                closed, subs = d.subtypes
                tag0, ref0 = subs[0]
                yield ('subtype-once', 'subtypes', '%s.%s' % (ns_name, d.name),
                       _specs(mm.replace_def(model, ns_name, fi, di, d._replace(subtypes=(closed, subs + (('kdup', ref0),))))))
                yield ('field-unique', 'subtypes/tag-twice', '%s.%s' % (ns_name, d.name),
                       _specs(mm.replace_def(model, ns_name, fi, di, d._replace(subtypes=(closed, subs + ((tag0, ref0),))))))
                for n2, u in all_unions:
                    if n2 == ns_name:
                        yield ('subtype-is-struct', 'subtypes', '%s.%s<-%s' % (ns_name, d.name, u.name),
                               _specs(mm.replace_def(model, ns_name, fi, di, d._replace(subtypes=(closed, subs + (('kbad', R(None, u.name)),))))))
                        break
                for n2, s in all_structs:
                    if n2 == ns_name and s.name != d.name and (s.parent is None or s.parent.name != d.name):
                        yield ('subtype-is-child', 'subtypes', '%s.%s<-%s' % (ns_name, d.name, s.name),
                               _specs(mm.replace_def(model, ns_name, fi, di, d._replace(subtypes=(closed, subs + (('kbad', R(None, s.name)),))))))
                        break
                # type tag equal to a field name
                fld = mkfield(tag0, prim('Int32'))
                yield ('subtype-tag-not-a-field', 'subtypes', '%s.%s' % (ns_name, d.name),
                       _specs(mm.replace_def(model, ns_name, fi, di, d._replace(fields=d.fields + (fld,)))))
                # a child that is not enumerated
                yield ('all-children-enumerated', 'subtypes', '%s.%s' % (ns_name, d.name),
                       _specs(mm.add_def(model, ns_name, fi, mkstruct('Zzchild', parent=R(None, d.name), doc='x'), sort=False)))
                # extending a leaf
                yield ('leaf-not-extended', 'subtypes', '%s.%s' % (ns_name, ref0.name),
                       _specs(mm.add_def(model, ns_name, fi, mkstruct('Zzgrand', parent=R(None, ref0.name), doc='x'), sort=False)))
                # enumerating struct that itself extends another struct
                for n2, s in all_structs:
                    if n2 == ns_name and s.name != d.name and s.parent is None and s.subtypes is None \
                            and not any(r.name == s.name for _, r in subs):
                        yield ('enumerating-struct-has-no-parent', 'subtypes', '%s.%s<%s' % (ns_name, d.name, s.name),
                               _specs(mm.replace_def(model, ns_name, fi, di, d._replace(parent=R(None, s.name)))))
                        break
            else:
                yield ('subtype-defined', 'subtypes', '%s.%s' % (ns_name, d.name),
                       _specs(mm.replace_def(model, ns_name, fi, di, d._replace(subtypes=(False, (('kzz', UNDEF),))))))

    # ---- defaults ---------------------------------------------------------------------------
    if want('defaults'):
        for ns_name, fi, di, d in mm.all_defs(model):
            if not isinstance(d, Struct):
                continue
            for i, f in enumerate(d.fields):
                def put(newf, d=d, i=i, a=(ns_name, fi, di)):
                    return _specs(mm.replace_def(model, a[0], a[1], a[2], d._replace(fields=d.fields[:i] + (newf,) + d.fields[i + 1:])))
                ns2, u, nullable, via_alias = mm.strip(model, ns_name, f.type)
                site = '%s.%s.%s' % (ns_name, d.name, f.name)
                suffix = '@alias' if via_alias else ''
                if f.default != NODEF:
                    continue
                if nullable:
                    if isinstance(u, P):
                        from .machine import valid_literals
                        lits = valid_literals(u)
                        if lits:
                            yield ('no-default-on-nullable', 'default' + suffix, site, put(f._replace(default=lits[0])))
                    continue
                if isinstance(u, P):
                    for bad in bad_literals(u):
                        yield ('default-fits-type', 'default/%s%s' % (u.kind, suffix), site + '=' + repr(bad), put(f._replace(default=bad)))
                    if u.kind != 'Void':
                        yield ('default-fits-type', 'default/%s/tagref%s' % (u.kind, suffix), site + '=zztag',
                               put(f._replace(default=TagLit('zztag'))))
                elif isinstance(u, (L, M)):
                    yield ('default-only-on-primitive-or-union', 'default/%s%s' % (type(u).__name__, suffix), site + '=3', put(f._replace(default=3)))
                elif isinstance(u, R):
                    tns, td = mm.resolve(model, ns2, u)
                    if isinstance(td, Struct):
                        yield ('default-only-on-primitive-or-union', 'default/struct' + suffix, site + '=3', put(f._replace(default=3)))
                        yield ('default-only-on-primitive-or-union', 'default/struct/tagref' + suffix, site + '=zz',
                               put(f._replace(default=TagLit('zz'))))
                    else:
                        yield ('default-tag-is-void-tag', 'default/union/unknown' + suffix, site + '=zzunknown',
                               put(f._replace(default=TagLit('zzunknown'))))
                        yield ('default-fits-type', 'default/union/literal' + suffix, site + '=3', put(f._replace(default=3)))
                        for cns, cu in mm.struct_chain(model, tns, td):
                            typed = [t for t in mm.own_members(model, cns, cu) if t.type is not None
                                     and not mm.is_nullable(model, cns, t.type)]
                            if typed:
                                yield ('default-tag-is-void-tag', 'default/union/typed' + suffix, site + '=' + typed[0].name,
                                       put(f._replace(default=TagLit(typed[0].name))))
                                break

    # ---- layout (text level) ----------------------------------------------------------------
    if base:
        for ns in model.namespaces:
            for fi, f in enumerate(ns.files):
                if not f.defs:
                    continue
                site = '%s/%d' % (ns.name, fi)

                def drop_ns(lines):
                    return [ln for ln in lines if not ln.startswith('namespace ')]
                yield ('ns-first', 'file', site, _text_edit(model, ns.name, fi, drop_ns))

                def ns_after(lines):
                    body = [ln for ln in lines if not ln.startswith('namespace ')]
                    while body and body[-1] == '':
                        body.pop()
                    return body + ['', 'namespace ' + ns.name, '']
                yield ('ns-first', 'file/ns-last', site, _text_edit(model, ns.name, fi, ns_after))

                def second_ns(lines):
                    out = list(lines)
                    while out and out[-1] == '':
                        out.pop()
                    return out + ['', 'namespace ' + ns.name, '']
                yield ('ns-once-per-file', 'file', site, _text_edit(model, ns.name, fi, second_ns))

                def bad_indent(lines, extra='  '):
                    for i, ln in enumerate(lines):
                        if _in_string(lines, i):
                            continue
                        if ln.startswith('    ') and not ln.strip().startswith('"'):
                            return lines[:i] + [extra + ln] + lines[i + 1:]
                    return None
                yield ('indent-mult-4', 'file', site, _text_edit(model, ns.name, fi, bad_indent))

                def illegal_char(lines):
                    for i, ln in enumerate(lines):
                        if ln and not ln.startswith(' ') and not ln.startswith('namespace') and not ln.startswith('import'):
                            return lines[:i] + [ln + ' $'] + lines[i + 1:]
                    return None
                yield ('legal-chars', 'file', site, _text_edit(model, ns.name, fi, illegal_char))

                def over_indent(lines):
                    for i, ln in enumerate(lines):
                        if _in_string(lines, i):
                            continue
                        if ln.startswith('    ') and not ln.startswith('     ') and not ln.strip().startswith('"'):
                            return lines[:i] + ['    ' + ln] + lines[i + 1:]
                    return None
                yield ('indent-mult-4', 'file/over-indent', site, _text_edit(model, ns.name, fi, over_indent))


def _in_string(lines, i):
    """Is line i inside (a continuation of) a multi-line string literal?"""
    import re
    text = '\n'.join(lines[:i])
    text = re.sub(r'\\.', '', text)
    return text.count('"') % 2 == 1


def bad_literals(u):
    """Literals that do not satisfy primitive type u (one per way of being wrong)."""
    a = dict(u.args)
    k = u.kind
    out = []
    if k in INT_RANGES:
        lo, hi = INT_RANGES[k]
        out += [lo - 1, hi + 1, 'x', 1.5, None]   # a boolean for an integer: unspecified (DESIGN 3.3)
        if a.get('min_value') is not None:
            out.append(a['min_value'] - 1)
        if a.get('max_value') is not None:
            out.append(a['max_value'] + 1)
    elif k in ('Float32', 'Float64'):
        out += ['x', None]
        if k == 'Float32':
            out += [3.5e38, -3.5e38]
        if a.get('min_value') is not None and float(a['min_value']) - 1.0 < float(a['min_value']):
            out.append(float(a['min_value']) - 1.0)
        if a.get('max_value') is not None and float(a['max_value']) + 1.0 > float(a['max_value']):
            out.append(float(a['max_value']) + 1.0)
    elif k == 'Boolean':
        out += [0, 'true', None, 1.5]
    elif k == 'String':
        out += [3, True, None, 1.5]
        if a.get('min_length'):
            out.append('x' * (a['min_length'] - 1))
        if a.get('max_length') is not None:
            out.append('x' * (a['max_length'] + 1))
        if a.get('pattern') is not None:
            out += PATTERN_NONMATCHES.get(a['pattern'], [])
    elif k == 'Bytes':
        out += [3, True, None]
    elif k == 'Timestamp':
        out += [3, 'not a date', None, True]
    return out


# strings that do NOT match the pattern as a whole (prefix-only matches included: whole-string semantics)
PATTERN_NONMATCHES = {'[a-c]+': ['', 'abz', 'zab'], 'abc': ['abcdef', 'zabc', 'ab'], '^a.c$': ['abcd', 'zabc'],
                      'a|bc': ['ab', 'bcd', 'z'], '\\d{2}': ['123', '1', 'a12']}


# ---------------------------------------------------------------------------
# faults of the later families: examples, route attributes, doc references, annotations, patches


def _put_def(model, ns_name, fi, di, d):
    return _specs(mm.replace_def(model, ns_name, fi, di, d))


def faults_ext(model, want=lambda *a: True):
    from .refsem import schema_fields, annotations_of
    from .render import RawMap
    all_structs = [(n, d) for n, fi, di, d in mm.all_defs(model) if isinstance(d, Struct)]
    all_unions = [(n, d) for n, fi, di, d in mm.all_defs(model) if isinstance(d, Union)]
    all_aliases = [(n, d) for n, fi, di, d in mm.all_defs(model) if isinstance(d, Alias)]
    # ---- examples ---------------------------------------------------------------------------
    if True:
        for ns_name, fi, di, d in mm.all_defs(model):
            if ns_name == 'stone_cfg' or not isinstance(d, (Struct, Union)):
                continue
            site = '%s.%s' % (ns_name, d.name)
            for ei, ex in enumerate(d.examples):
                def with_ex(new_ex, d=d, ei=ei, a=(ns_name, fi, di)):
                    exs = d.examples[:ei] + ((new_ex,) if new_ex is not None else ()) + d.examples[ei + 1:]
                    return _put_def(model, a[0], a[1], a[2], d._replace(examples=exs))
                yield ('example-label-once', 'example', site, _put_def(model, ns_name, fi, di, d._replace(examples=d.examples + (ex,))))
                if isinstance(d, Struct) and d.subtypes is None:
                    yield ('example-field-known', 'example/struct', site, with_ex(ex._replace(fields=ex.fields + (('zzunknown', 1),))))
                    if ex.fields:
                        yield ('example-field-once', 'example/struct', site, with_ex(ex._replace(fields=ex.fields + (ex.fields[0],))))
                    for j, (k, v) in enumerate(ex.fields):
                        ftype = None
                        fns = ns_name
                        optional = False
                        for cns, cs in mm.struct_chain(model, ns_name, d):
                            for f in mm.own_members(model, cns, cs):
                                if f.name == k:
                                    ftype, fns = f.type, cns
                                    optional = f.default != NODEF or mm.is_nullable(model, cns, f.type)
                        if ftype is None:
                            continue
                        if not optional:
                            yield ('example-required-present', 'example/struct', site + '.' + k,
                                   with_ex(ex._replace(fields=ex.fields[:j] + ex.fields[j + 1:])))
                            yield ('example-literal-fits', 'example/struct/null-for-required', site + '.' + k,
                                   with_ex(ex._replace(fields=ex.fields[:j] + ((k, None),) + ex.fields[j + 1:])))
                        ns2, u, nullable, via = mm.strip(model, fns, ftype)
                        suffix = '@alias' if via else ''
                        if isinstance(u, P):
                            for bad in bad_literals(u):
                                if bad is None:
                                    continue
                                yield ('example-literal-fits', 'example/struct/%s%s' % (u.kind, suffix), site + '.%s=%r' % (k, bad),
                                       with_ex(ex._replace(fields=ex.fields[:j] + ((k, bad),) + ex.fields[j + 1:])))
                            yield ('example-literal-fits', 'example/struct/%s/list%s' % (u.kind, suffix), site + '.' + k,
                                   with_ex(ex._replace(fields=ex.fields[:j] + ((k, (1,)),) + ex.fields[j + 1:])))
                        elif isinstance(u, L):
                            yield ('example-literal-fits', 'example/struct/list' + suffix, site + '.' + k,
                                   with_ex(ex._replace(fields=ex.fields[:j] + ((k, 3),) + ex.fields[j + 1:])))
                            yield ('example-literal-fits', 'example/struct/list/map' + suffix, site + '.' + k,
                                   with_ex(ex._replace(fields=ex.fields[:j] + ((k, RawMap((('k', 1),))),) + ex.fields[j + 1:])))
                            ns3, u3, _, _ = mm.strip(model, ns2, u.item)
                            if isinstance(u3, P):
                                bl = [b for b in bad_literals(u3) if b is not None]
                                if bl:
                                    yield ('example-literal-fits', 'example/struct/list/item' + suffix, site + '.' + k,
                                           with_ex(ex._replace(fields=ex.fields[:j] + ((k, (bl[0],)),) + ex.fields[j + 1:])))
                            if u.max_items is not None:
                                ok_item = v[0] if isinstance(v, tuple) and v else None
                                if ok_item is not None:
                                    yield ('example-literal-fits', 'example/struct/list/max_items' + suffix, site + '.' + k,
                                           with_ex(ex._replace(fields=ex.fields[:j] + ((k, tuple([ok_item] * (u.max_items + 1))),) + ex.fields[j + 1:])))
                        elif isinstance(u, M):
                            yield ('example-literal-fits', 'example/struct/map' + suffix, site + '.' + k,
                                   with_ex(ex._replace(fields=ex.fields[:j] + ((k, 3),) + ex.fields[j + 1:])))
                            yield ('example-literal-fits', 'example/struct/map/list' + suffix, site + '.' + k,
                                   with_ex(ex._replace(fields=ex.fields[:j] + ((k, (1,)),) + ex.fields[j + 1:])))
                            yield ('example-literal-fits', 'example/struct/map/key' + suffix, site + '.' + k,
                                   with_ex(ex._replace(fields=ex.fields[:j] + ((k, RawMap(((1, 1),))),) + ex.fields[j + 1:])))
                        elif isinstance(u, R):
                            yield ('example-ref-exists', 'example/struct/ref' + suffix, site + '.' + k,
                                   with_ex(ex._replace(fields=ex.fields[:j] + ((k, TagLit('zzlabel')),) + ex.fields[j + 1:])))
                            yield ('example-literal-fits', 'example/struct/ref/literal' + suffix, site + '.' + k,
                                   with_ex(ex._replace(fields=ex.fields[:j] + ((k, 3),) + ex.fields[j + 1:])))
                elif isinstance(d, Struct):
                    (tag, ref), = ex.fields
                    yield ('subtype-example-is-ref', 'example/subtypes', site, with_ex(ex._replace(fields=((tag, 3),))))
                    yield ('union-example-tag-known', 'example/subtypes', site, with_ex(ex._replace(fields=(('kzz', ref),))))
                    yield ('union-example-one-tag', 'example/subtypes', site, with_ex(ex._replace(fields=((tag, ref), ('kzz2', ref)))))
                    yield ('example-ref-exists', 'example/subtypes', site, with_ex(ex._replace(fields=((tag, TagLit('zzlabel')),))))
                else:
                    (tag, val), = ex.fields
                    yield ('union-example-one-tag', 'example/union', site, with_ex(ex._replace(fields=ex.fields + (('zsecond', None),))))
                    yield ('union-example-one-tag', 'example/union/none', site, with_ex(ex._replace(fields=())))
                    yield ('union-example-tag-known', 'example/union', site, with_ex(ex._replace(fields=(('zzunknown', None),))))
                    ttype = None
                    for cns, cu in mm.struct_chain(model, ns_name, d):
                        for t in mm.own_members(model, cns, cu):
                            if t.name == tag:
                                ttype = t.type
                                tns = cns
                    if ttype is None:
                        yield ('void-example-null', 'example/union', site + '.' + tag, with_ex(ex._replace(fields=((tag, 3),))))
                    else:
                        ns2, u, nullable, via = mm.strip(model, tns, ttype)
                        if isinstance(u, P):
                            for bad in [b for b in bad_literals(u) if b is not None][:3]:
                                yield ('example-literal-fits', 'example/union/%s' % u.kind, site + '.%s=%r' % (tag, bad),
                                       with_ex(ex._replace(fields=((tag, bad),))))
                        elif isinstance(u, R):
                            yield ('example-ref-exists', 'example/union/ref', site + '.' + tag,
                                   with_ex(ex._replace(fields=((tag, TagLit('zzlabel')),))))
    # ---- route attributes -------------------------------------------------------------------
    if True:
        schema = schema_fields(model)
        if schema:
            for ns_name, fi, di, d in mm.all_defs(model):
                if not isinstance(d, Route) or ns_name == 'stone_cfg':
                    continue
                site = '%s.%s:%d' % (ns_name, d.name, d.version)
                yield ('attr-in-schema', 'attrs', site, _put_def(model, ns_name, fi, di, d._replace(attrs=d.attrs + (('zzkey', 1),))))
                given = dict(d.attrs)
                for f in schema:
                    ns2, u, nullable, via = mm.strip(model, 'stone_cfg', f.type)
                    required = f.default == NODEF and not nullable
                    if required and f.name in given:
                        yield ('attr-required-present', 'attrs', site + '.' + f.name,
                               _put_def(model, ns_name, fi, di, d._replace(attrs=tuple(kv for kv in d.attrs if kv[0] != f.name))))
                    if isinstance(u, P):
                        for bad in bad_literals(u):
                            if bad is None and nullable:
                                continue
                            # `k = null` for a defaulted, non-nullable attribute: null is not a value of the declared type
                            attrs = tuple(kv for kv in d.attrs if kv[0] != f.name) + ((f.name, bad),)
                            yield ('attr-fits-type', 'attrs/%s%s' % (u.kind, '?' if nullable else ''), site + '.%s=%r' % (f.name, bad),
                                   _put_def(model, ns_name, fi, di, d._replace(attrs=attrs)))
                    if f.name in given:
                        yield ('attr-once', 'attrs', site + '.' + f.name,
                               _put_def(model, ns_name, fi, di, d._replace(attrs=d.attrs + ((f.name, given[f.name]),))))
            yield ('cfg-no-routes', 'stone_cfg', 'stone_cfg', _specs(mm.add_def(model, 'stone_cfg', 0, mkroute('zr'), sort=False)))
            yield ('cfg-only-route-struct', 'stone_cfg', 'stone_cfg', _specs(mm.add_def(model, 'stone_cfg', 0, mkstruct('Other', doc='x'), sort=False)))
    # ---- doc references ---------------------------------------------------------------------
    if want('docs'):
        bad_docs = [('docref-tag-known', 'A :foo:`x` ref.'), ('docref-val', 'A :val:`nope` ref.'), ('docref-val', 'A :val:`"a\\\\"` ref.'),
                    ('docref-link', 'A :link:`nospace` ref.'), ('docref-link', 'A :link:`trailing ` ref.'),
                    ('docref-type', 'A :type:`Zzundefined` ref.'), ('docref-type', 'A :type:`zzns.Foo` ref.'),
                    ('docref-field', 'A :field:`zzunknown` ref.'), ('docref-field', 'A :field:`Zzundefined.f` ref.'),
                    ('docref-route', 'A :route:`zzroute` ref.'), ('docref-route', 'A :route:`zzns.r` ref.')]
        for ns_name, fi, di, d in mm.all_defs(model):
            if ns_name == 'stone_cfg':
                continue
            extra = []
            for n, a in all_aliases:
                if n == ns_name:
                    extra.append(('docref-type', 'A :type:`%s` ref.' % a.name))
                    break
            for n, s in all_structs + all_unions:
                if n == ns_name:
                    extra.append(('docref-field', 'A :field:`%s.zzunknown` ref.' % s.name))
                    extra.append(('docref-route', 'A :route:`%s` ref.' % s.name))
                    break
            for n, fj, dj, r in mm.all_defs(model, ns_name):
                if isinstance(r, Route):
                    extra.append(('docref-route', 'A :route:`%s:9` ref.' % r.name))
                    extra.append(('docref-type', 'A :type:`%s` ref.' % r.name))
                    extra.append(('docref-field', 'A :field:`%s.x` ref.' % r.name))
                    break
            if isinstance(d, (Struct, Union)):
                for rule, doc in bad_docs + extra:
                    yield (rule, 'doc/type', '%s.%s %s' % (ns_name, d.name, doc), _put_def(model, ns_name, fi, di, d._replace(doc=doc)))
                members = d.fields if isinstance(d, Struct) else d.tags
                key = 'fields' if isinstance(d, Struct) else 'tags'
                for j, f in enumerate(members[:1]):
                    for rule, doc in bad_docs + extra:
                        d2 = d._replace(**{key: members[:j] + (f._replace(doc=doc),) + members[j + 1:]})
                        yield (rule, 'doc/member', '%s.%s.%s %s' % (ns_name, d.name, f.name, doc), _put_def(model, ns_name, fi, di, d2))
                        if d.doc is not None:
                            # the same member doc in a type that has no doc of its own
                            yield (rule, 'doc/member-of-undocumented-type', '%s.%s.%s %s' % (ns_name, d.name, f.name, doc),
                                   _put_def(model, ns_name, fi, di, d2._replace(doc=None)))
            elif isinstance(d, Route):
                for rule, doc in bad_docs + extra:
                    if 'zzunknown` ref' in doc and '.' not in doc.split('`')[1]:
                        continue        # a bare :field: reference in a route doc has no type context (unspecified)
                    yield (rule, 'doc/route', '%s.%s %s' % (ns_name, d.name, doc), _put_def(model, ns_name, fi, di, d._replace(doc=doc)))
        # the same doc text on two types: a bare :field: reference that is right for the one and wrong for the other
        for ns in model.namespaces:
            if ns.name == 'stone_cfg':
                continue
            typed = [(fi, di, d) for _, fi, di, d in mm.all_defs(model, ns.name) if isinstance(d, (Struct, Union))]
            for fi, di, d in typed:
                members = mm.own_members(model, ns.name, d)
                if not members:
                    continue
                doc = 'See :field:`%s`.' % members[0].name
                n_other = 0
                for fj, dj, t in typed:
                    if t.name == d.name or n_other >= 2:
                        continue
                    chain_names = set()
                    for cns, c in mm.struct_chain(model, ns.name, t):
                        chain_names.update(m_.name for m_ in mm.own_members(model, cns, c))
                    if members[0].name in chain_names:
                        continue
                    n_other += 1
                    m2 = mm.replace_def(model, ns.name, fi, di, d._replace(doc=doc))
                    fj2, dj2, t2 = mm.find_def(m2, ns.name, t.name)
                    m2 = mm.replace_def(m2, ns.name, fj2, dj2, t2._replace(doc=doc))
                    yield ('docref-field', 'doc/same-text-on-two-types', '%s: %s on %s (has the field) and on %s (has not)' % (ns.name, doc, d.name, t.name), _specs(m2))
    # ---- annotations ------------------------------------------------------------------------
    if True:
        for ns in model.namespaces:
            if ns.name == 'stone_cfg':
                continue
            anns = [d for _, _, _, d in mm.all_defs(model, ns.name) if isinstance(d, Annotation)]
            if not anns and not any(isinstance(d, Annotation) for _, _, _, d in mm.all_defs(model)):
                continue
            for rule, kind, text in [('annotation-type-defined', 'annotation-def', 'annotation Zx = Zzundefined()'),
                                     ('annotation-args-not-mixed', 'annotation-def', 'annotation Zx = RedactedBlot("a", regex="b")'),
                                     ('builtin-annotation-arity', 'annotation-def', 'annotation Zx = Omitted()'),
                                     ('builtin-annotation-arity', 'annotation-def', 'annotation Zx = Omitted("a", "b")'),
                                     ('builtin-annotation-arity', 'annotation-def', 'annotation Zx = Deprecated("a")'),
                                     ('builtin-annotation-arity', 'annotation-def', 'annotation Zx = Preview(x="a")'),
                                     ('builtin-annotation-arity', 'annotation-def', 'annotation Zx = RedactedHash("a", "b")'),
                                     ('annotation-type-defined', 'annotation-def', 'annotation Zx = zzns.Foo()')]:
                yield (rule, kind, ns.name + ' ' + text, _specs(mm.add_def(model, ns.name, 0, RawDef(text), sort=False)))
            for a in anns[:1]:
                yield ('symbol-unique', 'annotation-def', ns.name + '.' + a.name, _specs(mm.add_def(model, ns.name, 0, a, sort=False)))
            # custom annotation types visible here (own and imported): wrong argument lists, one per rule of lang_ref 'Custom annotations'
            visible_types = [(None, d) for _, _, _, d in mm.all_defs(model, ns.name) if isinstance(d, AnnType)]
            for imp in sorted(mm.imports_of(model, ns.name)):
                visible_types += [(imp, d) for _, _, _, d in mm.all_defs(model, imp) if isinstance(d, AnnType)]
            for ans, at in visible_types:
                q = (ans + '.' if ans else '') + at.name
                good = {'Int32': '3', 'String': '"s"', 'Boolean': 'true', 'Float64': '1.5'}
                wrong = {'Int32': '"s"', 'String': '3', 'Boolean': '"s"', 'Float64': '"s"'}

                def kind_of(p):
                    t = p.type.inner if isinstance(p.type, N) else p.type
                    return t.kind
                allpos = ', '.join(good[kind_of(p)] for p in at.params)
                site = ns.name + ' ' + q
                yield ('annotation-arity', 'custom-annotation/too-many', site,
                       _specs(mm.add_def(model, ns.name, 0, RawDef('annotation Zx = %s(%s)' % (q, ', '.join([allpos, '1']) if allpos else '1')), sort=False)))
                yield ('annotation-unknown-parameter', 'custom-annotation', site,
                       _specs(mm.add_def(model, ns.name, 0, RawDef('annotation Zx = %s(zzunknown=1)' % q), sort=False)))
                if at.params:
                    p0 = at.params[0]
                    yield ('annotation-argument-fits-type', 'custom-annotation/positional', site,
                           _specs(mm.add_def(model, ns.name, 0, RawDef('annotation Zx = %s(%s)' % (q, ', '.join([wrong[kind_of(p0)]] + [good[kind_of(p)] for p in at.params[1:]]))), sort=False)))
                    kw = ', '.join('%s=%s' % (p.name, wrong[kind_of(p)] if p is p0 else good[kind_of(p)]) for p in at.params)
                    yield ('annotation-argument-fits-type', 'custom-annotation/keyword', site,
                           _specs(mm.add_def(model, ns.name, 0, RawDef('annotation Zx = %s(%s)' % (q, kw)), sort=False)))
                    req = [p for p in at.params if p.default == NODEF and not isinstance(p.type, N)]
                    if req:
                        yield ('annotation-required-parameter', 'custom-annotation', site,
                               _specs(mm.add_def(model, ns.name, 0, RawDef('annotation Zx = %s()' % q), sort=False)))
                    if len(at.params) >= 2:
                        mixed = '%s, %s' % (good[kind_of(at.params[0])], '%s=%s' % (at.params[1].name, good[kind_of(at.params[1])]))
                        yield ('annotation-args-not-mixed', 'custom-annotation', site,
                               _specs(mm.add_def(model, ns.name, 0, RawDef('annotation Zx = %s(%s)' % (q, mixed)), sort=False)))
            for _, _, _, d in mm.all_defs(model, ns.name):
                if isinstance(d, (Struct, Union)) and visible_types:
                    yield ('annotation-type-is-annotation-type', 'custom-annotation', ns.name + ' ' + d.name,
                           _specs(mm.add_def(model, ns.name, 0, RawDef('annotation Zx = %s()' % d.name), sort=False)))
                    break
        for ns_name, fi, di, d in mm.all_defs(model):
            if ns_name == 'stone_cfg':
                continue
            visible = [(None, a) for _, _, _, a in mm.all_defs(model, ns_name) if isinstance(a, Annotation)]
            if not visible:
                continue
            by_kind = {}
            for ans, a in visible:
                by_kind.setdefault(a.kind, (ans, a))
            if isinstance(d, (Struct, Union)):
                members = d.fields if isinstance(d, Struct) else d.tags
                key = 'fields' if isinstance(d, Struct) else 'tags'
                for j, f in enumerate(members):
                    def with_anns(anns_, d=d, j=j, f=f, members=members, key=key, a=(ns_name, fi, di)):
                        d2 = d._replace(**{key: members[:j] + (f._replace(anns=tuple(anns_)),) + members[j + 1:]})
                        return _put_def(model, a[0], a[1], a[2], d2)
                    site = '%s.%s.%s' % (ns_name, d.name, f.name)
                    yield ('annotation-defined', 'annotate/member', site, with_anns(f.anns + (AnnRef(None, 'Zzundefined'),)))
                    yield ('ns-imported', 'annotate/member', site, with_anns(f.anns + (AnnRef('zzns', 'Foo'),)))
                    kinds = [a.kind for _, a in annotations_of(model, ns_name, f.anns)]
                    oms = [a for _, a in visible if a.kind == 'Omitted']
                    if 'Omitted' in kinds and len(oms) >= 2:
                        other = [a for a in oms if not any(x.name == a.name for x in f.anns)]
                        if other:
                            yield ('omitted-once', 'annotate/member', site, with_anns(f.anns + (AnnRef(None, other[0].name),)))
                    if 'Omitted' in kinds:
                        yield ('omitted-once', 'annotate/member/same-twice', site, with_anns(f.anns + tuple(x for x in f.anns)))
                    if 'Deprecated' in kinds and 'Preview' in by_kind:
                        yield ('deprecated-xor-preview', 'annotate/member', site, with_anns(f.anns + (AnnRef(None, by_kind['Preview'][1].name),)))
                    if 'Preview' in kinds and 'Deprecated' in by_kind:
                        yield ('deprecated-xor-preview', 'annotate/member', site, with_anns(f.anns + (AnnRef(None, by_kind['Deprecated'][1].name),)))
                    red = by_kind.get('RedactedBlot') or by_kind.get('RedactedHash')
                    if red and not any(k in kinds for k in ('RedactedBlot', 'RedactedHash')):
                        t = getattr(f, 'type', None)
                        if t is None:
                            yield ('redactor-target-legal', 'annotate/void-tag', site, with_anns(f.anns + (AnnRef(None, red[1].name),)))
                        else:
                            ns2, u, nullable, via = mm.strip(model, ns_name, t)
                            leaf = u
                            while isinstance(leaf, (L, M, N)):
                                leaf = leaf.item if isinstance(leaf, L) else leaf.value if isinstance(leaf, M) else leaf.inner
                                ns2, leaf, _, _ = mm.strip(model, ns2, leaf)
                            if isinstance(t, R) and isinstance(mm.resolve(model, ns_name, t)[1], Alias):
                                yield ('redactor-not-on-alias-ref', 'annotate/alias-ref', site, with_anns(f.anns + (AnnRef(None, red[1].name),)))
                            elif isinstance(leaf, R):
                                yield ('redactor-target-legal', 'annotate/user-type', site, with_anns(f.anns + (AnnRef(None, red[1].name),)))
            elif isinstance(d, Alias):
                site = '%s.%s' % (ns_name, d.name)
                for k in ('Omitted', 'Deprecated', 'Preview'):
                    if k in by_kind:
                        yield ('alias-annotation-kind', 'annotate/alias', site + '@' + k,
                               _put_def(model, ns_name, fi, di, d._replace(anns=d.anns + (AnnRef(None, by_kind[k][1].name),))))
                yield ('annotation-defined', 'annotate/alias', site, _put_def(model, ns_name, fi, di, d._replace(anns=d.anns + (AnnRef(None, 'Zzundefined'),))))
                red = by_kind.get('RedactedBlot') or by_kind.get('RedactedHash')
                if red and not d.anns:
                    ns2, u, nullable, via = mm.strip(model, ns_name, d.type)
                    if isinstance(u, R) or (isinstance(u, P) and u.kind == 'Void'):
                        yield ('redactor-target-legal', 'annotate/alias/user-or-void', site,
                               _put_def(model, ns_name, fi, di, d._replace(anns=(AnnRef(None, red[1].name),))))
    # ---- patches ----------------------------------------------------------------------------
    if want('patches'):
        for ns in model.namespaces:
            if ns.name == 'stone_cfg':
                continue
            has_patch = any(isinstance(d, Patch) for _, _, _, d in mm.all_defs(model, ns.name))
            tdefs = [d for _, _, _, d in mm.all_defs(model, ns.name) if isinstance(d, (Struct, Union, Alias))]
            if not has_patch and not tdefs:
                continue
            for fi in range(len(ns.files)):
                if not has_patch and fi > 0:
                    continue
                yield ('patch-target-exists', 'patch', '%s/%d' % (ns.name, fi),
                       _specs(mm.add_def(model, ns.name, fi, Patch('struct', 'Zzundefined', (mkfield('zp', N(prim('Int32'))),), ()), sort=False)))
                for d in tdefs:
                    if isinstance(d, Struct):
                        yield ('patch-kind-matches', 'patch/union-on-struct', '%s.%s' % (ns.name, d.name),
                               _specs(mm.add_def(model, ns.name, fi, Patch('union', d.name, (mktag('zq'),), ()), sort=False)))
                        for f in mm.own_members(model, ns.name, d)[:1]:
                            yield ('patch-field-new', 'patch/struct', '%s.%s.%s' % (ns.name, d.name, f.name),
                                   _specs(mm.add_def(model, ns.name, fi, Patch('struct', d.name, (mkfield(f.name, N(prim('Int32'))),), ()), sort=False)))
                        if not d.examples:
                            yield ('patch-example-has-base', 'patch/struct', '%s.%s' % (ns.name, d.name),
                                   _specs(mm.add_def(model, ns.name, fi, Patch('struct', d.name, (mkfield('zp', N(prim('Int32'))),),
                                                                              (Example('default', None, (('zp', 1),)),)), sort=False)))
                        for cns, cs in mm.struct_chain(model, ns.name, d)[1:2]:
                            for f in mm.own_members(model, cns, cs)[:1]:
                                yield ('field-not-in-ancestors', 'patch/struct@parent', '%s.%s.%s' % (ns.name, d.name, f.name),
                                       _specs(mm.add_def(model, ns.name, fi, Patch('struct', d.name, (mkfield(f.name, N(prim('Int32'))),), ()), sort=False)))
                    elif isinstance(d, Union):
                        yield ('patch-kind-matches', 'patch/struct-on-union', '%s.%s' % (ns.name, d.name),
                               _specs(mm.add_def(model, ns.name, fi, Patch('struct', d.name, (mkfield('zp', N(prim('Int32'))),), ()), sort=False)))
                        yield ('patch-kind-matches', 'patch/open-closed', '%s.%s' % (ns.name, d.name),
                               _specs(mm.add_def(model, ns.name, fi, Patch('union' if d.closed else 'union_closed', d.name, (mktag('zq'),), ()), sort=False)))
                        for t in mm.own_members(model, ns.name, d)[:1]:
                            yield ('patch-field-new', 'patch/union', '%s.%s.%s' % (ns.name, d.name, t.name),
                                   _specs(mm.add_def(model, ns.name, fi, Patch('union_closed' if d.closed else 'union', d.name, (mktag(t.name),), ()), sort=False)))
                        yield ('no-tag-named-other', 'patch/union', '%s.%s' % (ns.name, d.name),
                               _specs(mm.add_def(model, ns.name, fi, Patch('union_closed' if d.closed else 'union', d.name, (mktag('other'),), ()), sort=False)))
                    else:
                        yield ('patch-kind-matches', 'patch/struct-on-alias', '%s.%s' % (ns.name, d.name),
                               _specs(mm.add_def(model, ns.name, fi, Patch('struct', d.name, (mkfield('zp', N(prim('Int32'))),), ()), sort=False)))
