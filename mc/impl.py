"""Adapters that run the real stone code from /repo's working tree."""
import contextlib
import datetime
import importlib
import io
import json
import os
import shutil
import subprocess
import sys
import traceback

import stone
from stone.frontend.frontend import specs_to_ir
from stone.frontend.exception import InvalidSpec
from stone.compiler import Compiler, BackendException
from stone import ir
from stone.ir import data_types as dt

from .explore import stone_frame_identity, fresh_dir, InternalError

REPO = os.path.dirname(os.path.dirname(os.path.abspath(stone.__file__)))
PY = sys.executable


def assert_repo():
    if os.path.realpath(REPO) != os.path.realpath(os.environ.get('VERIF_REPO', '/repo')):
        raise InternalError('stone is imported from %s, not from /repo' % REPO)


# ---------------------------------------------------------------------------
# parser-table cache
#
# specs_to_ir builds a ParserFactory per call and 93% of a small compile is ply recomputing the LALR tables of
# the (constant) grammar.  The cache below makes ParserFactory a per-process singleton whose *real* __init__
# still runs on every construction, with yacc.yacc() answering from a cache for that singleton only.  Everything
# __init__ sets (errors, lexer, path, ...) is therefore fresh per compile; only the table construction is shared.
# VERIF_FRESH_PARSER=1 switches the cache off; checks cross-validate a sample of inputs with and without it
# (a disagreement is an internal error of the harness, never a violation).

import stone.frontend.parser as _sp

_real_yacc = _sp.yacc.yacc
_yacc_cache = {}
_singleton = []
_cache_on = [False]


def _cached_yacc(*a, **kw):
    module = kw.get('module')
    if _cache_on[0] and isinstance(module, _sp.ParserFactory) and _singleton and module is _singleton[0]:
        key = tuple(sorted((k, repr(v)) for k, v in kw.items() if k != 'module'))
        if key not in _yacc_cache:
            _yacc_cache[key] = _real_yacc(*a, **kw)
        return _yacc_cache[key]
    return _real_yacc(*a, **kw)


def _singleton_new(cls, *a, **kw):
    if not _cache_on[0] or cls is not _sp.ParserFactory:
        return object.__new__(cls)
    if not _singleton:
        _singleton.append(object.__new__(cls))
    return _singleton[0]


def enable_parser_cache(on=True):
    if os.environ.get('VERIF_FRESH_PARSER') == '1':
        on = False
    _cache_on[0] = on
    _sp.yacc.yacc = _cached_yacc
    _sp.ParserFactory.__new__ = staticmethod(_singleton_new)


enable_parser_cache(True)


# ---------------------------------------------------------------------------
# compile


class Compiled:
    __slots__ = ('kind', 'api', 'msg', 'lineno', 'path', 'exc_type', 'inner', 'entry', 'tb')

    def __init__(self, kind, **kw):
        self.kind = kind            # 'ok' | 'invalid' | 'escape'
        for k in self.__slots__[1:]:
            setattr(self, k, kw.get(k))

    def brief(self):
        if self.kind == 'ok':
            return 'ok'
        if self.kind == 'invalid':
            return 'InvalidSpec(%r, %r, %r)' % (self.msg, self.lineno, self.path)
        return 'escape %s @ %s <- %s' % (self.exc_type, self.inner, self.entry)

    def escape_identity(self):
        return 'escape:%s@%s<-%s' % (self.exc_type, self.inner, self.entry)


def compile_specs_fresh(specs, **kw):
    """Same as compile_specs with the parser-table cache switched off (cross-validation of the cache)."""
    old = _cache_on[0]
    _cache_on[0] = False
    try:
        return compile_specs(specs, **kw)
    finally:
        _cache_on[0] = old


CROSS_VALIDATED = [0]


def compile_specs(specs, **kw):
    out = _compile_specs(specs, **kw)
    if _cache_on[0] and 'route_whitelist_filter' not in kw:
        import zlib
        if zlib.crc32('\x00'.join(t for _, t in specs).encode('utf-8', 'replace')) % 97 == 0:
            _cache_on[0] = False
            try:
                ref = _compile_specs(specs, **kw)
            finally:
                _cache_on[0] = True
            CROSS_VALIDATED[0] += 1
            if ref.brief() != out.brief():
                raise InternalError('parser-table cache changes the outcome: %r vs %r for %r' % (out.brief(), ref.brief(), specs))
    return out


def _compile_specs(specs, **kw):
    try:
        api = specs_to_ir([(p, t) for p, t in specs], **kw)
        return Compiled('ok', api=api)
    except InvalidSpec as e:
        return Compiled('invalid', msg=e.msg, lineno=e.lineno, path=e.path)
    except RecursionError as e:
        et, inner, entry = stone_frame_identity(e)
        return Compiled('escape', exc_type=et, inner=inner, entry=entry, tb='RecursionError')
    except Exception as e:  # noqa
        from .explore import Hang
        if isinstance(e, Hang):
            raise
        et, inner, entry = stone_frame_identity(e)
        return Compiled('escape', exc_type=et, inner=inner, entry=entry, tb=traceback.format_exc()[-3000:])


# ---------------------------------------------------------------------------
# signature of an Api: the complete description reachable from it, as JSON-able data


def tsig(t):
    if t is None:
        return None
    if isinstance(t, dt.Nullable):
        return ['N', tsig(t.data_type)]
    if isinstance(t, dt.List):
        return ['L', tsig(t.data_type), t.min_items, t.max_items]
    if isinstance(t, dt.Map):
        return ['M', tsig(t.key_data_type), tsig(t.value_data_type)]
    if isinstance(t, dt.Alias):
        return ['A', t.namespace.name, t.name]
    if isinstance(t, dt.UserDefined):
        return ['U', t.namespace.name, t.name]
    if isinstance(t, dt.Primitive):
        params = {}
        for k in ('min_value', 'max_value', 'min_length', 'max_length', 'pattern', 'format'):
            v = getattr(t, k, None)
            if v is not None:
                params[k] = v
        return ['P', type(t).__name__, params]
    return ['?', repr(t)]


def vsig(v):
    """Dump of a literal value held by the IR (default, attr)."""
    if isinstance(v, dt.TagRef):
        u = v.union_data_type
        u2 = u
        while isinstance(u2, (dt.Alias, dt.Nullable)):
            u2 = u2.data_type
        return ['tag', getattr(getattr(u2, 'namespace', None), 'name', None), getattr(u2, 'name', None), v.tag_name]
    if isinstance(v, bool):
        return ['bool', v]
    if isinstance(v, int):
        return ['int', v]
    if isinstance(v, float):
        return ['float', v]
    if isinstance(v, bytes):
        return ['str', v.decode('utf-8', 'replace')]
    if isinstance(v, str):
        return ['str', v]
    if v is None:
        return ['null']
    if isinstance(v, datetime.datetime):
        return ['datetime', v.isoformat()]
    return ['?', repr(v)]


def _annsig(a):
    if a is None:
        return None
    d = {'cls': type(a).__name__, 'name': a.name, 'ns': a.namespace.name if a.namespace else None}
    if isinstance(a, dt.Redacted):
        d['regex'] = a.regex
    if isinstance(a, dt.Omitted):
        d['caller'] = a.omitted_caller
    if isinstance(a, dt.CustomAnnotation):
        d['type'] = [a.annotation_type.namespace.name, a.annotation_type.name] if a.annotation_type else None
        d['kwargs'] = {k: vsig(v) for k, v in a.kwargs.items()}
        d['args'] = [vsig(v) for v in a.args]
    return d


def fsig(f):
    d = {'name': f.name, 'type': tsig(f.data_type), 'raw_doc': f.raw_doc, 'doc': f.doc,
         'omitted': f.omitted_caller, 'redactor': _annsig(f.redactor), 'deprecated': bool(f.deprecated),
         'preview': bool(f.preview), 'custom': [_annsig(a) for a in f.custom_annotations]}
    if isinstance(f, dt.StructField):
        d['has_default'] = f.has_default
        d['default'] = vsig(f.default) if f.has_default else None
    if isinstance(f, dt.UnionField):
        d['catch_all'] = bool(f.catch_all)
    return d


def _exsig(examples):
    out = {}
    for label, ex in examples.items():
        out[label] = {'text': ex.text, 'value': json.loads(json.dumps(ex.value, default=repr))}
    return out


def typesig(d):
    o = {'kind': 'struct' if isinstance(d, dt.Struct) else 'union', 'name': d.name, 'ns': d.namespace.name,
         'raw_doc': d.raw_doc, 'doc': d.doc,
         'parent': [d.parent_type.namespace.name, d.parent_type.name] if d.parent_type else None,
         'fields': [fsig(f) for f in d.fields],
         'all_fields': [f.name for f in d.all_fields],
         'examples': _exsig(d.get_examples()),
         # custom annotations that apply anywhere below this type (what the Python backends walk): member name @ annotation name
         'annotations_below': sorted({'%s@%s' % (getattr(x, 'name', '?'), a.name) for x, a in (getattr(d, 'recursive_custom_annotations', None) or ())})}
    if isinstance(d, dt.Struct):
        o['all_required_fields'] = [f.name for f in d.all_required_fields]
        o['all_optional_fields'] = [f.name for f in d.all_optional_fields]
        if d.has_enumerated_subtypes():
            o['subtypes'] = {'catch_all': bool(d.is_catch_all()),
                             'tags': [[f.name, [f.data_type.namespace.name, f.data_type.name]]
                                      for f in d.get_enumerated_subtypes()],
                             'all': [[list(tags), [s.namespace.name, s.name]] for tags, s in d.get_all_subtypes_with_tags()]}
        else:
            o['subtypes'] = None
        o['child_types'] = sorted([s.namespace.name, s.name] for s in d.subtypes)
    else:
        o['closed'] = bool(d.closed)
        o['catch_all_field'] = d.catch_all_field.name if d.catch_all_field else None
    return o


def routesig(r):
    dep = None
    if r.deprecated is not None:
        dep = ['dep', [r.deprecated.by.name, r.deprecated.by.version] if r.deprecated.by else None]
    return {'name': r.name, 'version': r.version, 'deprecated': dep, 'arg': tsig(r.arg_data_type),
            'result': tsig(r.result_data_type), 'error': tsig(r.error_data_type), 'raw_doc': r.raw_doc, 'doc': r.doc,
            'attrs': {k: vsig(v) for k, v in (r.attrs or {}).items()}}


def signature(api):
    out = {'namespaces': list(api.namespaces.keys()), 'ns': {}}
    for name, ns in api.namespaces.items():
        o = {'name': ns.name, 'doc': ns.doc,
             'data_types': [d.name for d in ns.data_types],
             'aliases': [a.name for a in ns.aliases],
             'routes': [[r.name, r.version] for r in ns.routes],
             'annotations': [a.name for a in ns.annotations],
             'annotation_types': [a.name for a in ns.annotation_types],
             'linearized_types': [d.name for d in ns.linearize_data_types()],
             'linearized_aliases': [a.name for a in ns.linearize_aliases()],
             'imports': [n.name for n in ns.get_imported_namespaces(consider_annotations=True,
                                                                    consider_annotation_types=True)],
             'imports_data_type': [n.name for n in ns.get_imported_namespaces(must_have_imported_data_type=True)],
             'by_name': {'data_type': sorted(ns.data_type_by_name), 'alias': sorted(ns.alias_by_name),
                         'route': sorted(ns.route_by_name),
                         'routes': sorted([k, v] for k, rv in ns.routes_by_name.items() for v in rv.at_version)},
             'route_io': [[getattr(getattr(d, 'namespace', None), 'name', None), d.name] for d in ns.get_route_io_data_types()],
             'types': {d.name: typesig(d) for d in ns.data_types},
             'alias': {a.name: {'name': a.name, 'type': tsig(a.data_type), 'raw_doc': a.raw_doc, 'doc': a.doc,
                                'redactor': _annsig(a.redactor), 'custom': [_annsig(c) for c in a.custom_annotations]}
                       for a in ns.aliases},
             'route': {'%s:%d' % (r.name, r.version): routesig(r) for r in ns.routes},
             'annotation': {a.name: _annsig(a) for a in ns.annotations},
             'annotation_type': {a.name: {'raw_doc': a.raw_doc,
                                          'params': [{'name': p.name, 'type': tsig(p.data_type), 'has_default': p.has_default,
                                                      'default': vsig(p.default) if p.has_default else None,
                                                      'raw_doc': p.raw_doc} for p in a.params]}
                                 for a in ns.annotation_types},
             }
        out['ns'][name] = o
    rs = api.route_schema
    out['route_schema'] = [fsig(f) for f in rs.all_fields] if rs is not None else None
    return out


def closure_invariants(api):
    """C02 oracle B: structural invariants that must hold for every accepted input. Returns list of strings."""
    bad = []
    names = list(api.namespaces.keys())
    if names != sorted(names):
        bad.append('namespaces not alphabetical: %r' % names)
    seen_types = set()

    def visit_type(t, where, depth=0):
        if depth > 60:
            bad.append('type nesting too deep / cyclic at %s' % where)
            return
        if isinstance(t, (dt.Nullable, dt.List)):
            visit_type(t.data_type, where, depth + 1)
        elif isinstance(t, dt.Map):
            visit_type(t.key_data_type, where, depth + 1)
            visit_type(t.value_data_type, where, depth + 1)
        elif isinstance(t, dt.Alias):
            ns = t.namespace
            if api.namespaces.get(ns.name) is not ns and ns.name != 'stone_cfg':
                bad.append('alias %s.%s of unregistered namespace (at %s)' % (ns.name, t.name, where))
            elif ns.alias_by_name.get(t.name) is not t:
                bad.append('alias %s.%s not registered in its namespace (at %s)' % (ns.name, t.name, where))
            if t.data_type is None:
                bad.append('alias %s.%s has no target (at %s)' % (ns.name, t.name, where))
            else:
                # acyclic
                cur, n = t, 0
                while isinstance(cur, dt.Alias) and n < 100:
                    cur = cur.data_type
                    n += 1
                if n >= 100:
                    bad.append('alias cycle at %s.%s' % (ns.name, t.name))
                    return
                if id(t) not in seen_types:
                    seen_types.add(id(t))
                    visit_type(t.data_type, where + '>' + t.name, depth + 1)
        elif isinstance(t, dt.UserDefined):
            ns = t.namespace
            if t._is_forward_ref:
                bad.append('forward reference %s.%s reachable (at %s)' % (ns.name, t.name, where))
                return
            if ns.name != 'stone_cfg':
                if api.namespaces.get(ns.name) is not ns:
                    bad.append('type %s.%s of unregistered namespace (at %s)' % (ns.name, t.name, where))
                elif ns.data_type_by_name.get(t.name) is not t:
                    bad.append('type %s.%s not registered in its namespace (at %s)' % (ns.name, t.name, where))
            if id(t) in seen_types:
                return
            seen_types.add(id(t))
            cur, n = t, 0
            while cur is not None and n < 100:
                cur = cur.parent_type
                n += 1
            if n >= 100:
                bad.append('inheritance cycle at %s.%s' % (ns.name, t.name))
                return
            if t.parent_type is not None:
                visit_type(t.parent_type, where + '>' + t.name + '.parent', depth + 1)
            for f in t.fields:
                visit_type(f.data_type, where + '>' + t.name + '.' + f.name, depth + 1)
            if isinstance(t, dt.Struct) and t.has_enumerated_subtypes():
                for f in t.get_enumerated_subtypes():
                    visit_type(f.data_type, where + '>' + t.name + '.subtype', depth + 1)
        elif isinstance(t, dt.Primitive):
            pass
        elif t is None:
            bad.append('missing type at %s' % where)
        else:
            bad.append('unknown type object %r at %s' % (t, where))

    for ns in api.namespaces.values():
        n = [d.name for d in ns.data_types]
        if n != sorted(n):
            bad.append('data types of %s not alphabetical: %r' % (ns.name, n))
        if sorted(n) != sorted(ns.data_type_by_name):
            bad.append('data_type_by_name of %s disagrees with data_types' % ns.name)
        a = [x.name for x in ns.aliases]
        if a != sorted(a):
            bad.append('aliases of %s not alphabetical: %r' % (ns.name, a))
        if sorted(a) != sorted(ns.alias_by_name):
            bad.append('alias_by_name of %s disagrees with aliases' % ns.name)
        r = [(x.name, x.version) for x in ns.routes]
        if r != sorted(r):
            bad.append('routes of %s not sorted by (name, version): %r' % (ns.name, r))
        if len(set(r)) != len(r):
            bad.append('duplicate routes in %s: %r' % (ns.name, r))
        byn = sorted((k, v) for k, rv in ns.routes_by_name.items() for v in rv.at_version)
        if byn != sorted(r):
            bad.append('routes_by_name of %s disagrees with routes: %r vs %r' % (ns.name, byn, r))
        for k, rv in ns.routes_by_name.items():
            for v, route in rv.at_version.items():
                if route.name != k or route.version != v or not any(route is x for x in ns.routes):
                    bad.append('routes_by_name[%s][%s] of %s is not the listed route' % (k, v, ns.name))
        v1 = sorted(x.name for x in ns.routes if x.version == 1)
        if v1 != sorted(ns.route_by_name):
            bad.append('route_by_name of %s disagrees with version-1 routes' % ns.name)
        lin = ns.linearize_data_types()
        if sorted(x.name for x in lin) != sorted(n):
            bad.append('linearize_data_types of %s is not a permutation of data_types' % ns.name)
        pos = {id(x): i for i, x in enumerate(lin)}
        for x in lin:
            if x.parent_type is not None and x.parent_type.namespace is ns and pos.get(id(x.parent_type), -1) > pos[id(x)]:
                bad.append('linearize_data_types of %s puts %s before its parent' % (ns.name, x.name))
        lina = ns.linearize_aliases()
        if sorted(x.name for x in lina) != sorted(a):
            bad.append('linearize_aliases of %s is not a permutation of aliases' % ns.name)
        posa = {id(x): i for i, x in enumerate(lina)}
        for x in lina:
            # every alias that the target expression of x mentions (directly or inside List / Map / Nullable) comes before x
            stack = [x.data_type]
            while stack:
                y = stack.pop()
                if isinstance(y, dt.Alias):
                    if y.namespace is ns and posa.get(id(y), -1) > posa[id(x)]:
                        bad.append('linearize_aliases of %s puts %s before its target' % (ns.name, x.name))
                elif isinstance(y, (dt.List, dt.Nullable)):
                    stack.append(y.data_type)
                elif isinstance(y, dt.Map):
                    stack.append(y.value_data_type)
        for d in ns.data_types:
            visit_type(d, ns.name)
            if d.namespace is not ns:
                bad.append('type %s listed in %s but owned by %s' % (d.name, ns.name, d.namespace.name))
        for al in ns.aliases:
            visit_type(al, ns.name)
        for route in ns.routes:
            for k in ('arg_data_type', 'result_data_type', 'error_data_type'):
                visit_type(getattr(route, k), '%s.%s.%s' % (ns.name, route.name, k))
            if route.deprecated is not None and route.deprecated.by is not None:
                by = route.deprecated.by
                if not any(by is x for nn in api.namespaces.values() for x in nn.routes):
                    bad.append('route %s deprecated by a route that is not listed' % route.name)
    return bad


# ---------------------------------------------------------------------------
# backends

BACKENDS = ['python_types', 'python_type_stubs', 'python_client', 'js_client', 'js_types', 'tsd_client', 'tsd_types',
            'swift_types', 'swift_client', 'obj_c_types', 'obj_c_client']


def backend_module(name):
    return importlib.import_module('stone.backends.' + name)


class Built:
    __slots__ = ('ok', 'exc_type', 'tb', 'identity', 'manifest')

    def __init__(self, ok, exc_type=None, tb=None, identity=None, manifest=None):
        self.ok, self.exc_type, self.tb, self.identity, self.manifest = ok, exc_type, tb, identity, manifest


def _tb_identity(tb_text):
    """Innermost stone frame + exception type from a formatted traceback."""
    lines = [ln for ln in tb_text.strip().split('\n')]
    exc = lines[-1].split(':')[0].strip() if lines else '?'
    inner = None
    for i, ln in enumerate(lines):
        s = ln.strip()
        if s.startswith('File "') and '/stone/' in s and '/verif/' not in s:
            try:
                path = s.split('"')[1]
                fn = s.rsplit(' in ', 1)[1]
                mod = path.split('/stone/', 1)[1].rsplit('.', 1)[0].replace('/', '.')
                inner = 'stone.%s.%s' % (mod, fn)
            except Exception:
                pass
    return exc, inner


def run_backend(api, backend, args, outdir, manifest=False):
    """Runs one built-in backend. Never raises for backend failures."""
    mod = backend_module(backend) if isinstance(backend, str) else backend
    try:
        c = Compiler(api, mod, list(args), outdir, output_manifest=manifest)
        with contextlib.redirect_stdout(io.StringIO()), contextlib.redirect_stderr(io.StringIO()):
            c.build()
        return Built(True, manifest=c.output_manifest() if manifest else None)
    except BackendException as e:
        exc, inner = _tb_identity(e.traceback)
        return Built(False, exc_type=exc, tb=e.traceback[-3000:], identity='crash:%s@%s' % (exc, inner))
    except SystemExit as e:
        return Built(False, exc_type='SystemExit', tb='SystemExit(%r)' % (e.code,), identity='crash:SystemExit@argparse')
    except Exception as e:  # noqa
        from .explore import Hang
        if isinstance(e, Hang):
            raise
        et, inner, _ = stone_frame_identity(e)
        return Built(False, exc_type=et, tb=traceback.format_exc()[-3000:], identity='crash:%s@%s' % (et, inner))


def read_tree(root):
    out = {}
    for dp, dn, fn in os.walk(root):
        for f in fn:
            p = os.path.join(dp, f)
            with open(p, 'rb') as fh:
                out[os.path.relpath(p, root)] = fh.read()
    return out


# ---------------------------------------------------------------------------
# generated python packages

_pkg_counter = [0]


def fresh_pkg_name(prefix='g'):
    _pkg_counter[0] += 1
    return '%s%d_%d' % (prefix, os.getpid(), _pkg_counter[0])


class Package:
    def __init__(self, root, name):
        self.root, self.name = root, name
        self.modules = {}

    def mod(self, ns):
        if ns not in self.modules:
            self.modules[ns] = importlib.import_module('%s.%s' % (self.name, ns))
        return self.modules[ns]

    @property
    def bv(self):
        return importlib.import_module(self.name + '.stone_validators')

    @property
    def ss(self):
        return importlib.import_module(self.name + '.stone_serializers')

    @property
    def bb(self):
        return importlib.import_module(self.name + '.stone_base')

    def close(self):
        for k in [k for k in sys.modules if k == self.name or k.startswith(self.name + '.')]:
            del sys.modules[k]
        importlib.invalidate_caches()
        if self.root in sys.path:
            sys.path.remove(self.root)
        shutil.rmtree(self.root, ignore_errors=True)


def build_python_package(api, extra_backends=(), pkg=None):
    """python_types (+ optionally python_client etc.) into a fresh importable package.

    Returns (Package, None) or (None, Built-with-failure)."""
    root = fresh_dir('pkg')
    pkg = pkg or fresh_pkg_name()
    out = os.path.join(root, pkg)
    b = run_backend(api, 'python_types', ['-p', pkg], out)
    if not b.ok:
        shutil.rmtree(root, ignore_errors=True)
        return None, b
    for name, args in extra_backends:
        b = run_backend(api, name, args, out)
        if not b.ok:
            shutil.rmtree(root, ignore_errors=True)
            return None, b
    init = os.path.join(out, '__init__.py')
    if not os.path.exists(init):
        open(init, 'w').close()
    sys.path.insert(0, root)
    importlib.invalidate_caches()
    return Package(root, pkg), None


def import_error_identity(e):
    tb = traceback.extract_tb(e.__traceback__)
    where = None
    for fr in tb:
        if 'stoneverif-' in fr.filename:
            where = os.path.basename(fr.filename)
    return 'import:%s@%s' % (type(e).__name__, where)


# ---------------------------------------------------------------------------
# the command line, in process

def run_cli(argv, stdin_text=None):
    """Returns (exit_code, api_or_None, stdout, stderr, escape) — escape is (type, inner) for a traceback."""
    import stone.cli as cli
    old = sys.argv, sys.stdin
    sys.argv = ['stone.cli'] + list(argv)
    if stdin_text is not None:
        class S:
            buffer = io.BytesIO(stdin_text.encode('utf-8'))

            def read(self):
                return stdin_text
        sys.stdin = S()
    err, out = io.StringIO(), io.StringIO()
    api, code, escape = None, None, None
    try:
        with contextlib.redirect_stderr(err), contextlib.redirect_stdout(out):
            api = cli.main()
        code = 0
    except SystemExit as e:
        code = e.code if e.code is not None else 0
    except Exception as e:  # noqa
        from .explore import Hang
        if isinstance(e, Hang):
            raise
        et, inner, _ = stone_frame_identity(e)
        escape = (et, inner, traceback.format_exc()[-2000:])
    finally:
        sys.argv, sys.stdin = old
    return code, api, out.getvalue(), err.getvalue(), escape


def run_node(script_path, timeout=60):
    p = subprocess.run(['node', script_path], capture_output=True, text=True, timeout=timeout)
    return p.returncode, p.stdout, p.stderr


# ---------------------------------------------------------------------------
# built-in backends with the arguments they need

CA_SWIFT = json.dumps({"upload": [["upload", [["input", "d", "Data", "doc"]]]],
                       "download": [["download_file", [["dest", "d", "URL", "doc"]]], ["download_memory", []]]})
CA_OBJC = json.dumps({"upload": [["upload", ["", [["input", "d", "NSData *", "doc"]]]]],
                      "download": [["download_file", ["", [["dest", "d", "NSURL *", "doc"]]]], ["download_memory", ["", []]]]})
STYLE_TO_REQUEST = json.dumps({"rpc": "RpcRequest", "upload": "UploadRequest", "download": "DownloadRequest",
                               "download_file": "DownloadRequestFile", "download_memory": "DownloadRequestMemory"})

BACKEND_RUNS = {
    'python_types': ['-p', 'pkg'],
    'python_type_stubs': ['-p', 'pkg'],
    'python_client': ['-m', 'client', '-c', 'C', '-t', 'pkg'],
    'js_client': ['r.js'],
    'js_types': ['t.js'],
    'tsd_types': ['tpl.d.ts'],
    'tsd_client': ['ctpl.d.ts', 'c.d.ts'],
    'swift_types': [],
    'obj_c_types': [],
    'swift_client': ['-m', 'M', '-c', 'C', '-t', 'T', '-y', CA_SWIFT, '-z', STYLE_TO_REQUEST],
    'obj_c_client': ['-m', 'M', '-c', 'C', '-t', 'T', '-y', CA_OBJC, '-z', STYLE_TO_REQUEST, '-w', 'user'],
}
TEMPLATES = {'tpl.d.ts': '/*TYPES*/\n', 'ctpl.d.ts': '/*ROUTES*/\n'}


def backend_outputs(api, names=None, args_override=None, manifest=False):
    """Run built-in backends on (a deep copy is NOT made: backends that strip aliases copy internally) api.

    Returns {name: {'files': {relpath: bytes}} | {'crash': identity, 'tb': text}}"""
    out = {}
    for name in (names or BACKEND_RUNS):
        d = fresh_dir('be')
        try:
            for fn, content in TEMPLATES.items():
                with open(os.path.join(d, fn), 'w') as f:
                    f.write(content)
            args = (args_override or {}).get(name, BACKEND_RUNS[name])
            b = run_backend(api, name, args, d, manifest=manifest)
            if not b.ok:
                out[name] = {'crash': b.identity, 'tb': b.tb}
            else:
                files = read_tree(d)
                for fn in TEMPLATES:
                    files.pop(fn, None)
                out[name] = {'files': files}
                if manifest:
                    out[name]['manifest'] = b.manifest
        finally:
            shutil.rmtree(d, ignore_errors=True)
    return out
