"""The spec construction machine.

A state is a `model.Model`; every action adds one thing and is *guarded by the reference
language rules* (written from docs/lang_ref.rst), so every reachable state is a valid
spec according to the reference.  Names are a function of structure (owner + index), so
that commuting construction orders reach literally the same state and `canon` is the
identity on the normal form (definitions of a file sorted by kind and name).

Feature families (DESIGN 3.2) are switched on per profile:
  ns imports files inherit subtypes unions uinherit aliases wrappers params defaults
  routes docs examples annotations patches
"""
import itertools

from .model import (P, L, M, N, R, VOID, NODEF, TagLit, Field, Tag, Struct, Union, Alias, Route, Annotation, AnnType,
                    Patch, AnnRef, Example, File, Namespace, Model, EMPTY_FILE, mkfield, mktag, mkstruct, mkunion, mkroute,
                    prim, ts)
from . import model as mm

IMPLEMENTED_FLAGS = {'ns', 'imports', 'files', 'inherit', 'subtypes', 'unions', 'uinherit', 'aliases', 'wrappers',
                     'defaults', 'routes', 'versions', 'deprecation', 'docs', 'examples', 'annotations', 'patches', 'attrs'}
LETTERS = 'abcdefghijklmnopqrstuvwxyz'
NS_NAMES = ['na', 'nb', 'nc', 'nd']


class Profile:
    def __init__(self, name, families, depth, **kw):
        self.name = name
        self.families = set(families)
        self.depth = depth
        self.max_ns = kw.get('max_ns', 1)
        self.max_files = kw.get('max_files', 1)
        self.max_structs = kw.get('max_structs', 2)
        self.max_unions = kw.get('max_unions', 1)
        self.max_aliases = kw.get('max_aliases', 1)
        self.max_routes = kw.get('max_routes', 1)
        self.max_fields = kw.get('max_fields', 2)
        self.max_tags = kw.get('max_tags', 2)
        self.max_patches = kw.get('max_patches', 1)
        self.max_examples = kw.get('max_examples', 1)
        self.nest = kw.get('nest', 0)
        self.prims = kw.get('prims', (prim('Int32'), prim('String')))
        self.wrappers = kw.get('wrappers', ('N', 'L', 'M'))
        self.init = kw.get('init')
        self.route_versions = kw.get('route_versions', (1, 2))
        self.route_slots = kw.get('route_slots', 'arg')
        self.schema = kw.get('schema', 0)

    def has(self, fam):
        return fam in self.families


# ---------------------------------------------------------------------------
# helpers over models


def type_defs(model, ns=None):
    return [(n, d) for n, fi, di, d in mm.all_defs(model, ns) if isinstance(d, (Struct, Union, Alias))]


def visible_refs(model, ns_name):
    """R's to every struct/union/alias a definition of namespace ns_name may mention."""
    out = []
    for n, d in type_defs(model, ns_name):
        out.append(R(None, d.name))
    for imp in sorted(mm.imports_of(model, ns_name)):
        for n, d in type_defs(model, imp):
            out.append(R(imp, d.name))
    return out


def hard_deps(model, ns_name, d):
    """User types whose value is necessarily contained in a value of d (cycle => no finite value / unspecified)."""
    out = set()

    def walk(ctx, t):
        if isinstance(t, R):
            r = mm.resolve(model, ctx, t)
            if r is None:
                return
            if isinstance(r[1], Alias):
                walk(r[0], r[1].type)
            else:
                out.add((r[0], r[1].name))
        # N / L / M break the chain

    if isinstance(d, Alias):
        walk(ns_name, d.type)
        return out
    if d.parent is not None:
        walk(ns_name, d.parent)
    for f in mm.own_members(model, ns_name, d):
        if f.type is not None:
            walk(ns_name, f.type)
    return out


def frozen_structs(model):
    out = set()
    for n, fi, di, d in mm.all_defs(model):
        if isinstance(d, Struct) and d.examples:
            for cns, cs in mm.struct_chain(model, n, d):
                out.add((cns, cs.name))
    return out


def reaches(model, start, goal):
    """Is `goal` reachable from `start` ((ns, name)) over hard dependencies?"""
    seen, todo = set(), [start]
    while todo:
        cur = todo.pop()
        if cur == goal:
            return True
        if cur in seen:
            continue
        seen.add(cur)
        r = mm.find_def(model, cur[0], cur[1])
        if r is None:
            continue
        todo.extend(hard_deps(model, cur[0], r[2]))
    return False


def type_ok(model, ns_name, t, position, owner=None):
    """Reference rules for a type expression at a position ('field', 'tag', 'alias', 'route', 'list', 'map', 'inner')."""
    if isinstance(t, P):
        if t.kind == 'Void':
            return position in ('alias', 'route')
        return True
    if isinstance(t, N):
        ns2, u, nullable, _ = mm.strip(model, ns_name, t.inner)
        if nullable:
            return False                      # nullable of nullable (directly or through an alias)
        if isinstance(u, P) and u.kind == 'Void':
            return False                      # Void?
        return type_ok(model, ns_name, t.inner, 'inner', owner)
    if isinstance(t, L):
        return type_ok(model, ns_name, t.item, 'list', owner)
    if isinstance(t, M):
        return type_ok(model, ns_name, t.value, 'map', owner)
    if isinstance(t, R):
        r = mm.resolve(model, ns_name, t)
        if r is None:
            return False
        if t.ns is not None and t.ns not in mm.imports_of(model, ns_name):
            return False
        ns2, u, nullable, via_alias = mm.strip(model, ns_name, t)
        if isinstance(u, P) and u.kind == 'Void' and position in ('field', 'tag', 'list', 'map', 'inner'):
            # alias transparency: a field / tag / element of an alias of Void is a Void field.
            # List(Void)/Map(String, Void) are unspecified in the reference, so never generated either.
            return False
        return True
    return False


def no_new_cycle(model, ns_name, owner_name, t):
    """Adding a member of type t to (ns_name, owner_name) must not create a hard reference cycle."""
    def targets(ctx, t):
        if isinstance(t, R):
            r = mm.resolve(model, ctx, t)
            if r is None:
                return []
            if isinstance(r[1], Alias):
                return targets(r[0], r[1].type)
            return [(r[0], r[1].name)]
        return []
    for tgt in targets(ns_name, t):
        if reaches(model, tgt, (ns_name, owner_name)):
            return False
    return True


def type_menu(model, ns_name, prof, extra_void=False):
    base = list(prof.prims) + visible_refs(model, ns_name)
    out = list(base)
    level = base
    for _ in range(prof.nest if prof.has('wrappers') else 0):
        nxt = []
        for t in level:
            if 'N' in prof.wrappers and not isinstance(t, N):
                nxt.append(N(t))
            if 'L' in prof.wrappers:
                nxt.append(L(t, None, None))
            if 'M' in prof.wrappers:
                nxt.append(M(t))
        out.extend(nxt)
        level = nxt
    if extra_void:
        out.append(VOID)
    return out


# boundary literals of a primitive type expression (valid ones)
INT_RANGES = {'Int32': (-2**31, 2**31 - 1), 'UInt32': (0, 2**32 - 1), 'Int64': (-2**63, 2**63 - 1), 'UInt64': (0, 2**64 - 1)}
F32 = 3.40282e38


def prim_args(t):
    return dict(t.args)


RICH_STRINGS = ['a b', ' lead and trail ', 'tab\tz', 'line\nz', "it's", 'caf\u00e9 \u2603', '%s {0} {}', '#not a comment', 'C:\\temp\\new']


def valid_literals(t, rich=False):
    """Boundary literals that satisfy primitive type t (reference semantics of lang_ref's type table).
    rich=True adds strings with whitespace, escapes, quotes, unicode and format-like text where the length bounds allow."""
    a = prim_args(t)
    k = t.kind
    if k in INT_RANGES:
        lo, hi = INT_RANGES[k]
        lo = max(lo, a.get('min_value', lo))
        hi = min(hi, a.get('max_value', hi))
        out = [lo, hi]
        if lo <= 0 <= hi:
            out.append(0)
        return sorted(set(out))
    if k in ('Float32', 'Float64'):
        lo = a.get('min_value')
        hi = a.get('max_value')
        cands = [0.0, 1.5, -1.5, 2]     # 2: an integer literal for a float field
        if lo is not None:
            cands.append(float(lo))
        if hi is not None:
            cands.append(float(hi))
        return [c for c in cands if (lo is None or c >= lo) and (hi is None or c <= hi)]
    if k == 'Boolean':
        return [True, False]
    if k == 'String':
        lo = a.get('min_length') or 0
        hi = a.get('max_length')
        pat = a.get('pattern')
        if pat is not None:
            return [s for s in PATTERN_MATCHES.get(pat, []) if len(s) >= lo and (hi is None or len(s) <= hi)]
        out = ['x' * lo]
        if hi is not None:
            out.append('y' * hi)
        else:
            out.append('x' * lo + 'q"\\z')
        if rich:
            out += [x for x in RICH_STRINGS if len(x) >= lo and (hi is None or len(x) <= hi)]
        return sorted(set(out))
    if k == 'Bytes':
        return ['YWJj']
    if k == 'Timestamp':
        return TS_VALUES.get(a.get(''), [])
    return []


# whole-string matches for the pattern menu
PATTERN_MATCHES = {'[a-c]+': ['a', 'abc'], 'abc': ['abc'], '^a.c$': ['abc'], 'a|bc': ['a', 'bc'], '\\d{2}': ['12']}
TS_VALUES = {'%Y-%m-%dT%H:%M:%SZ': ['1970-01-01T00:00:00Z', '2015-05-12T15:50:38Z'], '%Y': ['2000']}


def void_tags(model, ns_name, u):
    """Names of the declared void tags of union u (incl. inherited, excl. the implicit catch-all)."""
    out = []
    for cns, cu in reversed(mm.struct_chain(model, ns_name, u)):
        for t in mm.own_members(model, cns, cu):
            if t.type is None:
                out.append(t.name)
    return out


# ---------------------------------------------------------------------------


class SpecMachine:
    def __init__(self, profile):
        self.p = profile

    def init_states(self):
        if self.p.init is not None:
            return list(self.p.init)
        one = Model((Namespace('na', (EMPTY_FILE,)),))
        out = [one]
        if self.p.has('imports') and self.p.max_ns >= 2:
            # start from non-initial states too: the two import directions between two namespaces
            # (file order is na before nb, so both "importer first" and "imported first" occur)
            imp = File(None, ('nb',), ())
            out.append(Model((Namespace('na', (imp,)), Namespace('nb', (EMPTY_FILE,)))))
            out.append(Model((Namespace('na', (EMPTY_FILE,)), Namespace('nb', (File(None, ('na',), ()),)))))
        return out

    def canon(self, m):
        return m

    # -- naming ---------------------------------------------------------------
    @staticmethod
    def _nsl(ns_name):
        return ns_name[1]

    def _next_type_name(self, model, ns_name, kind_letter, cls):
        n = sum(1 for _, d in type_defs(model, ns_name) if isinstance(d, cls))
        return '%s%s%s' % (kind_letter, self._nsl(ns_name), LETTERS[n]), n

    # -- actions --------------------------------------------------------------
    def actions(self, m):
        p = self.p
        out = []
        nss = m.namespaces
        # F1: namespaces and imports
        user_ns = [n for n in nss if n.name != 'stone_cfg']
        if p.has('ns') and len(user_ns) < p.max_ns:
            out.append(('ns+ ' + NS_NAMES[len(user_ns)], mm.add_ns(m, NS_NAMES[len(user_ns)])))
        if p.has('imports'):
            for a in nss:
                for b in nss:
                    if 'stone_cfg' in (a.name, b.name):
                        continue
                    if a.name == b.name or b.name in mm.imports_of(m, a.name):
                        continue
                    if self._import_path(m, b.name, a.name):
                        continue       # would be (transitively) circular
                    for fi in range(len(a.files)):
                        if fi > 0 and not p.has('files'):
                            break
                        m2 = mm.update_file(m, a.name, fi, lambda f: f._replace(imports=tuple(sorted(f.imports + (b.name,)))))
                        out.append(('import+ %s/%d<-%s' % (a.name, fi, b.name), m2))
        # F2: files
        if p.has('files'):
            for i, ns in enumerate(nss):
                if ns.name != 'stone_cfg' and len(ns.files) < p.max_files:
                    ns2 = ns._replace(files=ns.files + (EMPTY_FILE,))
                    out.append(('file+ ' + ns.name, m._replace(namespaces=nss[:i] + (ns2,) + nss[i + 1:])))
        frozen = frozen_structs(m)
        for ns in nss:
            if ns.name == 'stone_cfg':
                continue
            files = range(len(ns.files))
            tdefs = type_defs(m, ns.name)
            structs = [d for _, d in tdefs if isinstance(d, Struct)]
            unions = [d for _, d in tdefs if isinstance(d, Union)]
            aliases = [d for _, d in tdefs if isinstance(d, Alias)]
            # new struct / union / alias / route, in every file of the namespace
            for fi in files:
                if len(structs) < p.max_structs:
                    nm, _ = self._next_type_name(m, ns.name, 'S', Struct)
                    out.append(('struct+ %s/%d %s' % (ns.name, fi, nm),
                                mm.add_def(m, ns.name, fi, mkstruct(nm, doc='d'))))
                if p.has('unions') and len(unions) < p.max_unions:
                    nm, _ = self._next_type_name(m, ns.name, 'U', Union)
                    out.append(('union+ %s/%d %s' % (ns.name, fi, nm), mm.add_def(m, ns.name, fi, mkunion(nm, doc='d'))))
                    out.append(('union_closed+ %s/%d %s' % (ns.name, fi, nm),
                                mm.add_def(m, ns.name, fi, mkunion(nm, closed=True, doc='d'))))
                if p.has('aliases') and len(aliases) < p.max_aliases:
                    nm, _ = self._next_type_name(m, ns.name, 'A', Alias)
                    for t in type_menu(m, ns.name, p, extra_void=True):
                        if type_ok(m, ns.name, t, 'alias'):
                            out.append(('alias+ %s/%d %s=%r' % (ns.name, fi, nm, t), mm.add_def(m, ns.name, fi, Alias(nm, t, None, ()))))
                if p.has('routes'):
                    routes = [d for _, _, _, d in mm.all_defs(m, ns.name) if isinstance(d, Route)]
                    if len(routes) < p.max_routes:
                        out.extend(self._route_actions(m, ns, fi, routes))
            # members
            for s in structs:
                if (ns.name, s.name) in frozen:
                    continue      # has (or is inherited by a struct that has) examples: its field list is settled
                nfields = len(s.fields)
                if nfields < p.max_fields:
                    fname = 'f%s%d' % (s.name[1:], nfields)
                    for t in type_menu(m, ns.name, p):
                        if type_ok(m, ns.name, t, 'field') and no_new_cycle(m, ns.name, s.name, t):
                            m2 = mm.update_def(m, ns.name, s.name, lambda d, t=t: self._add_field(d, mkfield(fname, t)))
                            out.append(('field+ %s.%s %s:%r' % (ns.name, s.name, fname, t), m2))
                if p.has('defaults'):
                    out.extend(self._default_actions(m, ns, s))
                if p.has('inherit') and s.parent is None and s.subtypes is None:
                    out.extend(self._extends_actions(m, ns, s))
                if p.has('subtypes') and s.parent is None:
                    out.extend(self._subtype_actions(m, ns, s))
            for u in unions:
                if len(u.tags) < p.max_tags:
                    tname = 't%s%d' % (u.name[1:], len(u.tags))
                    m2 = mm.update_def(m, ns.name, u.name, lambda d: d._replace(tags=d.tags + (mktag(tname),)))
                    out.append(('tag+ %s.%s %s' % (ns.name, u.name, tname), m2))
                    for t in type_menu(m, ns.name, p):
                        if type_ok(m, ns.name, t, 'tag') and no_new_cycle(m, ns.name, u.name, t):
                            m2 = mm.update_def(m, ns.name, u.name, lambda d, t=t: d._replace(tags=d.tags + (mktag(tname, t),)))
                            out.append(('tag+ %s.%s %s:%r' % (ns.name, u.name, tname, t), m2))
                if p.has('uinherit') and u.parent is None:
                    for r in visible_refs(m, ns.name):
                        tgt = mm.resolve(m, ns.name, r)
                        if not isinstance(tgt[1], Union) or (tgt[0], tgt[1].name) == (ns.name, u.name):
                            continue
                        if u.closed and not tgt[1].closed:
                            continue          # closed union cannot extend an open one
                        if reaches(m, (tgt[0], tgt[1].name), (ns.name, u.name)):
                            continue
                        m2 = mm.update_def(m, ns.name, u.name, lambda d, r=r: d._replace(parent=r))
                        out.append(('uextends+ %s.%s<%r' % (ns.name, u.name, r), m2))
        out.extend(self.extra_actions(m))
        return out

    def extra_actions(self, m):
        return []

    @staticmethod
    def _add_field(d, f):
        return d._replace(fields=d.fields + (f,))

    def _import_path(self, m, a, b):
        seen, todo = set(), [a]
        while todo:
            c = todo.pop()
            if c == b:
                return True
            if c in seen:
                continue
            seen.add(c)
            todo.extend(mm.imports_of(m, c))
        return False

    def _route_actions(self, m, ns, fi, routes):
        p = self.p
        out = []
        # route names: r<ns><i>; a new version of the first route, or a new name
        names = sorted({r.name for r in routes})
        cands = []
        new_name = 'r%s%s' % (self._nsl(ns.name), LETTERS[len(names)])
        cands.append((new_name, 1))
        if p.has('versions'):
            if names:
                have = {r.version for r in routes if r.name == names[0]}
                for v in p.route_versions:
                    if v not in have:
                        cands.append((names[0], v))
                        break
            else:
                cands.append((new_name, 2))
        menu = [t for t in type_menu(m, ns.name, p, extra_void=True) if type_ok(m, ns.name, t, 'route')]
        for name, ver in cands:
            # vary one of arg/result/error at a time over the menu (others Void): every type reaches every slot
            seen = set()
            for slot in (range(3) if p.route_slots == 'all' else (0,)):
                for t in menu:
                    sig = [VOID, VOID, VOID]
                    sig[slot] = t
                    sig = tuple(sig)
                    if sig in seen:
                        continue
                    seen.add(sig)
                    r = mkroute(name, ver, *sig)
                    out.append(('route+ %s/%d %s:%d%r' % (ns.name, fi, name, ver, sig), mm.add_def(m, ns.name, fi, r)))
            if p.has('deprecation'):
                out.append(('route+ %s/%d %s:%d deprecated' % (ns.name, fi, name, ver),
                            mm.add_def(m, ns.name, fi, mkroute(name, ver, deprecated=True))))
                for r0 in routes:
                    out.append(('route+ %s/%d %s:%d deprecated-by %s:%d' % (ns.name, fi, name, ver, r0.name, r0.version),
                                mm.add_def(m, ns.name, fi, mkroute(name, ver, deprecated=(r0.name, r0.version)))))
        return out

    def _default_actions(self, m, ns, s):
        out = []
        for i, f in enumerate(s.fields):
            if f.default != NODEF:
                continue
            ns2, u, nullable, _ = mm.strip(m, ns.name, f.type)
            if nullable:
                continue
            lits = []
            if isinstance(u, P):
                lits = valid_literals(u)
            elif isinstance(u, R):
                r = mm.resolve(m, ns2, u)
                if r is not None and isinstance(r[1], Union):
                    lits = [TagLit(t) for t in void_tags(m, r[0], r[1])]
            for v in lits:
                f2 = f._replace(default=v)
                m2 = mm.update_def(m, ns.name, s.name, lambda d, i=i, f2=f2: d._replace(fields=d.fields[:i] + (f2,) + d.fields[i + 1:]))
                out.append(('default+ %s.%s.%s=%r' % (ns.name, s.name, f.name, v), m2))
        return out

    def _extends_actions(self, m, ns, s):
        out = []
        for r in visible_refs(m, ns.name):
            tgt = mm.resolve(m, ns.name, r)
            pns, pd = tgt
            if not isinstance(pd, Struct) or (pns, pd.name) == (ns.name, s.name):
                continue
            if pd.subtypes is not None:
                continue                  # all children of an enumerating struct must be enumerated: see subtype+
            if self._is_enumerated_leaf(m, pns, pd):
                continue                  # a leaf of a subtype tree cannot be extended
            if reaches(m, (pns, pd.name), (ns.name, s.name)):
                continue
            chain_len = len(mm.struct_chain(m, pns, pd))
            if chain_len >= 4:
                continue
            m2 = mm.update_def(m, ns.name, s.name, lambda d, r=r: d._replace(parent=r))
            out.append(('extends+ %s.%s<%r' % (ns.name, s.name, r), m2))
        return out

    @staticmethod
    def _is_enumerated_leaf(m, ns_name, s):
        if s.parent is None:
            return False
        r = mm.resolve(m, ns_name, s.parent)
        return r is not None and isinstance(r[1], Struct) and r[1].subtypes is not None

    def _subtype_actions(self, m, ns, root):
        """subtype+ root child: child (a parentless, childless, non-enumerating struct of the same namespace or an
        importing... kept local) becomes an enumerated subtype of root."""
        out = []
        if mm.children_of(m, ns.name, root.name) and root.subtypes is None:
            return out                    # has plain children: enumerating now would have to list them all; keep simple
        if root.parent is not None:
            return out
        nsub = len(root.subtypes[1]) if root.subtypes else 0
        if nsub >= 2:
            return out
        for n2, d in type_defs(m, ns.name):
            if not isinstance(d, Struct) or d.name == root.name or d.parent is not None or d.subtypes is not None:
                continue
            if mm.children_of(m, ns.name, d.name) or d.examples:
                continue
            if reaches(m, (ns.name, root.name), (ns.name, d.name)):
                continue
            tag = 'k%s' % d.name[1:]
            closeds = (False, True) if root.subtypes is None else (root.subtypes[0],)
            for closed in closeds:
                subs = (root.subtypes[1] if root.subtypes else ()) + ((tag, R(None, d.name)),)
                m2 = mm.update_def(m, ns.name, root.name, lambda x, subs=subs, closed=closed: x._replace(subtypes=(closed, subs)))
                m2 = mm.update_def(m2, ns.name, d.name, lambda x: x._replace(parent=R(None, root.name)))
                out.append(('subtype+ %s.%s>%s%s' % (ns.name, root.name, d.name, ' closed' if closed else ''), m2))
        return out
