"""model -> Stone text.

`render(model)` returns [(path, text)] in the *reference layout*: files in model order,
definitions in model order, four-space indents, no comments, one blank line between
definitions, parenthesised lists on one line.  `render_file_lines` additionally returns
per-line metadata (whether a line lies inside a multi-line doc string) which the layout
variants of C11 need.
"""
from .model import (P, L, M, N, R, NODEF, TagLit, Field, Tag, Struct, Union, Alias, Route, Annotation, AnnType,
                    Patch, AnnRef)

IND = '    '


def lit(v):
    if v is None:
        return 'null'
    if v is True:
        return 'true'
    if v is False:
        return 'false'
    if isinstance(v, TagLit):
        return v.tag
    if isinstance(v, int):
        return str(v)
    if isinstance(v, float):
        return render_float(v)
    if isinstance(v, str):
        return '"' + v.replace('\\', '\\\\').replace('"', '\\"').replace('\n', '\\n').replace('\t', '\\t') + '"'
    if isinstance(v, (list, tuple)) and not isinstance(v, RawMap):
        return '[' + ', '.join(lit(x) for x in v) + ']'
    if isinstance(v, RawMap):
        return '{' + ', '.join('%s: %s' % (lit(k), lit(x)) for k, x in v.items) + '}'
    raise TypeError('cannot render literal %r' % (v,))


class RawMap:
    """An example map literal: ordered (key, value) pairs; hashable."""

    def __init__(self, items):
        self.items = tuple(items)

    def __hash__(self):
        return hash(('RawMap', self.items))

    def __eq__(self, o):
        return isinstance(o, RawMap) and o.items == self.items

    def __repr__(self):
        return 'RawMap(%r)' % (self.items,)

    def __lt__(self, o):
        return repr(self) < repr(o)


def render_float(x):
    r = repr(float(x))
    if 'e' in r:
        m, e = r.split('e')
        r = '%se%d' % (m, int(e))
    if r in ('inf', '-inf', 'nan'):
        raise ValueError('unrenderable float')
    return r


def texpr(t):
    if isinstance(t, P):
        if not t.args:
            return t.kind
        parts = []
        for k, v in t.args:
            parts.append(lit(v) if k == '' else '%s=%s' % (k, lit(v)))
        return '%s(%s)' % (t.kind, ', '.join(parts))
    if isinstance(t, L):
        parts = [texpr(t.item)]
        if t.min_items is not None:
            parts.append('min_items=%s' % lit(t.min_items))
        if t.max_items is not None:
            parts.append('max_items=%s' % lit(t.max_items))
        return 'List(%s)' % ', '.join(parts)
    if isinstance(t, M):
        return 'Map(String, %s)' % texpr(t.value)
    if isinstance(t, N):
        return texpr(t.inner) + '?'
    if isinstance(t, R):
        return (t.ns + '.' if t.ns else '') + t.name
    if isinstance(t, RawType):
        return t.text
    raise TypeError('cannot render type %r' % (t,))


class RawType:
    """Escape hatch used by fault actions: literal text in a type position."""

    def __init__(self, text):
        self.text = text

    def __hash__(self):
        return hash(('RawType', self.text))

    def __eq__(self, o):
        return isinstance(o, RawType) and o.text == self.text

    def __repr__(self):
        return 'RawType(%r)' % self.text


class Lines:
    def __init__(self):
        self.lines = []      # (text, in_doc_continuation)

    def add(self, indent, text):
        self.lines.append((IND * indent + text, False))

    def doc(self, indent, text):
        if text is None:
            return
        parts = ('"' + text.replace('\\', '\\\\').replace('"', '\\"') + '"').split('\n')
        for i, p in enumerate(parts):
            # continuation lines carry the current indentation, which the lexer strips again
            self.lines.append(((IND * indent + p) if p or i == 0 else '', i > 0))

    def blank(self):
        self.lines.append(('', False))


def annref(a):
    if isinstance(a, AnnRef):
        return '@' + (a.ns + '.' if a.ns else '') + a.name
    return '@' + a


def _field(out, ind, f, nested=None):
    if isinstance(f, Tag):
        head = f.name if f.type is None else '%s %s' % (f.name, texpr(f.type))
    else:
        head = '%s %s' % (f.name, texpr(f.type))
        if f.default != NODEF:
            head += ' = ' + lit(f.default)
    out.add(ind, head)
    for a in f.anns:
        out.add(ind + 1, annref(a))
    out.doc(ind + 1, f.doc)
    if nested is not None:
        # lang_ref "Nested Definitions": the type of the field is defined inline, without its name
        d, pick = nested
        _def(out, d, base=ind + 1, inline=pick, anonymous=True)


def _examples(out, ind, examples):
    for ex in examples:
        out.blank()
        out.add(ind, 'example ' + ex.label)
        out.doc(ind + 1, ex.text)
        for k, v in ex.fields:
            out.add(ind + 1, '%s = %s' % (k, lit(v)))


def _def(out, d, base=0, inline=None, anonymous=False):
    """inline: None, or a function (owner definition, field) -> (nested definition, inline) | None choosing definitions that are
    rendered nested under a struct field instead of at the top level."""
    if isinstance(d, Struct):
        out.add(base, 'struct%s%s' % ('' if anonymous else ' ' + d.name, ' extends ' + texpr(d.parent) if d.parent is not None else ''))
        out.doc(base + 1, d.doc)
        if d.subtypes is not None:
            closed, subs = d.subtypes
            out.add(base + 1, 'union_closed' if closed else 'union')
            for tag, ref in subs:
                out.add(base + 2, '%s %s' % (tag, texpr(ref)))
        for f in d.fields:
            _field(out, base + 1, f, inline(d, f) if inline is not None else None)
        _examples(out, base + 1, d.examples)
    elif isinstance(d, Union):
        out.add(base, '%s%s%s' % ('union_closed' if d.closed else 'union', '' if anonymous else ' ' + d.name,
                                  ' extends ' + texpr(d.parent) if d.parent is not None else ''))
        out.doc(base + 1, d.doc)
        for t in d.tags:
            _field(out, base + 1, t, inline(d, t) if (inline is not None and t.type is not None) else None)
        _examples(out, base + 1, d.examples)
    elif isinstance(d, Alias):
        out.add(0, 'alias %s = %s' % (d.name, texpr(d.type)))
        for a in d.anns:
            out.add(1, annref(a))
        out.doc(1, d.doc)
    elif isinstance(d, Route):
        head = 'route %s%s(%s, %s, %s)' % (d.name, ':%s' % lit(d.version) if d.version != 1 else '',
                                          texpr(d.arg), texpr(d.result), texpr(d.error))
        if d.deprecated is True:
            head += ' deprecated'
        elif d.deprecated:
            n, v = d.deprecated
            head += ' deprecated by %s%s' % (n, ':%s' % lit(v) if v != 1 else '')
        out.add(0, head)
        out.doc(1, d.doc)
        if d.attrs:
            out.add(1, 'attrs')
            for k, v in d.attrs:
                out.add(2, '%s = %s' % (k, lit(v)))
    elif isinstance(d, Annotation):
        parts = [lit(a) for a in d.args] + ['%s=%s' % (k, lit(v)) for k, v in d.kwargs]
        out.add(0, 'annotation %s = %s%s(%s)' % (d.name, d.kind_ns + '.' if d.kind_ns else '', d.kind, ', '.join(parts)))
    elif isinstance(d, AnnType):
        out.add(0, 'annotation_type %s' % d.name)
        out.doc(1, d.doc)
        for f in d.params:
            _field(out, 1, f)
    elif isinstance(d, Patch):
        out.add(0, 'patch %s %s' % (d.kind, d.target))
        for f in d.fields:
            _field(out, 1, f)
        _examples(out, 1, d.examples)
    elif isinstance(d, RawDef):
        for ln in d.text.split('\n'):
            out.lines.append((ln, False))
    else:
        raise TypeError('cannot render definition %r' % (d,))


class RawDef:
    """Escape hatch for fault actions: literal definition text."""

    def __init__(self, text, name='~raw'):
        self.text = text
        self.name = name

    def __hash__(self):
        return hash(('RawDef', self.text))

    def __eq__(self, o):
        return isinstance(o, RawDef) and o.text == self.text

    def __repr__(self):
        return 'RawDef(%r)' % self.text


def inline_candidates(f):
    """(owner name, field name, nested definition name): struct fields whose type is a bare or nullable local reference to a
    struct / union defined in the same file (lang_ref: a nested definition takes its name from the field's type)."""
    by_name = {d.name: d for d in f.defs if isinstance(d, (Struct, Union))}
    out = []
    for d in f.defs:
        if not isinstance(d, (Struct, Union)):
            continue
        for fld in (d.fields if isinstance(d, Struct) else d.tags):
            if fld.type is None:
                continue
            t = fld.type.inner if isinstance(fld.type, N) else fld.type
            if isinstance(t, R) and t.ns is None and t.name in by_name and t.name != d.name:
                out.append((d.name, fld.name, t.name))
    return out


def render_file_lines(ns_name, f, def_order=None, inline=None):
    """inline: None | 'all' | (owner name, field name): which definitions are rendered nested under the field that uses them."""
    out = Lines()
    out.add(0, 'namespace ' + ns_name)
    out.doc(1, f.doc)
    if f.imports:
        out.blank()
        for i in f.imports:
            out.add(0, 'import ' + i)
    defs = f.defs if def_order is None else [f.defs[i] for i in def_order]
    pick = None
    nested_names = set()
    if inline is not None:
        by_name = {d.name: d for d in f.defs if isinstance(d, (Struct, Union))}
        cands = inline_candidates(f)
        chosen = {}        # (owner, field) -> nested name; every definition is nested at most once and never inside itself
        if inline == 'all':
            # greedy in file order; a definition that nests others cannot be nested under one of them (no cycles): keep a forest
            parent_of = {}
            for owner, fname, nm in cands:
                if nm in parent_of:
                    continue
                # walk up from owner: nm must not be an ancestor of owner
                cur, ok = owner, True
                while cur in parent_of:
                    cur = parent_of[cur]
                    if cur == nm:
                        ok = False
                        break
                if ok and owner != nm:
                    parent_of[nm] = owner
                    chosen[(owner, fname)] = nm
        else:
            for owner, fname, nm in cands:
                if (owner, fname) == tuple(inline):
                    chosen[(owner, fname)] = nm
        nested_names = set(chosen.values())

        def pick(owner_def, fld):
            nm = chosen.get((owner_def.name, fld.name))
            return (by_name[nm], pick) if nm is not None else None
    for d in defs:
        if getattr(d, 'name', None) in nested_names and isinstance(d, (Struct, Union)):
            continue
        out.blank()
        _def(out, d, inline=pick)
    return out.lines


def render_file(ns_name, f, def_order=None, inline=None):
    return '\n'.join(t for t, _ in render_file_lines(ns_name, f, def_order, inline)) + '\n'


def file_path(ns_name, fi):
    return '%s_%d.stone' % (ns_name, fi) if fi else '%s.stone' % ns_name


def render(model):
    out = []
    for ns in model.namespaces:
        for fi, f in enumerate(ns.files):
            out.append((file_path(ns.name, fi), render_file(ns.name, f)))
    return out


def render_inline_variants(model):
    """[(label, specs)]: the same model with definitions nested under the struct fields that use them - every eligible
    definition at once, and every single (owner, field) site on its own."""
    out = []
    sites = [(ns.name, fi, c) for ns in model.namespaces for fi, f in enumerate(ns.files) for c in inline_candidates(f)]
    if not sites:
        return out

    def specs_with(choice):
        res = []
        for ns in model.namespaces:
            for fi, f in enumerate(ns.files):
                res.append((file_path(ns.name, fi), render_file(ns.name, f, inline=choice(ns.name, fi))))
        return res
    out.append(('inline:all', specs_with(lambda n, fi: 'all')))
    if len(sites) > 1:
        for nsn, fi, (owner, fname, nm) in sites:
            out.append(('inline:%s/%d:%s.%s=%s' % (nsn, fi, owner, fname, nm), specs_with(lambda n, i, nsn=nsn, fi=fi, owner=owner, fname=fname: (owner, fname) if (n, i) == (nsn, fi) else None)))
    return out
