"""Text-level input spaces of C03 (and, for the closure invariants, C02).

1. token-level deviations of valid base specs, applied at *every* token position;
2. all token strings over a fixed token alphabet up to a length bound, after a namespace header;
3. the language reference's own snippets and all their token prefixes;
4. ordered pairs of texts from a pool with one member per outcome class.

The tokenizer here is written for the purpose (it is not stone's lexer).
"""
import itertools
import os
import re

from . import render
from .model import (Model, Namespace, File, Alias, AnnRef, Annotation, AnnType, Patch, Example, TagLit, R, N, L, M, VOID,
                    mkfield, mktag, mkstruct, mkunion, mkroute, prim, ts)

TOKEN_RE = re.compile(r'''
    (?P<ws>[ \t]+)
  | (?P<nl>\n)
  | (?P<comment>\#[^\n]*)
  | (?P<string>"(?:[^"\\]|\\.)*")
  | (?P<float>-?\d+\.\d*(?:e-?\d+)?|-?\d+e-?\d+)
  | (?P<int>-?\d+)
  | (?P<id>[A-Za-z_][A-Za-z0-9_-]*)
  | (?P<punct>[()\[\]{},=?.:@*/])
  | (?P<other>.)
''', re.X | re.S)

KEYWORDS = ['alias', 'annotation', 'annotation_type', 'attrs', 'by', 'deprecated', 'doc', 'error', 'example', 'extends', 'import',
            'namespace', 'patch', 'route', 'struct', 'union', 'union_closed']
PUNCT = list('(),=?.:[]{}@*')


def tokenize(text):
    return [(m.lastgroup, m.group(0)) for m in TOKEN_RE.finditer(text)]


def untokenize(toks):
    return ''.join(t for _, t in toks)


REPLACEMENTS = [('id', 'zz'), ('int', '3'), ('int', '-1'), ('float', '1.5'), ('string', '"s"'), ('id', 'true'), ('id', 'null'),
                ('id', 'Int32'), ('id', 'Void'), ('id', 'List'), ('nl', '\n')] + \
               [('id', k) for k in KEYWORDS] + [('punct', p) for p in PUNCT]
STRAYS = ['$', '\t', '"', '\\', 'é', '\x00', '#', "'", ';']


def deviations(text, other_texts=()):
    """Every single token-level deviation of `text`: yields (label, new_text)."""
    toks = tokenize(text)
    sig = [i for i, (k, _) in enumerate(toks) if k not in ('ws', 'nl')]
    for n, i in enumerate(sig):
        k, t = toks[i]
        pre, post = toks[:i], toks[i + 1:]
        yield 'delete@%d' % n, untokenize(pre + post)
        yield 'duplicate@%d' % n, untokenize(pre + [(k, t), ('ws', ' '), (k, t)] + post)
        if n + 1 < len(sig):
            j = sig[n + 1]
            sw = list(toks)
            sw[i], sw[j] = sw[j], sw[i]
            yield 'swap@%d' % n, untokenize(sw)
        for rk, rt in REPLACEMENTS:
            if rt != t:
                yield 'replace@%d:%r' % (n, rt), untokenize(pre + [(rk, rt)] + post)
        yield 'truncate@%d' % n, untokenize(toks[:i + 1])
        yield 'truncate-nl@%d' % n, untokenize(toks[:i + 1]) + '\n'
        for s in STRAYS:
            yield 'stray@%d:%r' % (n, s), untokenize(pre + [(k, t), ('other', s)] + post)
        for oi, other in enumerate(other_texts):
            otoks = tokenize(other)
            osig = [x for x, (kk, _) in enumerate(otoks) if kk not in ('ws', 'nl')]
            if n < len(osig):
                yield 'splice@%d+%d' % (n, oi), untokenize(toks[:i + 1]) + untokenize(otoks[osig[n]:])
    lines = text.split('\n')
    for li, ln in enumerate(lines):
        if not ln.strip():
            continue
        for lab, new in (('indent+4', '    ' + ln), ('indent+2', '  ' + ln), ('indent+1', ' ' + ln), ('indent+tab', '\t' + ln),
                         ('indent-4', ln[4:] if ln.startswith('    ') else None),
                         ('indent-2', ln[2:] if ln.startswith('  ') else None)):
            if new is not None:
                yield '%s@line%d' % (lab, li), '\n'.join(lines[:li] + [new] + lines[li + 1:])
        yield 'dropline@%d' % li, '\n'.join(lines[:li] + lines[li + 1:])
        yield 'dupline@%d' % li, '\n'.join(lines[:li] + [ln, ln] + lines[li + 1:])


# ---------------------------------------------------------------------------
# base specs: every construct kind at least once

BASE_TEXTS = [
    ('kitchen', '''namespace na
    "ns doc"

import nb

annotation Om = Omitted("alpha")
annotation Rd = RedactedBlot("x(y)")
annotation Dp = Deprecated()

annotation_type Noteworthy
    "doc"
    importance String = "low"

annotation Nw = Noteworthy(importance="high")

alias Al = String(min_length=1, pattern="a")
    @Rd
    "alias doc"

struct Base
    "base :type:`Kid` :field:`b` :val:`null` :link:`tt http://x`"
    union
        kid Kid
    b Int32 = 3
        @Dp
        "field doc"
    l List(nb.Foreign, min_items=1)?

    example default
        kid = default

struct Kid extends Base
    k Al
        @Nw
    j Int32(min_value=1, max_value=5)?
    m Map(String, List(Float64(max_value=2.5)))
    u U = v
    example default
        b = 1
        l = null
        k = "a"
        m = {"x": [1.5, 2]}

    example second
        "second example"
        b = 2
        k = "a"
        m = {}

union U
    v
        "void doc"
    t Timestamp("%Y")
        @Om
    s Kid?

    example ex
        t = "2000"

    example ex2
        s = null

union C extends U
    c Bytes

patch struct Kid
    p Boolean = true

    example default
        p = false

    example second
        p = true

route r:2(Base, U, Void) deprecated by r
    "route doc :route:`r`"
    attrs
        a = "x"
        n = 3

route r(Void, Void, Void) deprecated
'''),
    ('nb', 'namespace nb\n\nstruct Foreign\n    x UInt64(max_value=5)\n\n    example default\n        x = 1\n'),
    ('cfg', 'namespace stone_cfg\n\nstruct Route\n    a String = "d"\n    n Int32?\n'),
]

SMALL_BASES = [
    'namespace nn\n\nannotation R = RedactedHash()\n\nalias M = List(M)\n    @R\n\nalias K = Map(String, K)\n\nstruct S\n    g List(K)?\n        @R\n    h Float64(min_value=0, max_value=1.5) = 1\n',
    'namespace nn\n\nstruct S\n    f Int32 = 1\n        "doc"\n\nunion U\n    v\n    t S?\n\nroute r(S, U, Void)\n',
    'namespace nn\n\nalias A = List(String)?\n\nstruct P\n    union\n        c C\n    x A\n\nstruct C extends P\n    y Map(String, Int32)\n'
    '\n    example default\n        x = ["q"]\n        y = {"k": 1}\n',
    'namespace nn\n\nannotation O = Omitted("c")\n\nunion_closed U\n    t String\n        @O\n\npatch union_closed U\n    w\n\nroute r:2(Void, U, Void) deprecated by q\n'
    '\nroute q(Void, Void, Void)\n    "doc"\n',
]


def base_sets():
    """[(name, [(path, text)], index of the file that is mutated)]"""
    kitchen = [(n + '.stone', t) for n, t in BASE_TEXTS]
    out = [('kitchen', kitchen, 0)]
    for i, t in enumerate(SMALL_BASES):
        out.append(('small%d' % i, [('a.stone', t)], 0))
    return out


# ---------------------------------------------------------------------------
# all token strings

ALPHABET = ['struct', 'union', 'route', 'alias', 'namespace', 'import', 'extends', 'deprecated', 'attrs', 'example', 'patch',
            'annotation', 'S', 'x', 'Int32', 'Void', '3', '"s"', 'null', '(', ')', ',', '=', '?', '.', ':', '@', '[', '{']


def token_strings(maxlen):
    for n in range(1, maxlen + 1):
        for combo in itertools.product(ALPHABET, repeat=n):
            yield combo


def token_string_layouts(combo):
    yield 'line', 'namespace n\n' + ' '.join(combo) + '\n'
    # one token per line with increasing legal indentation
    yield 'stairs', 'namespace n\n' + ''.join('    ' * i + t + '\n' for i, t in enumerate(combo))
    yield 'body', 'namespace n\nstruct T\n' + '    ' + ' '.join(combo) + '\n'


# ---------------------------------------------------------------------------
# lang_ref.rst snippets


def langref_snippets(repo):
    path = os.path.join(repo, 'docs', 'lang_ref.rst')
    with open(path, encoding='utf-8') as f:
        lines = f.read().split('\n')
    out = []
    i = 0
    while i < len(lines):
        if lines[i].rstrip().endswith('::'):
            j = i + 1
            while j < len(lines) and not lines[j].strip():
                j += 1
            block = []
            while j < len(lines) and (lines[j].startswith('    ') or lines[j].startswith('   ') or not lines[j].strip()):
                block.append(lines[j])
                j += 1
            while block and not block[-1].strip():
                block.pop()
            if block:
                ind = min(len(b) - len(b.lstrip()) for b in block if b.strip())
                out.append('\n'.join(b[ind:] for b in block) + '\n')
            i = j
        else:
            i += 1
    return out


# ---------------------------------------------------------------------------


def items(tier, repo=None):
    """Yield (label, specs)."""
    from . import impl
    repo = repo or impl.REPO
    bases = base_sets()
    others = [b[1][b[2]][1] for b in bases]
    for name, specs, idx in bases:
        yield 'base:%s' % name, specs
        path, text = specs[idx]
        spl = [o for o in others if o != text][:2]
        for label, new in deviations(text, spl):
            yield '%s|%s' % (name, label), specs[:idx] + [(path, new)] + specs[idx + 1:]
    maxlen = 3 if tier == 'quick' else 4
    for combo in token_strings(maxlen):
        layouts = list(token_string_layouts(combo))
        if len(combo) == maxlen and maxlen == 4:
            layouts = layouts[:1]
        for lay, text in layouts:
            yield 'tokens:%s:%s' % (lay, ' '.join(combo)), [('n.stone', text)]
    for si, snip in enumerate(langref_snippets(repo)):
        yield 'langref:%d' % si, [('s.stone', snip)]
        if not snip.lstrip().startswith('namespace'):
            yield 'langref+ns:%d' % si, [('s.stone', 'namespace example\n\n' + snip)]
        toks = tokenize(snip)
        sig = [i for i, (k, _) in enumerate(toks) if k not in ('ws', 'nl')]
        for n, i in enumerate(sig):
            yield 'langref-prefix:%d@%d' % (si, n), [('s.stone', 'namespace example\n\n' + untokenize(toks[:i + 1]) + '\n')]
    for it in docref_items(tier):
        yield it
    for it in clash_items():
        yield it
    for it in literal_matrix_items(tier):
        yield it
    for it in qualifier_items():
        yield it
    for it in builtin_annotation_items():
        yield it
    for label, _, specs in route_head_items():
        yield label, specs
    if tier == 'thorough':
        # pairs of deviations on the small bases
        for bi, text in enumerate(SMALL_BASES):
            firsts = list(deviations(text))
            step = max(1, len(firsts) // 120)
            for l1, t1 in firsts[::step]:
                for l2, t2 in deviations(t1):
                    yield 'small%d|%s|%s' % (bi, l1, l2), [('a.stone', t2)]


# ---------------------------------------------------------------------------
# documentation references: every tag x every dotted value over a small vocabulary x every doc site

DOCREF_WB = 'namespace wb\n\nstruct T\n    deep Int32\n\nalias Alt = T\n\nalias Alt2 = Alt\n\nalias AltN = T?\n\nalias Prim = Int32\n\nroute rr(T, Void, Void)\n\nroute rr:2(T, Void, Void)\n'
DOCREF_SEGMENTS = ['', 'wb', 'nope', 'T', 'Alt', 'Alt2', 'AltN', 'Prim', 'rr', 'Loc', 'LocAl', 'PrimAl', 'rloc', 'x', 'deep', 'Uni', 'tv']
DOCREF_SITES = ['namespace', 'struct', 'field', 'union', 'tag', 'alias', 'route']


def docref_spec(site, ref):
    doc = '"See %s."' % ref
    d = {k: '' for k in DOCREF_SITES}
    d[site] = doc
    wa = 'namespace wa\n' + ('    %s\n' % d['namespace'] if d['namespace'] else '') + '\nimport wb\n\nstruct Loc\n' + ('    %s\n' % d['struct'] if d['struct'] else '') + \
         '    x Int32\n' + ('        %s\n' % d['field'] if d['field'] else '') + \
         '\nunion Uni\n' + ('    %s\n' % d['union'] if d['union'] else '') + '    tv\n' + ('        %s\n' % d['tag'] if d['tag'] else '') + '    tl Loc\n' + \
         '\nalias LocAl = Loc\n' + ('    %s\n' % d['alias'] if d['alias'] else '') + '\nalias PrimAl = Int32\n\nroute rloc(Loc, Void, Void)\n' + ('    %s\n' % d['route'] if d['route'] else '')
    return [('wa.stone', wa), ('wb.stone', DOCREF_WB)]


def docref_items(tier):
    vals = []
    segs = DOCREF_SEGMENTS
    for a in segs:
        vals.append(a)
        for b in segs:
            vals.append(a + '.' + b)
            for c in segs:
                vals.append(a + '.' + b + '.' + c)
    vals = list(dict.fromkeys(vals))
    for site in DOCREF_SITES:
        deep_site = site in ('struct', 'field', 'route') or tier != 'quick'
        for tag in ('type', 'field', 'route'):
            for v in vals:
                if v.count('.') == 2 and not deep_site:
                    continue
                yield 'docref:%s:%s:%s' % (site, tag, v), docref_spec(site, ':%s:`%s`' % (tag, v))
            if tag == 'route':
                for v in ('rloc', 'wb.rr', 'nope', 'wb.nope'):
                    for suffix in (':1', ':2', ':3', ':x', ':', ':-1', ':1.5', ':2:2', ':0'):
                        yield 'docref:%s:route:%s%s' % (site, v, suffix), docref_spec(site, ':route:`%s%s`' % (v, suffix))
        for tag, v in (('link', 'Title http://x'), ('link', 'x'), ('link', ''), ('link', ' a'), ('link', 'a '), ('val', 'null'), ('val', 'true'), ('val', '1.5'), ('val', '"s"'), ('val', 'nope'), ('val', ''),
                       ('foo', 'x'), ('', 'x'), ('type', '`'), ('TYPE', 'Loc'), ('field', 'x y'), ('type', 'Loc Loc'), ('route', 'rloc rloc')):
            yield 'docref:%s:%s:%s' % (site, tag, v), docref_spec(site, ':%s:`%s`' % (tag, v))


# ---------------------------------------------------------------------------
# name clashes: every ordered pair of definition kinds under one name, in one file and across two files of a namespace

CLASH_KINDS = [('struct', 'struct Dup\n    f Int32\n'), ('union', 'union Dup\n    a\n'), ('alias', 'alias Dup = Int32\n'),
               ('route', 'route Dup(Void, Void, Void)\n'), ('route2', 'route Dup:2(Void, Void, Void)\n'), ('route3only', 'route Dup:3(Void, Void, Void) deprecated\n'),
               ('annotation', 'annotation Dup = Deprecated()\n'), ('annotation_type', 'annotation_type Dup\n    "doc"\n'),
               ('patch', 'patch struct Dup\n    g Int32\n'), ('import', 'import Dup\n'), ('lowercase-route', 'route dup(Void, Void, Void)\n'),
               ('canonical-variant', 'struct DUP\n    f Int32\n')]


def clash_items():
    for k1, t1 in CLASH_KINDS:
        for k2, t2 in CLASH_KINDS:
            yield 'clash:%s+%s:one-file' % (k1, k2), [('c.stone', 'namespace nc\n\n' + t1 + '\n' + t2)]
            yield 'clash:%s+%s:two-files' % (k1, k2), [('c1.stone', 'namespace nc\n\n' + t1), ('c2.stone', 'namespace nc\n\n' + t2)]
            yield 'clash:%s+%s:with-namespace-named-alike' % (k1, k2), [('c1.stone', 'namespace Dup\n\n' + t1), ('c2.stone', 'namespace nc\n\nimport Dup\n\n' + t2)]


# ---------------------------------------------------------------------------
# literal kind x declared type x position: defaults, example values, route attributes, annotation arguments, type parameters

MATRIX_TYPES = ['Int32', 'UInt64', 'Int64(min_value=0)', 'Float32', 'Float64', 'Float64(min_value=0, max_value=1)', 'String', 'String(min_length=2, max_length=3)',
                'String(pattern="[a-c]+")', 'Bytes', 'Boolean', 'Timestamp("%Y")', 'Timestamp("%Y %Y")', 'Timestamp("%Q")', 'Timestamp("%")', 'Timestamp("")', 'Timestamp("%%")', 'List(Int32)', 'List(String, min_items=1, max_items=2)', 'Map(String, Int32)',
                'Map(String(min_length=2), List(Int32))', 'Map(String(pattern="[a-c]+"), Int32)', 'Map(String(max_length=1), Int32?)', 'Map(String, Map(String(min_length=2), Int32))', 'AkeyMap', 'Ms', 'Mu', 'Mtree', 'Int32?', 'Ms?', 'List(Ms)', 'List(Int32?)', 'Aint', 'Anull', 'Alist', 'Astruct', 'AnullS', 'Void']
MATRIX_LITERALS = ['0', '-1', '5', '1' + '0' * 400, '-1' + '0' * 400, '1' * 4300, '1' * 4301, '-' + '1' * 4301, '1' * 5000 + '.5', '1e' + '9' * 5000, '3.4028234e38', '-3.4028234e38', '1.5', '-0.0', '1e400', '1e-400', '2e10', '""', '"x"', '"ab"', '"YWJj"', '"2000"', '"2000 2000"', '"%"', '"not a date"',
                   'true', 'false', 'null', '[]', '[1]', '["a"]', '[[1]]', '[null]', '[1, "a"]', '{}', '{"ab": 1}', '{"a": 1}', '{"ab": [1]}', '{"a": [1]}', '{"zz": 1}', '{"k": {"a": 1}}', '{"k": {"ab": 1}}', '{1: 2}', '{"ab": null}',
                   'mv', 'mw', 'ms', 'mn', 'mu', 'nope', 'default', 'Ms', 'Int32']
MATRIX_PREAMBLE = ('namespace mx\n\nstruct Ms\n    a Int32\n    b String = "d"\n\n    example default\n        a = 1\n\nunion Mu\n    mv\n    mw Int32\n    ms Ms\n    mn Ms?\n    mu Mu2\n\n    example default\n        mw = 3\n\n'
                   'struct Mtree\n    union\n        leaf Mleaf\n    t Int32\n\n    example default\n        leaf = default\n\nstruct Mleaf extends Mtree\n    l Int32\n\n    example default\n        t = 1\n        l = 2\n\n'
                   'union Mu2\n    m2v\n\nalias Aint = Int32\nalias Anull = Int32?\nalias Alist = List(Int32)\nalias Astruct = Ms\nalias AnullS = Ms?\nalias AkeyMap = Map(String(min_length=2), Int32)\n\n')
BAD_PATTERNS = ['a{99999999999}', '(', ')', '[', '*', '+a', 'a**', '(?P<x>a)(?P<x>b)', '\\\\', 'a{2,1}', '(?i', '\\\\1', '(?P=nope)', '[z-a]', '(?<=a+)b', '\\\\p{L}', '(?#', 'a{,}', '\\\\N{nope}',
                '(' * 120 + 'a' + ')' * 120, '(?:' * 300 + 'a' + ')' * 300, '(a*)*b', '\\\\x', '\\\\u12', '[[:alpha:]]', '(?a)(?u)x', '(?L)x', '']
HUGE = ['1' + '0' * 400, '-1' + '0' * 400, '1' * 4300, '1' * 4301, '-' + '1' * 4301, '1' * 5000 + '.5', '1e400', '-1e400', '1e-400', '0', '-1', '1.5', '"3"', 'true', 'null']


def literal_matrix_items(tier):
    types = MATRIX_TYPES if tier != 'quick' else MATRIX_TYPES
    for t in types:
        for v in MATRIX_LITERALS:
            if t != 'Void':
                yield 'matrix:default:%s=%s' % (t, v[:12]), [('m.stone', MATRIX_PREAMBLE + 'struct Hm\n    f %s = %s\n' % (t, v))]
            yield 'matrix:example:%s=%s' % (t, v[:12]), [('m.stone', MATRIX_PREAMBLE + 'struct Hm\n    f %s\n\n    example default\n        f = %s\n' % (t if t != 'Void' else 'Int32', v))]
            yield 'matrix:union-example:%s=%s' % (t, v[:12]), [('m.stone', MATRIX_PREAMBLE + 'union Hu\n    v0\n    f %s\n\n    example default\n        f = %s\n' % (t if t != 'Void' else 'Int32', v))]
            if t != 'Void':
                yield 'matrix:attr:%s=%s' % (t, v[:12]), [('cfg.stone', 'namespace stone_cfg\n\nimport mx\n\nstruct Route\n    k %s\n' % ('mx.' + t if t[0] == 'M' or t[0] == 'A' or t.startswith('List(M') else t)),
                                                          ('m.stone', MATRIX_PREAMBLE + 'route r(Void, Void, Void)\n    attrs\n        k = %s\n' % v)]
                yield 'matrix:annotation-arg:%s=%s' % (t, v[:12]), [('m.stone', MATRIX_PREAMBLE + 'annotation_type At\n    p %s\n\nannotation An = At(%s)\n\nannotation Ak = At(p=%s)\n\nstruct Hm\n    f Int32\n        @An\n' % (t, v, v))]
                yield 'matrix:annotation-param-default:%s=%s' % (t, v[:12]), [('m.stone', MATRIX_PREAMBLE + 'annotation_type At\n    p %s = %s\n\nannotation An = At()\n\nstruct Hm\n    f Int32\n        @An\n' % (t, v))]
    # route schema shapes
    for body in ('union Route\n    a\n', 'struct Route\n    s mx.Ms\n', 'struct Route\n    l List(String)\n', 'struct Route\n    m Map(String, Int32)?\n', 'struct Route extends mx.Ms\n    z Int32?\n',
                 'struct Route\n    union\n        x mx.Ms\n    z Int32?\n', 'alias Route = mx.Ms\n', 'struct Route\n    "doc"\n', 'struct Route\n    v Void\n', 'struct route\n    z Int32?\n',
                 'struct Route\n    z Int32?\n\nstruct Route2\n    z Int32?\n', 'struct Route\n    t mx.Mtree?\n', 'struct Route\n    u mx.Mu = mv\n', 'struct Route\n    n mx.Anull\n    s mx.AnullS\n'):
        for attrs in ('', '    attrs\n        z = 1\n', '    attrs\n        s = 1\n', '    attrs\n        u = mw\n', '    attrs\n        t = null\n', '    attrs\n        x = "a"\n'):
            yield 'matrix:route-schema:%s/%s' % (body[:24].replace('\n', ' '), attrs.strip()[-8:]), [('cfg.stone', 'namespace stone_cfg\n\nimport mx\n\n' + body),
                                                                                                     ('m.stone', MATRIX_PREAMBLE + 'route r(Void, Void, Void)\n' + attrs)]
    # patterns and numeric type parameters
    for p in BAD_PATTERNS:
        yield 'matrix:pattern:%s' % p[:20], [('m.stone', 'namespace mx\n\nstruct Hm\n    f String(pattern="%s")\n' % p)]
        yield 'matrix:pattern-default:%s' % p[:20], [('m.stone', 'namespace mx\n\nstruct Hm\n    f String(pattern="%s") = "a"\n' % p)]
    for h in HUGE:
        for t, k in (('Int32', 'min_value'), ('Int32', 'max_value'), ('UInt64', 'max_value'), ('Float64', 'min_value'), ('Float32', 'max_value'), ('String', 'min_length'),
                     ('String', 'max_length'), ('List(Int32', 'min_items'), ('List(Int32', 'max_items'), ('Timestamp', '')):
            if t.startswith('List'):
                texpr = '%s, %s=%s)' % (t, k, h)
            elif t == 'Timestamp':
                texpr = 'Timestamp(%s)' % h
            else:
                texpr = '%s(%s=%s)' % (t, k, h)
            yield 'matrix:param:%s:%s=%s' % (t, k, h[:8]), [('m.stone', 'namespace mx\n\nstruct Hm\n    f %s\n' % texpr)]
            yield 'matrix:param-alias:%s:%s=%s' % (t, k, h[:8]), [('m.stone', 'namespace mx\n\nalias Al = %s\n\nstruct Hm\n    f Al?\n' % texpr)]
    # reference shapes among aliases and imports
    for lab, text in (('alias-cycle-nullable', 'alias Aa = Bb?\nalias Bb = Aa\n'), ('alias-cycle-nullable-3', 'alias Aa = Bb?\nalias Bb = Cc\nalias Cc = Aa\n'),
                      ('alias-self-nullable', 'alias Aa = Aa?\n'), ('alias-cycle-list', 'alias Aa = List(Bb)\nalias Bb = Aa\nstruct S\n    f Aa\n'),
                      ('alias-cycle-map', 'alias Aa = Map(String, Aa)\nstruct S\n    f Aa = null\n'), ('alias-self', 'alias Aa = Aa\n'),
                      ('struct-self-field', 'struct S\n    f S\n'), ('struct-mutual-required', 'struct S\n    f T\nstruct T\n    g S\n'),
                      ('example-ref-alias-nullable', 'struct T\n    x Int32\n    example default\n        x = 1\nalias AT = T?\nstruct S\n    t AT\n    example default\n        t = default\n'),
                      ('example-ref-alias-list', 'struct T\n    x Int32\n    example default\n        x = 1\nalias AT = List(T)\nstruct S\n    t AT\n    example default\n        t = [default]\n'),
                      ('example-ref-alias-map', 'struct T\n    x Int32\n    example default\n        x = 1\nalias AT = Map(String, T)\nstruct S\n    t AT\n    example default\n        t = {"k": default}\n'),
                      ('example-ref-missing-label', 'struct T\n    x Int32\n    example default\n        x = 1\nstruct S\n    t T\n    example other\n        t = other\n'),
                      ('map-key-alias', 'alias Akey = String(min_length=2)\nstruct S\n    m Map(Akey, Int32)\n    example default\n        m = {"a": 1}\n'),
                      ('example-self-ref', 'struct S\n    t S?\n    example default\n        t = default\n')):
        yield 'matrix:refs:%s' % lab, [('m.stone', 'namespace mx\n\n' + text)]
    for n in (2, 3, 4):
        names = ['c%d' % i for i in range(n)]
        yield 'matrix:import-cycle:%d' % n, [('%s.stone' % nm, 'namespace %s\n\nimport %s\n\nstruct X%d\n    f %s.X%d?\n' % (nm, names[(i + 1) % n], i, names[(i + 1) % n], (i + 1) % n)) for i, nm in enumerate(names)]
        yield 'matrix:import-cycle-unused:%d' % n, [('%s.stone' % nm, 'namespace %s\n\nimport %s\n\nstruct X%d\n    f Int32\n' % (nm, names[(i + 1) % n], i)) for i, nm in enumerate(names)]


# ---------------------------------------------------------------------------
# namespace qualifiers: every kind of reference site x every kind of qualifier x {name that exists there, annotation type, unknown name}

QUAL_OTHER = 'namespace qo\n\nstruct T\n    x Int32\n\nstruct qn\n    "a type named like the namespace that imports this one"\n    x Int32\n\nunion Uq\n    a\n\nalias Al = T\n\nannotation_type At\n    p Int32\n\nannotation An = At(p=1)\n\nroute rq(T, Void, Void)\n'
# namespaces named like definitions of the referring namespace (a struct, an alias, an annotation, a route, a built-in type)
QUAL_NAMESAKES = [('%s.stone' % n.lower(), 'namespace %s\n\nstruct Lt\n    x Int32\n' % n) for n in ('Loc', 'LocAl', 'An', 'rloc', 'Int32')]
QUAL_THIRD = 'namespace qt\n\nstruct T\n    x Int32\n\nannotation_type At\n    p Int32\n'
QUALIFIERS = ['', 'qn', 'qo', 'qt', 'zz', 'Loc', 'LocAl', 'stone_cfg', 'An', 'rloc', 'Int32']
QUAL_NAMES = ['T', 'Uq', 'Al', 'At', 'An', 'rq', 'Loc', 'Noted', 'qn', 'Lt', 'Nope', 'qo', 'qt']      # incl. bare namespace names (own, imported, not imported)
QUAL_SITES = [('field', 'struct H\n    f %s\n'), ('field-with-example', 'struct H\n    f %s\n    example default\n        f = 1\n'), ('field-nullable', 'struct H\n    f %s?\n'), ('list-item', 'struct H\n    f List(%s)\n'), ('parent', 'struct H extends %s\n    f Int32\n'),
              ('union-parent', 'union H extends %s\n    hh\n'), ('alias', 'alias H = %s\n'), ('route-arg', 'route h(%s, Void, Void)\n'), ('route-error', 'route h(Void, Void, %s)\n'),
              ('deprecated-by', 'route h(Void, Void, Void) deprecated by %s\n'), ('annotation-type', 'annotation Hh = %s(p=1)\n'), ('annotation-type-noargs', 'annotation Hh = %s()\n'),
              ('annotation-use', 'struct H\n    f Int32\n        @%s\n'), ('subtype', 'struct H\n    union\n        s %s\n    f Int32\n'), ('patch', 'patch struct %s\n    zz Int32?\n'),
              ('tag', 'union H\n    t %s\n'), ('param-type', 'annotation_type Hh\n    p %s\n'), ('import', 'import %s\n')]


ROUTE_HEAD_TYPES = ['', 'Void', 'Void, Void', 'Void, Void, Void', 'Void, Void, Void, Void', 'Void,', 'Void, Void,', ', Void, Void']
ROUTE_HEAD_VERSIONS = ['', ':2', ':0', ':']
ROUTE_HEAD_DEPRECATIONS = ['', ' deprecated', ' deprecated by r0', ' deprecated by r0:2', ' deprecated by', ' deprecated by r0:', ' by r0']
ROUTE_HEAD_BODIES = ['', '    "doc"\n']


def route_head_items():
    """The head of a route definition as a product: number of types in the signature x version x deprecation x body (lang_ref grammar:
    Route ::= 'route' Identifier (':' VersionNumber)? '(' TypeRef ',' TypeRef ',' TypeRef ')' ...).  Yields (label, valid, specs)."""
    for ty in ROUTE_HEAD_TYPES:
        for ver in ROUTE_HEAD_VERSIONS:
            for dep in ROUTE_HEAD_DEPRECATIONS:
                for body in ROUTE_HEAD_BODIES:
                    text = 'namespace rh\n\nroute r0(Void, Void, Void)\n\nroute r0:2(Void, Void, Void)\n\nroute r%s(%s)%s\n%s' % (ver, ty, dep, body)
                    valid = ty == 'Void, Void, Void' and ver in ('', ':2') and dep in ('', ' deprecated', ' deprecated by r0', ' deprecated by r0:2')
                    yield 'route-head:r%s(%s)%s%s' % (ver, ty, dep, '+doc' if body else ''), valid, [('rh.stone', text)]


def qualifier_items():
    local = ('struct Loc\n    y Int32\n\nstruct Noted\n    "a struct with a field that carries a custom annotation"\n    z Int32\n        @An\n\nalias LocAl = Loc\n\n'
             'annotation_type At\n    p Int32\n\nannotation An = At(p=2)\n\nroute rloc(Void, Void, Void)\n\n')
    for site, pat in QUAL_SITES:
        for q in QUALIFIERS:
            for name in QUAL_NAMES:
                ref = ('%s.%s' % (q, name) if q else name) if site != 'import' else q
                if site == 'import' and (name != 'T' or not q):
                    continue
                for imports in ('import qo\n\n', ''):
                    text = 'namespace qn\n\n' + imports + local + pat % ref
                    yield ('qualifier:%s:%s:%s' % (site, ref, 'imported' if imports else 'not-imported'),
                           [('qo.stone', QUAL_OTHER), ('qt.stone', QUAL_THIRD)] + QUAL_NAMESAKES + [('qn.stone', text)])


# ---------------------------------------------------------------------------
# built-in annotations: every class x every argument shape (positional counts, every keyword name incl. the constructor's own)

BUILTIN_ANNOTATIONS = ['Omitted', 'RedactedBlot', 'RedactedHash', 'Deprecated', 'Preview', 'Nope']
BUILTIN_ARGS = ['', '"a"', '"a", "b"', 'name="x"', 'ast_node="x"', 'omitted_caller="a"', 'regex="a"', 'x="a"', '"a", name="x"', '"a", regex="b"', 'regex="a", regex="b"',
                '1', 'null', 'true', '1.5', '[1]', 'caller="a"', 'name=null', 'omitted_caller=1', 'regex="("', '"("', 'regex=null']


def builtin_annotation_items():
    for cls in BUILTIN_ANNOTATIONS:
        for args in BUILTIN_ARGS:
            text = 'namespace ba\n\nannotation Xa = %s(%s)\n\nstruct S\n    f String\n        @Xa\n\nunion U\n    t String\n        @Xa\n    v\n        @Xa\n\nalias Al = String\n    @Xa\n' % (cls, args)
            yield 'builtin-annotation:%s(%s)' % (cls, args), [('ba.stone', text)]
            yield 'builtin-annotation-unused:%s(%s)' % (cls, args), [('ba.stone', 'namespace ba\n\nannotation Xa = %s(%s)\n' % (cls, args))]


POOL_LABELS = None
