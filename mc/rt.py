"""Runtime universe and reference semantics for the generated-Python properties (C04-C08, C10, C13).

* `universe(tier)` builds packed Stone specs that carry one struct field, one union member, one alias and one route
  per *type shape* (all type expressions up to a nesting bound over primitives with boundary parameters, user types
  of every kind, aliases; wrappers List / Map / Nullable).
* The reference semantics below are driven by the `stone.ir` description of a type (never by the generated
  reflection tables): boundary values, validity, the wire encoding of docs/json_serializer.rst.
* Values are abstract: Python natives plus SV (struct value) and UV (union value); `instantiate` turns them into
  instances of the generated classes through public constructors and attributes only, `observe` reads them back.
"""
import base64
import collections
import datetime
import itertools
import math

from stone.ir import data_types as dt

SV = collections.namedtuple('SV', 'ns name fields')      # fields: tuple of (name, value) for the SET fields only
UV = collections.namedtuple('UV', 'ns name tag value')

TS1 = '%Y-%m-%dT%H:%M:%SZ'

# ---------------------------------------------------------------------------
# the packed universe

USER_TYPES_NB = '''namespace nb

struct Foreign
    x Int32
    y String?

union ForeignU
    fa
    fb Int32

union UClosed
    "same name as a union of na; the shared tag names carry other types"
    x Timestamp("%Y")
    y
    z String

alias ForeignA = List(Foreign)
alias ForeignNull = Foreign?
'''

USER_TYPES_NA = '''
struct Plain
    a Int32
    b String = "dflt"
    c Int32?

struct Kid extends Plain
    "a child that adds a required field of its own"
    k Int32
    kn String?

struct Mid extends Plain
    "a middle struct that adds nothing"

struct GrandKid extends Mid
    "its parent has no fields of its own, its grandparent has"
    gk Int32
    gn String?

struct Empty
    "no fields"

struct AllOpt
    x Int32?
    y String = "d"

struct G
    g Int32

struct P extends G
    p String?

struct C extends P
    c Int32 = 5
    d nb.Foreign?

struct Res
    union
        file File
        folder Folder
        sharedLink Linky
    name String

struct File extends Res
    size UInt64 = 0

struct Folder extends Res
    "leaf without fields"

struct Linky extends Res
    "leaf whose subtype tag is not spelled the way generated Python names are"
    url String?

struct ResC
    union_closed
        leaf LeafC
    k Int32?

struct LeafC extends ResC
    v List(Int32)

union UClosed
    x
    y String

union_closed UnionCc
    only
    pay Plain

union UOpen
    v
    n Int32
    s Plain
    ns Plain?
    e Empty?
    ao AllOpt?
    r Res
    nr Res?
    l List(Int32)
    m Map(String, Int32)
    u UClosed
    nu UnionCc?
    f nb.Foreign
    ts Timestamp("%Y-%m-%dT%H:%M:%SZ")?
    byt Bytes

union UChild extends UOpen
    extra Int32
    extra_s Empty

union USib extends UOpen
    "a sibling of UChild: the same tag names with other types"
    extra String(max_length=3)
    extra_s Plain

union_closed UnionCc2 extends UnionCc
    more

union UGrand extends UChild
    deep
    deeper List(Plain)?

struct Coll
    "a field named like the union tag that carries the struct, holding an object"
    coll Map(String, Int32)
    z Int32?

struct Wrap
    wrap Plain
    w2 UClosed?

union UColl
    coll Coll
    wrap Wrap
    nwrap Wrap?
    plain

alias APrim = Int32(min_value=-5, max_value=5)
alias AStr = String(pattern="[a-c]+")
alias APlain = Plain
alias ANull = Plain?
alias ANullOpt = AllOpt?
alias ANullE = Empty?
alias ANullU = UClosed?
alias ANullTs = Timestamp("%Y")?
alias AList = List(Int32)
alias AliasA = APlain
alias AliasU = UOpen
alias ARes = Res
'''

PRIM_LEAVES = ['Int32', 'Int32(min_value=-5, max_value=5)', 'Int64(min_value=0)', 'Float32(max_value=0)', 'UInt32', 'Int64', 'UInt64(max_value=18446744073709551615)',
               'Float32', 'Float64(min_value=-1.5, max_value=2.5)', 'Boolean', 'String', 'String(min_length=1, max_length=3)',
               'String(pattern="[a-c]+")', 'Bytes', 'Timestamp("%Y-%m-%dT%H:%M:%SZ")', 'Timestamp("%Y")', 'Timestamp("%Y-%m-%dT%H:%M:%S%z")']
USER_LEAVES = ['Plain', 'Kid', 'GrandKid', 'Empty', 'AllOpt', 'C', 'G', 'Res', 'ResC', 'File', 'UOpen', 'UClosed', 'UnionCc', 'UChild', 'USib', 'UnionCc2', 'UGrand', 'UColl', 'nb.Foreign', 'nb.ForeignU', 'nb.UClosed']
ALIAS_LEAVES = ['APrim', 'AStr', 'APlain', 'ANull', 'ANullOpt', 'ANullE', 'ANullU', 'ANullTs', 'AList', 'AliasA', 'AliasU', 'ARes', 'nb.ForeignA', 'nb.ForeignNull']
NULLABLE_LEAVES = {'ANull', 'ANullOpt', 'ANullE', 'ANullU', 'ANullTs', 'nb.ForeignNull'}

WRAP1 = ['%s?', 'List(%s)', 'List(%s, min_items=1, max_items=2)', 'Map(String, %s)']
WRAP2 = ['List(%s?)', 'Map(String, List(%s))', 'List(%s)?', 'List(List(%s))', 'Map(String, Map(String, %s))', 'List(Map(String, %s))',
         'Map(String, %s)?', 'Map(String, %s?)']
WRAP3 = ['List(List(%s?))', 'Map(String, List(%s)?)', 'List(Map(String, List(%s)))?']


def shapes(tier):
    leaves = PRIM_LEAVES + USER_LEAVES + ALIAS_LEAVES
    out = list(leaves)
    for w in WRAP1:
        for x in leaves:
            if w.endswith('%s?') and x in NULLABLE_LEAVES:
                continue
            out.append(w % x)
    sub = leaves if tier == 'thorough' else [x for i, x in enumerate(leaves) if x in (
        'Int32(min_value=-5, max_value=5)', 'String(pattern="[a-c]+")', 'Bytes', 'Timestamp("%Y")', 'Plain', 'Empty', 'C', 'Res', 'File',
        'UOpen', 'UnionCc', 'UChild', 'nb.Foreign', 'APlain', 'ANull', 'ANullOpt', 'nb.ForeignNull', 'AliasU', 'nb.ForeignA', 'Float64(min_value=-1.5, max_value=2.5)')]
    for w in WRAP2:
        for x in sub:
            if ('%s?' in w) and x in NULLABLE_LEAVES:
                continue
            out.append(w % x)
    if tier == 'thorough':
        for w in WRAP3:
            for x in sub:
                if ('%s?' in w) and x in NULLABLE_LEAVES:
                    continue
                out.append(w % x)
    return out


def universe(tier, shape_list=None):
    """Returns (specs, shape_list). Holder struct `H`, holder union `HolderU`, aliases `Z<i>`, routes `r<i>`."""
    sl = shape_list if shape_list is not None else shapes(tier)
    lines = ['namespace na', '', 'import nb', USER_TYPES_NA]
    lines.append('struct Holder')
    lines.append('    "holder: one optional-free field per shape"')
    for i, s in enumerate(sl):
        lines.append('    f%d %s' % (i, s))
    lines.append('')
    lines.append('union HolderU')
    for i, s in enumerate(sl):
        lines.append('    t%d %s' % (i, s))
    lines.append('')
    for i, s in enumerate(sl):
        lines.append('alias Z%d = %s' % (i, s))
    lines.append('')
    # one small struct and one small union per shape: the shape as the type of a real field (set / unset / null) and of a real tag
    for i, s in enumerate(sl):
        lines.append('struct Hf%d\n    v %s\n' % (i, s))
        lines.append('union Ht%d\n    v0\n    t %s\n' % (i, s))
    for i, s in enumerate(sl):
        lines.append('route r%d(%s, %s, %s)' % (i, s, s, s))
    return [('nb.stone', USER_TYPES_NB), ('na.stone', '\n'.join(lines) + '\n')], sl


# ---------------------------------------------------------------------------
# walking IR types


def unalias(t):
    while isinstance(t, dt.Alias):
        t = t.data_type
    return t


def strip(t):
    """(underlying type, nullable) through aliases and nullables."""
    nullable = False
    while isinstance(t, (dt.Alias, dt.Nullable)):
        if isinstance(t, dt.Nullable):
            nullable = True
        t = t.data_type
    return t, nullable


def struct_fields(s):
    """All fields of a struct, root first, declaration order (independent of all_fields)."""
    chain = []
    cur = s
    while cur is not None:
        chain.append(cur)
        cur = cur.parent_type
    out = []
    for c in reversed(chain):
        out.extend(c.fields)
    return out


def is_optional(f):
    t, nullable = strip(f.data_type)
    return nullable or f.has_default


def union_tags(u):
    chain = []
    cur = u
    while cur is not None:
        chain.append(cur)
        cur = cur.parent_type
    out = []
    for c in reversed(chain):
        out.extend(c.fields)
    return out


def leaves_of(s):
    """Concrete serializable structs for a struct-typed position: the leaves of a subtype tree, else the struct itself."""
    if s.has_enumerated_subtypes():
        out = []
        for f in s.get_enumerated_subtypes():
            out.extend(leaves_of(f.data_type))
        return out
    return [s]


def leaf_tag(root, leaf):
    for f in root.get_enumerated_subtypes():
        if f.data_type is leaf:
            return f.name
    raise KeyError(leaf.name)


def tree_root(s):
    """The enumerating root if s is a leaf of a subtype tree, else None."""
    if s.parent_type is not None and s.parent_type.has_enumerated_subtypes():
        return s.parent_type
    return None


# ---------------------------------------------------------------------------
# boundary values

INT_RANGE = {'Int32': (-2**31, 2**31 - 1), 'UInt32': (0, 2**32 - 1), 'Int64': (-2**63, 2**63 - 1), 'UInt64': (0, 2**64 - 1)}
F32 = 3.40282e38
PATTERN_OK = {'[a-c]+': ['a', 'abc'], 'abc': ['abc'], '^a.c$': ['abc'], 'a|bc': ['a', 'bc'], '\\d{2}': ['12']}
PATTERN_BAD = {'[a-c]+': ['', 'abz', 'zab'], 'abc': ['abcdef', 'zabc'], '^a.c$': ['abcd'], 'a|bc': ['ab', 'bcd'], '\\d{2}': ['123', 'a12']}


def int_bounds(t):
    lo, hi = INT_RANGE[type(t).__name__]
    if t.min_value is not None:
        lo = max(lo, t.min_value)
    if t.max_value is not None:
        hi = min(hi, t.max_value)
    return lo, hi


def float_bounds(t):
    lo = hi = None
    if isinstance(t, dt.Float32):
        lo, hi = -F32, F32
    if t.min_value is not None:
        lo = t.min_value if lo is None else max(lo, t.min_value)
    if t.max_value is not None:
        hi = t.max_value if hi is None else min(hi, t.max_value)
    return lo, hi


AWARE = [False]     # C05 only: also offer timezone-aware UTC datetimes for formats without an offset directive (valid values whose
                    # encoding is prescribed, but which do not read back as themselves, so they are no round-trip values)


def ts_values(fmt):
    utc = datetime.timezone.utc
    if '%z' in fmt:
        # only aware values are representable in a format with an offset directive
        return [datetime.datetime(1970, 1, 1, 0, 0, 0, tzinfo=utc), datetime.datetime(2015, 5, 12, 15, 50, 38, tzinfo=utc)]
    if fmt == '%Y':
        out = [datetime.datetime(2000, 1, 1), datetime.datetime(1970, 1, 1)]
    else:
        out = [datetime.datetime(1970, 1, 1, 0, 0, 0), datetime.datetime(2015, 5, 12, 15, 50, 38)]
    if AWARE[0]:
        out = out + [out[-1].replace(tzinfo=utc), out[-1].replace(microsecond=250000)]
    return out


def ref_values(t, depth=0, rich=True):
    """Boundary values valid for IR type t (simplest first). `rich=False`: only the first one or two."""
    if isinstance(t, dt.Alias):
        return ref_values(t.data_type, depth, rich)
    if isinstance(t, dt.Nullable):
        if depth >= 5:
            return [None]            # recursive types (next Node?) stay finite
        return [None] + ref_values(t.data_type, depth, rich)
    small = depth >= 2 or not rich
    if isinstance(t, dt.Void):
        return [None]
    if isinstance(t, dt.Boolean):
        return [True] if small else [True, False]
    if isinstance(t, (dt.Int32, dt.Int64, dt.UInt32, dt.UInt64)):
        lo, hi = int_bounds(t)
        out = [lo]
        if not small:
            if lo <= 0 <= hi and 0 not in out:
                out.append(0)
            if hi not in out:
                out.append(hi)
        return out
    if isinstance(t, (dt.Float32, dt.Float64)):
        lo, hi = float_bounds(t)
        cands = [0.0] if small else [0.0, 1.5, 2, -1.5]
        if not small and lo is not None:
            cands.append(lo)
        if not small and hi is not None:
            cands.append(hi)
        out = []
        for c in cands:
            if (lo is None or c >= lo) and (hi is None or c <= hi) and c not in out:
                out.append(c)
        return out or [lo if lo is not None else hi]
    if isinstance(t, dt.String):
        if t.pattern is not None:
            vals = [s for s in PATTERN_OK[t.pattern] if (t.min_length is None or len(s) >= t.min_length) and
                    (t.max_length is None or len(s) <= t.max_length)]
            return vals[:1] if small else vals
        lo = t.min_length or 0
        out = ['x' * lo]
        if not small:
            if t.max_length is not None:
                out.append('y' * t.max_length)
            else:
                out.append('x' * lo + 'q"\\z\U0001F600é')
        return list(dict.fromkeys(out))
    if isinstance(t, dt.Bytes):
        return [b''] if small else [b'', b'\x80\xff\x00a']
    if isinstance(t, dt.Timestamp):
        v = ts_values(t.format)
        return v[:1] if small else v
    if isinstance(t, dt.List):
        lo = t.min_items or 0
        hi = t.max_items
        if depth >= 5 and lo == 0:
            return [[]]
        inner = ref_values(t.data_type, depth + 1, rich)
        out = []
        if lo == 0:
            out.append([])
        n = max(lo, 1)
        if hi is None or n <= hi:
            out.append([inner[i % len(inner)] for i in range(n)])
        if not small and len(inner) > 1 and (hi is None or max(lo, 2) <= hi):
            out.append([inner[-1 - (i % len(inner))] for i in range(max(lo, 2))])
        if not small and hi is not None and hi > n:
            out.append([inner[i % len(inner)] for i in range(hi)])
        return out
    if isinstance(t, dt.Map):
        if depth >= 5:
            return [{}]
        inner = ref_values(t.value_data_type, depth + 1, rich)
        out = [{}, {'k': inner[0]}]
        if not small:
            out.append({'k1': inner[0], 'é "k2"': inner[-1]})
        return out
    if isinstance(t, dt.Struct):
        out = []
        for leaf in leaves_of(t):
            out.extend(struct_values(leaf, depth, rich))
        if SUBCLASS[0] and depth < 2 and not t.has_enumerated_subtypes() and tree_root(t) is None:
            # an instance of an extending struct is a legal value wherever its parent is declared (C08); the position carries the
            # parent's fields only
            for c in _descendants(t):
                if not c.has_enumerated_subtypes():
                    out.extend(struct_values(c, depth, rich)[-1:])
        return out
    if isinstance(t, dt.Union):
        return union_values(t, depth, rich)
    raise TypeError('no values for %r' % (t,))


SUBCLASS = [False]   # C05 only: also offer instances of extending structs at parent-typed positions (no round-trip values)


def _descendants(s):
    out = []
    for c in getattr(s, 'subtypes', []) or []:
        out.append(c)
        out.extend(_descendants(c))
    return out


def struct_values(s, depth, rich=True):
    fields = struct_fields(s)
    ns = s.namespace.name
    small = depth >= 1 or not rich
    per = []
    for f in fields:
        vals = ref_values(f.data_type, depth + 1, rich)
        nullable = strip(f.data_type)[1]
        if nullable:
            vals = [v for v in vals if v is not None]          # None == unset for a nullable field
            if not vals:
                continue                                       # depth cut-off of a recursive type: leave it unset
        per.append((f, vals))
    req_only = tuple((f.name, vals[0]) for f, vals in per if not is_optional(f))
    out = [SV(ns, s.name, req_only)]
    allset = tuple((f.name, vals[0]) for f, vals in per)
    if allset != req_only:
        out.append(SV(ns, s.name, allset))
    if not small:
        alllast = tuple((f.name, vals[-1]) for f, vals in per)
        if alllast not in (req_only, allset):
            out.append(SV(ns, s.name, alllast))
        # each optional field individually: set to its explicit default / to a non-default value
        for f, vals in per:
            if not is_optional(f):
                continue
            cands = list(vals[:2])
            if f.has_default and not isinstance(f.default, dt.TagRef):
                cands.insert(0, f.default)
            for v in cands[:2]:
                sv = SV(ns, s.name, tuple((g.name, (v if g is f else gv[0])) for g, gv in per if g is f or not is_optional(g)))
                if sv not in out:
                    out.append(sv)
    return out


def union_values(u, depth, rich=True, with_catch_all=False):
    ns = u.namespace.name
    small = depth >= 1 or not rich
    out = []
    for f in union_tags(u):
        if f.catch_all and not with_catch_all:
            continue
        t, nullable = strip(f.data_type)
        if isinstance(t, dt.Void):
            out.append(UV(ns, u.name, f.name, None))
            continue
        vals = ref_values(f.data_type, depth + 1, rich)
        if small:
            vals = vals[:2] if nullable else vals[:1]
        for v in vals:
            out.append(UV(ns, u.name, f.name, v))
        if small and depth >= 2:
            break
    return out


# ---------------------------------------------------------------------------
# the reference encoder (docs/json_serializer.rst)


def find_struct(api, ns, name):
    return api.namespaces[ns].data_type_by_name[name]


def ref_encode(api, t, v):
    if isinstance(t, dt.Alias):
        return ref_encode(api, t.data_type, v)
    if isinstance(t, dt.Nullable):
        return None if v is None else ref_encode(api, t.data_type, v)
    if isinstance(t, dt.Void):
        return None
    if isinstance(t, dt.Bytes):
        return base64.b64encode(v).decode('ascii')
    if isinstance(t, dt.Timestamp):
        return v.strftime(t.format)
    if isinstance(t, dt.Primitive):
        return v
    if isinstance(t, dt.List):
        return [ref_encode(api, t.data_type, x) for x in v]
    if isinstance(t, dt.Map):
        return {k: ref_encode(api, t.value_data_type, x) for k, x in v.items()}
    if isinstance(t, dt.Struct):
        actual = find_struct(api, v.ns, v.name)
        out = {}
        if t.has_enumerated_subtypes():
            out['.tag'] = leaf_tag(t, actual) if actual is not t else None
        given = dict(v.fields)
        # a value of an extending struct at a position declared as its (non-enumerating) ancestor carries the declared type's fields
        carrier = actual if (t.has_enumerated_subtypes() or actual is t or tree_root(t) is not None) else t
        for f in struct_fields(carrier):
            if f.name in given:
                out[f.name] = ref_encode(api, f.data_type, given[f.name])
        return out
    if isinstance(t, dt.Union):
        field = None
        for f in union_tags(t):
            if f.name == v.tag:
                field = f
        ft, nullable = strip(field.data_type)
        if isinstance(ft, dt.Void) or v.value is None:
            return {'.tag': v.tag}
        enc = ref_encode(api, field.data_type, v.value)
        if isinstance(ft, dt.Struct) and not ft.has_enumerated_subtypes():
            out = {'.tag': v.tag}
            out.update(enc)
            return out
        return {'.tag': v.tag, v.tag: enc}
    raise TypeError(t)


# ---------------------------------------------------------------------------
# abstract value <-> generated classes


def pascal(name):
    return name


def py_class(pkg, ns, name):
    return getattr(pkg.mod(ns), name)


def instantiate(pkg, api, t, v):
    if isinstance(t, dt.Alias):
        return instantiate(pkg, api, t.data_type, v)
    if isinstance(t, dt.Nullable):
        return None if v is None else instantiate(pkg, api, t.data_type, v)
    if isinstance(t, dt.Primitive):
        return v
    if isinstance(t, dt.List):
        return [instantiate(pkg, api, t.data_type, x) for x in v]
    if isinstance(t, dt.Map):
        return {k: instantiate(pkg, api, t.value_data_type, x) for k, x in v.items()}
    if isinstance(t, dt.Struct):
        actual = find_struct(api, v.ns, v.name)
        cls = py_class(pkg, v.ns, v.name)
        ftypes = {f.name: f.data_type for f in struct_fields(actual)}
        kwargs = {k: instantiate(pkg, api, ftypes[k], x) for k, x in v.fields}
        return cls(**kwargs)
    if isinstance(t, dt.Union):
        cls = py_class(pkg, v.ns, v.name)
        field = [f for f in union_tags(t) if f.name == v.tag][0]
        ft, nullable = strip(field.data_type)
        if isinstance(ft, dt.Void):
            return getattr(cls, v.tag)
        return getattr(cls, v.tag)(instantiate(pkg, api, field.data_type, v.value))
    raise TypeError(t)


def observe(pkg, api, t, obj):
    """Abstract view of a generated instance, read through public attributes only."""
    bb = pkg.bb
    if isinstance(t, dt.Alias):
        return observe(pkg, api, t.data_type, obj)
    if isinstance(t, dt.Nullable):
        return None if obj is None else observe(pkg, api, t.data_type, obj)
    if isinstance(t, dt.Primitive):
        return obj
    if isinstance(t, dt.List):
        if not isinstance(obj, (list, tuple)):
            return ('!not-a-list', repr(obj))
        return [observe(pkg, api, t.data_type, x) for x in obj]
    if isinstance(t, dt.Map):
        if not isinstance(obj, dict):
            return ('!not-a-dict', repr(obj))
        return {k: observe(pkg, api, t.value_data_type, x) for k, x in obj.items()}
    if isinstance(t, dt.Struct):
        # which concrete struct is it?
        cands = leaves_of(t) if t.has_enumerated_subtypes() else [t]
        if t.has_enumerated_subtypes():
            cands = cands + [t]
        actual = None
        for c in cands:
            if type(obj) is py_class(pkg, c.namespace.name, c.name):
                actual = c
        if actual is None:
            # a subclass instance (struct inheritance) at a plain struct position
            for nsn, ns in api.namespaces.items():
                for d in ns.data_types:
                    if isinstance(d, dt.Struct) and type(obj) is py_class(pkg, nsn, d.name):
                        actual = d
        if actual is None:
            return ('!unknown-class', type(obj).__name__)
        fields = []
        for f in struct_fields(actual):
            raw = getattr(obj, '_%s_value' % f.name, None)
            if raw is bb.NOT_SET:
                continue
            fields.append((f.name, observe(pkg, api, f.data_type, getattr(obj, f.name))))
        return SV(actual.namespace.name, actual.name, tuple(fields))
    if isinstance(t, dt.Union):
        tag = obj._tag
        field = [f for f in union_tags(t) if f.name == tag]
        if not field:
            return UV(t.namespace.name, t.name, tag, ('!unknown-tag',))
        ft, nullable = strip(field[0].data_type)
        if isinstance(ft, dt.Void):
            val = None
        else:
            val = observe(pkg, api, field[0].data_type, obj._value)
        # the class that holds it
        owner = t
        return UV(owner.namespace.name, owner.name, tag, val)
    raise TypeError(t)


def normalize(api, t, v):
    """Expected read-back of an abstract value: ints become floats in float positions, unset optional == absent."""
    if isinstance(t, dt.Alias):
        return normalize(api, t.data_type, v)
    if isinstance(t, dt.Nullable):
        return None if v is None else normalize(api, t.data_type, v)
    if isinstance(t, (dt.Float32, dt.Float64)):
        return float(v)
    if isinstance(t, dt.Primitive):
        return v
    if isinstance(t, dt.List):
        return [normalize(api, t.data_type, x) for x in v]
    if isinstance(t, dt.Map):
        return {k: normalize(api, t.value_data_type, x) for k, x in v.items()}
    if isinstance(t, dt.Struct):
        actual = find_struct(api, v.ns, v.name)
        ftypes = {f.name: f for f in struct_fields(actual)}
        fields = []
        given = dict(v.fields)
        for f in struct_fields(actual):
            if f.name in given:
                nv = normalize(api, f.data_type, given[f.name])
                if nv is None and strip(f.data_type)[1]:
                    continue
                fields.append((f.name, nv))
        return SV(v.ns, v.name, tuple(fields))
    if isinstance(t, dt.Union):
        field = [f for f in union_tags(t) if f.name == v.tag][0]
        ft, nullable = strip(field.data_type)
        val = None if isinstance(ft, dt.Void) or v.value is None else normalize(api, field.data_type, v.value)
        return UV(t.namespace.name, t.name, v.tag, val)
    raise TypeError(t)


def show(v):
    return repr(v)[:400]


# ---------------------------------------------------------------------------
# validity of *Python objects* for a type (C08): True / False / None (unspecified)

import re as _re


class Tz(datetime.tzinfo):
    def __init__(self, minutes):
        self.m = minutes

    def utcoffset(self, d):
        return datetime.timedelta(minutes=self.m)

    def dst(self, d):
        return datetime.timedelta(0)

    def tzname(self, d):
        return 'tz%d' % self.m


def ref_valid(pkg, api, t, obj):
    if isinstance(t, dt.Alias):
        return ref_valid(pkg, api, t.data_type, obj)
    if isinstance(t, dt.Nullable):
        return True if obj is None else ref_valid(pkg, api, t.data_type, obj)
    if isinstance(t, (dt.Int32, dt.Int64, dt.UInt32, dt.UInt64)):
        if isinstance(obj, bool):
            return None
        if not isinstance(obj, int):
            return False
        lo, hi = int_bounds(t)
        return lo <= obj <= hi
    if isinstance(t, (dt.Float32, dt.Float64)):
        if isinstance(obj, bool):
            return None
        if not isinstance(obj, (int, float)):
            return False
        try:
            f = float(obj)
        except OverflowError:
            return False
        if math.isnan(f) or math.isinf(f):
            return False
        lo, hi = float_bounds(t)
        if isinstance(t, dt.Float32) and F32 < abs(f) <= 3.4028235e38:
            return None          # between the bound stone uses and the true IEEE single maximum
        return (lo is None or f >= lo) and (hi is None or f <= hi)
    if isinstance(t, dt.Boolean):
        return isinstance(obj, bool)
    if isinstance(t, dt.String):
        if not isinstance(obj, str):
            return False
        if t.min_length is not None and len(obj) < t.min_length:
            return False
        if t.max_length is not None and len(obj) > t.max_length:
            return False
        if t.pattern is not None and _re.fullmatch(t.pattern, obj) is None:
            return False
        return True
    if isinstance(t, dt.Bytes):
        if isinstance(obj, bytes):
            return True
        if isinstance(obj, (bytearray, memoryview)):
            return None
        return False
    if isinstance(t, dt.Timestamp):
        if not isinstance(obj, datetime.datetime):
            return False
        if obj.tzinfo is None:
            return True
        return obj.tzinfo.utcoffset(obj) == datetime.timedelta(0)
    if isinstance(t, dt.Void):
        return obj is None
    if isinstance(t, dt.List):
        if not isinstance(obj, (list, tuple)):
            return False
        if t.min_items is not None and len(obj) < t.min_items:
            return False
        if t.max_items is not None and len(obj) > t.max_items:
            return False
        return _all3(ref_valid(pkg, api, t.data_type, x) for x in obj)
    if isinstance(t, dt.Map):
        if not isinstance(obj, dict):
            return False
        return _all3([ref_valid(pkg, api, t.key_data_type, k) for k in obj] + [ref_valid(pkg, api, t.value_data_type, x) for x in obj.values()])
    if isinstance(t, dt.Struct):
        return isinstance(obj, py_class(pkg, t.namespace.name, t.name))
    if isinstance(t, dt.Union):
        cls = py_class(pkg, t.namespace.name, t.name)
        if type(obj) is cls:
            return True
        # a parent union's value is allowed where a child union is expected
        cur = t.parent_type
        while cur is not None:
            if type(obj) is py_class(pkg, cur.namespace.name, cur.name):
                return True
            cur = cur.parent_type
        return False
    raise TypeError(t)


def _all3(it):
    res = True
    for x in it:
        if x is False:
            return False
        if x is None:
            res = None
    return res


def probes_for(pkg, api, t, depth=0):
    """(label, python object) probes around the boundaries of t: valid boundary values, one-step-invalid values and one
    value of every wrong Python type."""
    out = []
    ut = unalias(t)
    wrong = [('none', None), ('bool', True), ('int', 7), ('float', 1.5), ('nan', float('nan')), ('inf', float('inf')),
             ('huge', 10**400), ('str', 'abc'), ('empty-str', ''), ('bytes', b'ab'), ('list', [1]), ('tuple', (1,)), ('dict', {'k': 1}),
             ('datetime', datetime.datetime(2000, 1, 1)), ('datetime-utc', datetime.datetime(2000, 1, 1, tzinfo=Tz(0))),
             ('datetime-tz', datetime.datetime(2000, 1, 1, tzinfo=Tz(60))),
             ('unrelated', py_class(pkg, 'nb', 'Foreign')(x=1)), ('object', object())]
    if isinstance(ut, dt.Nullable):
        return [('none', None)] + probes_for(pkg, api, ut.data_type, depth)
    for v in ref_values(t, depth=1 if depth else 0):
        try:
            out.append(('valid:' + show(v)[:40], instantiate(pkg, api, t, v)))
        except Exception:
            pass
    if isinstance(ut, (dt.Int32, dt.Int64, dt.UInt32, dt.UInt64)):
        lo, hi = int_bounds(ut)
        tlo, thi = INT_RANGE[type(ut).__name__]
        for x in {lo - 1, lo, lo + 1, hi - 1, hi, hi + 1, tlo - 1, tlo, thi, thi + 1, 0, -1, 1}:
            out.append(('int:%d' % x, x))
        out.append(('float-integral', 1.0))
    elif isinstance(ut, (dt.Float32, dt.Float64)):
        lo, hi = float_bounds(ut)
        for b in (lo, hi):
            if b is not None:
                for x in (b, math.nextafter(b, math.inf), math.nextafter(b, -math.inf), b - 1.0, b + 1.0):
                    out.append(('float:%r' % x, x))
        for x in (0.0, -0.0, 2, -3, 3.5e38, -3.5e38, 1e308):
            out.append(('float:%r' % x, x))
    elif isinstance(ut, dt.String):
        for n in {0, 1, (ut.min_length or 0) - 1, ut.min_length or 0, ut.max_length or 3, (ut.max_length or 3) + 1}:
            if n >= 0:
                out.append(('len:%d' % n, 'a' * n))
        if ut.pattern is not None:
            for s in PATTERN_OK.get(ut.pattern, []) + PATTERN_BAD.get(ut.pattern, []):
                out.append(('pattern:%r' % s, s))
            out.append(('pattern-newline', PATTERN_OK[ut.pattern][0] + '\n'))
    elif isinstance(ut, dt.List):
        inner = ut.data_type
        ivals = [instantiate(pkg, api, inner, v) for v in ref_values(inner, 1)[:2]]
        iv = [x for x in ivals if x is not None] or ivals
        for n in {0, 1, 2, 3, (ut.min_items or 0) - 1, ut.min_items or 0, ut.max_items or 2, (ut.max_items or 2) + 1}:
            if n >= 0 and iv:
                out.append(('items:%d' % n, [iv[i % len(iv)] for i in range(n)]))
                out.append(('items-tuple:%d' % n, tuple(iv[i % len(iv)] for i in range(n))))
        if depth < 2:
            for lab, bad in probes_for(pkg, api, inner, depth + 1):
                if not lab.startswith('valid:'):
                    out.append(('item<-' + lab, [bad]))
                    if iv:
                        out.append(('second-item<-' + lab, [iv[0], bad]))
    elif isinstance(ut, dt.Map):
        inner = ut.value_data_type
        ivals = [instantiate(pkg, api, inner, v) for v in ref_values(inner, 1)[:1]]
        if ivals:
            out.append(('key-int', {1: ivals[0]}))
            out.append(('key-none', {None: ivals[0]}))
            out.append(('key-bytes', {b'k': ivals[0]}))
        if depth < 2:
            for lab, bad in probes_for(pkg, api, inner, depth + 1):
                if not lab.startswith('valid:'):
                    out.append(('value<-' + lab, {'k': bad}))
    elif isinstance(ut, dt.Struct):
        # subclass instances are allowed, instances of the parent are not
        for nsn, ns in api.namespaces.items():
            for d in ns.data_types:
                if isinstance(d, dt.Struct) and d is not ut and not d.has_enumerated_subtypes() and d.name not in ('Holder', 'PrimHolder'):
                    related = False
                    cur = d
                    while cur is not None:
                        if cur is ut:
                            related = True
                        cur = cur.parent_type
                    cur = ut
                    while cur is not None:
                        if cur is d:
                            related = True
                        cur = cur.parent_type
                    if related:
                        try:
                            out.append(('related-struct:' + d.name, instantiate(pkg, api, d, ref_values(d, 1)[-1])))
                        except Exception:
                            pass
    elif isinstance(ut, dt.Union):
        for nsn, ns in api.namespaces.items():
            for d in ns.data_types:
                if isinstance(d, dt.Union) and d is not ut and d.name not in ('HolderU', 'PrimHolderU'):
                    vals = [v for v in ref_values(d, 2)]
                    if vals:
                        try:
                            out.append(('other-union:' + d.name, instantiate(pkg, api, d, vals[0])))
                        except Exception:
                            pass
    out.extend(('wrong:' + k, v) for k, v in wrong)
    return out
