"""The spec model: an immutable, hashable description of a set of Stone spec files.

Nothing here refers to stone objects.  A model is what the construction machine's
states are made of, what render.py turns into text, and what refsem.py elaborates
into the expected API signature.
"""
from collections import namedtuple

# ---- type expressions -------------------------------------------------------
# P: primitive.  `args` is a tuple of (key, literal) pairs; key '' marks a positional argument.
P = namedtuple('P', 'kind args')
L = namedtuple('L', 'item min_items max_items')
M = namedtuple('M', 'value')          # Map(String, value)
N = namedtuple('N', 'inner')
R = namedtuple('R', 'ns name')        # reference to a struct / union / alias; ns None = local

VOID = P('Void', ())


def prim(kind, **kw):
    return P(kind, tuple(sorted(kw.items())))


def ts(fmt):
    return P('Timestamp', (('', fmt),))


# ---- literals ---------------------------------------------------------------
NODEF = ('nodef',)


class TagLit(namedtuple('TagLit', 'tag')):
    """A bare identifier used as a value: tag reference (defaults, attrs) or example label."""


NULL = None

# ---- definitions ------------------------------------------------------------
Field = namedtuple('Field', 'name type default doc anns')
Tag = namedtuple('Tag', 'name type doc anns')               # type None => void tag
Example = namedtuple('Example', 'label text fields')         # fields: ((name, value), ...)
Struct = namedtuple('Struct', 'name parent fields subtypes doc examples')   # subtypes: None | (closed, ((tag, R), ...))
Union = namedtuple('Union', 'name closed parent tags doc examples')
Alias = namedtuple('Alias', 'name type doc anns')
Route = namedtuple('Route', 'name version arg result error deprecated attrs doc')  # deprecated: None | True | (name, version)
Annotation = namedtuple('Annotation', 'name kind kind_ns args kwargs')      # kind: 'Omitted' ... or custom type name
AnnType = namedtuple('AnnType', 'name params doc')                          # params: Field tuples
Patch = namedtuple('Patch', 'kind target fields examples')                  # kind: 'struct' | 'union' | 'union_closed'
AnnRef = namedtuple('AnnRef', 'ns name')

File = namedtuple('File', 'doc imports defs')
Namespace = namedtuple('Namespace', 'name files')
Model = namedtuple('Model', 'namespaces')


def mkfield(name, type_, default=NODEF, doc=None, anns=()):
    return Field(name, type_, default, doc, tuple(anns))


def mktag(name, type_=None, doc=None, anns=()):
    return Tag(name, type_, doc, tuple(anns))


def mkstruct(name, parent=None, fields=(), subtypes=None, doc=None, examples=()):
    return Struct(name, parent, tuple(fields), subtypes, doc, tuple(examples))


def mkunion(name, closed=False, parent=None, tags=(), doc=None, examples=()):
    return Union(name, closed, parent, tuple(tags), doc, tuple(examples))


def mkroute(name, version=1, arg=VOID, result=VOID, error=VOID, deprecated=None, attrs=(), doc=None):
    return Route(name, version, arg, result, error, deprecated, tuple(attrs), doc)


EMPTY_FILE = File(None, (), ())


# ---- navigation / update helpers (persistent) --------------------------------


def ns_index(model, name):
    for i, ns in enumerate(model.namespaces):
        if ns.name == name:
            return i
    raise KeyError(name)


def get_ns(model, name):
    return model.namespaces[ns_index(model, name)]


def all_defs(model, ns_name=None):
    """Yield (ns_name, file_index, def_index, definition)."""
    for ns in model.namespaces:
        if ns_name is not None and ns.name != ns_name:
            continue
        for fi, f in enumerate(ns.files):
            for di, d in enumerate(f.defs):
                yield ns.name, fi, di, d


def find_def(model, ns_name, name, kinds=(Struct, Union, Alias)):
    for n, fi, di, d in all_defs(model, ns_name):
        if isinstance(d, kinds) and d.name == name:
            return fi, di, d
    return None


def replace_def(model, ns_name, fi, di, new):
    i = ns_index(model, ns_name)
    ns = model.namespaces[i]
    f = ns.files[fi]
    defs = f.defs[:di] + ((new,) if new is not None else ()) + f.defs[di + 1:]
    f2 = f._replace(defs=defs)
    ns2 = ns._replace(files=ns.files[:fi] + (f2,) + ns.files[fi + 1:])
    return model._replace(namespaces=model.namespaces[:i] + (ns2,) + model.namespaces[i + 1:])


def update_def(model, ns_name, name, fn, kinds=(Struct, Union, Alias)):
    fi, di, d = find_def(model, ns_name, name, kinds)
    return replace_def(model, ns_name, fi, di, fn(d))


def add_def(model, ns_name, fi, d, sort=True):
    i = ns_index(model, ns_name)
    ns = model.namespaces[i]
    f = ns.files[fi]
    defs = f.defs + (d,)
    if sort:
        defs = tuple(sorted(defs, key=def_sort_key))
    f2 = f._replace(defs=defs)
    ns2 = ns._replace(files=ns.files[:fi] + (f2,) + ns.files[fi + 1:])
    return model._replace(namespaces=model.namespaces[:i] + (ns2,) + model.namespaces[i + 1:])


def update_file(model, ns_name, fi, fn):
    i = ns_index(model, ns_name)
    ns = model.namespaces[i]
    f2 = fn(ns.files[fi])
    ns2 = ns._replace(files=ns.files[:fi] + (f2,) + ns.files[fi + 1:])
    return model._replace(namespaces=model.namespaces[:i] + (ns2,) + model.namespaces[i + 1:])


def add_ns(model, name, files=(EMPTY_FILE,)):
    nss = model.namespaces + (Namespace(name, tuple(files)),)
    return model._replace(namespaces=tuple(sorted(nss, key=lambda n: n.name)))


_KIND_RANK = {Annotation: 0, AnnType: 1, Alias: 2, Struct: 3, Union: 4, Route: 5, Patch: 6}


def def_sort_key(d):
    if isinstance(d, Route):
        return (_KIND_RANK[Route], d.name, d.version)
    if isinstance(d, Patch):
        return (_KIND_RANK[Patch], d.target, 0)
    return (_KIND_RANK[type(d)], d.name, 0)


# ---- type-level queries ------------------------------------------------------


def imports_of(model, ns_name):
    out = set()
    for f in get_ns(model, ns_name).files:
        out.update(f.imports)
    return out


def resolve(model, ns_name, ref):
    """Return (defining namespace, definition) for R, or None."""
    target_ns = ref.ns or ns_name
    try:
        get_ns(model, target_ns)
    except KeyError:
        return None
    r = find_def(model, target_ns, ref.name)
    if r is None:
        return None
    return target_ns, r[2]


def unalias(model, ns_name, t):
    """Follow aliases (not nullables). Returns (ns of the result's context, type expr)."""
    seen = 0
    while isinstance(t, R):
        r = resolve(model, ns_name, t)
        if r is None or not isinstance(r[1], Alias):
            break
        ns_name, t = r[0], r[1].type
        seen += 1
        if seen > 50:
            raise ValueError('alias cycle')
    return ns_name, t


def strip(model, ns_name, t):
    """Follow aliases and nullables down to the underlying type. Returns (ns, texpr, nullable, via_alias)."""
    nullable = False
    via_alias = False
    n = 0
    while True:
        n += 1
        if n > 100:
            raise ValueError('cycle')
        if isinstance(t, N):
            nullable = True
            t = t.inner
            continue
        if isinstance(t, R):
            r = resolve(model, ns_name, t)
            if r is not None and isinstance(r[1], Alias):
                ns_name, t = r[0], r[1].type
                via_alias = True
                continue
        return ns_name, t, nullable, via_alias


def is_nullable(model, ns_name, t):
    return strip(model, ns_name, t)[2]


def underlying_def(model, ns_name, t):
    """The struct/union a type expression denotes after aliases/nullable, or None."""
    ns2, t2, _, _ = strip(model, ns_name, t)
    if isinstance(t2, R):
        r = resolve(model, ns2, t2)
        if r is not None:
            return r
    return None


def struct_chain(model, ns_name, s):
    """[(ns, struct)] from s up to the root."""
    out = [(ns_name, s)]
    cur_ns, cur = ns_name, s
    n = 0
    while cur.parent is not None:
        n += 1
        if n > 50:
            raise ValueError('inheritance cycle')
        r = resolve(model, cur_ns, cur.parent)
        if r is None or not isinstance(r[1], type(s)):
            break
        cur_ns, cur = r
        out.append((cur_ns, cur))
    return out


def patches_for(model, ns_name, target):
    out = []
    for n, fi, di, d in all_defs(model, ns_name):
        if isinstance(d, Patch) and d.target == target:
            out.append(d)
    return out


def own_members(model, ns_name, d):
    """Own fields/tags of a struct/union including patched ones (patches in file/definition order)."""
    base = d.fields if isinstance(d, Struct) else d.tags
    extra = ()
    for p in patches_for(model, ns_name, d.name):
        extra += p.fields
    return base + extra


def children_of(model, ns_name, name):
    """[(ns, struct)] of all structs/unions (any namespace) whose parent is (ns_name, name)."""
    out = []
    for n, fi, di, d in all_defs(model):
        if isinstance(d, (Struct, Union)) and d.parent is not None:
            pns = d.parent.ns or n
            if pns == ns_name and d.parent.name == name:
                out.append((n, d))
    return out


def type_refs(t):
    """All R nodes inside a type expression."""
    if isinstance(t, R):
        yield t
    elif isinstance(t, L):
        yield from type_refs(t.item)
    elif isinstance(t, M):
        yield from type_refs(t.value)
    elif isinstance(t, N):
        yield from type_refs(t.inner)


def depth(t):
    if isinstance(t, L):
        return 1 + depth(t.item)
    if isinstance(t, M):
        return 1 + depth(t.value)
    if isinstance(t, N):
        return 1 + depth(t.inner)
    return 0


# ---- renaming (a pure change of names: the meaning of the model is the same up to the names) ---------------


def rename_types(model, mapping):
    """Rename structs / unions / aliases.  mapping: {(ns, old): new}.  References, subtype lists, patch targets and the doc
    references :type:`X` / :field:`X.f` are rewritten; everything else is untouched.  Definitions are re-sorted per file."""
    import re

    def ref(ns_name, r):
        target_ns = r.ns or ns_name
        new = mapping.get((target_ns, r.name))
        return r._replace(name=new) if new else r

    def texpr(ns_name, t):
        if isinstance(t, R):
            return ref(ns_name, t)
        if isinstance(t, L):
            return t._replace(item=texpr(ns_name, t.item))
        if isinstance(t, M):
            return t._replace(value=texpr(ns_name, t.value))
        if isinstance(t, N):
            return t._replace(inner=texpr(ns_name, t.inner))
        return t

    def doc(ns_name, text):
        if not text:
            return text

        def sub(m):
            tag, val = m.group(1), m.group(2)
            parts = val.split('.')
            if tag == 'type':
                if len(parts) == 2 and (parts[0], parts[1]) in mapping:
                    parts[1] = mapping[(parts[0], parts[1])]
                elif len(parts) == 1 and (ns_name, parts[0]) in mapping:
                    parts[0] = mapping[(ns_name, parts[0])]
            elif tag == 'field':
                if len(parts) == 3 and (parts[0], parts[1]) in mapping:
                    parts[1] = mapping[(parts[0], parts[1])]
                elif len(parts) == 2 and (ns_name, parts[0]) in mapping:
                    parts[0] = mapping[(ns_name, parts[0])]
            return ':%s:`%s`' % (tag, '.'.join(parts))
        return re.sub(r':(type|field):`([^`]+)`', sub, text)

    def member(ns_name, f):
        return f._replace(type=texpr(ns_name, f.type) if f.type is not None else None, doc=doc(ns_name, f.doc))

    nss = []
    for ns in model.namespaces:
        files = []
        for f in ns.files:
            defs = []
            for d in f.defs:
                if isinstance(d, Struct):
                    st = d.subtypes
                    if st is not None:
                        st = (st[0], tuple((tag, ref(ns.name, r)) for tag, r in st[1]))
                    d = d._replace(name=mapping.get((ns.name, d.name), d.name), parent=ref(ns.name, d.parent) if d.parent else None,
                                   fields=tuple(member(ns.name, x) for x in d.fields), subtypes=st, doc=doc(ns.name, d.doc))
                elif isinstance(d, Union):
                    d = d._replace(name=mapping.get((ns.name, d.name), d.name), parent=ref(ns.name, d.parent) if d.parent else None,
                                   tags=tuple(member(ns.name, x) for x in d.tags), doc=doc(ns.name, d.doc))
                elif isinstance(d, Alias):
                    d = d._replace(name=mapping.get((ns.name, d.name), d.name), type=texpr(ns.name, d.type), doc=doc(ns.name, d.doc))
                elif isinstance(d, Route):
                    d = d._replace(arg=texpr(ns.name, d.arg), result=texpr(ns.name, d.result), error=texpr(ns.name, d.error), doc=doc(ns.name, d.doc))
                elif isinstance(d, Patch):
                    d = d._replace(target=mapping.get((ns.name, d.target), d.target), fields=tuple(member(ns.name, x) for x in d.fields))
                elif isinstance(d, AnnType):
                    d = d._replace(params=tuple(member(ns.name, x) for x in d.params), doc=doc(ns.name, d.doc))
                defs.append(d)
            files.append(f._replace(doc=doc(ns.name, f.doc), defs=tuple(sorted(defs, key=def_sort_key))))
        nss.append(ns._replace(files=tuple(files)))
    return model._replace(namespaces=tuple(nss))


def reversed_names(model):
    """The model with, per namespace and kind (struct / union / alias), the names assigned in reverse alphabetical order:
    whatever was declared under the first name now carries the last one.  None if nothing changes."""
    mapping = {}
    for ns in model.namespaces:
        for kind in (Struct, Union, Alias):
            names = sorted(d.name for _, _, _, d in all_defs(model, ns.name) if isinstance(d, kind))
            for a, b in zip(names, reversed(names)):
                if a != b:
                    mapping[(ns.name, a)] = b
    if not mapping:
        return None
    return rename_types(model, mapping)
