"""Reference semantics, part 1: the expected API signature of a spec model.

Written from docs/lang_ref.rst and docs/backend_ref.rst (ordering promises); it never looks
at stone objects.  The produced structure mirrors impl.signature(); only the keys present
here are compared (see first_diff).
"""
import re

from .model import (P, L, M, N, R, VOID, NODEF, TagLit, Field, Tag, Struct, Union, Alias, Route, Annotation, AnnType,
                    Patch, AnnRef)
from . import model as mm

FLOATS = ('Float32', 'Float64')


def doc_unwrap(raw):
    """backend_ref.rst: N consecutive newlines become N-1, a lone newline becomes a space; surrounding whitespace dropped."""
    if raw is None:
        return None
    s = raw.strip()
    return re.sub(r'\n+', lambda m: ' ' if len(m.group(0)) == 1 else '\n' * (len(m.group(0)) - 1), s)


def tsig(model, ns_name, t):
    if isinstance(t, P):
        params = {}
        for k, v in t.args:
            if k == '':
                params['format'] = v
            elif t.kind in FLOATS and k in ('min_value', 'max_value'):
                params[k] = float(v)
            else:
                params[k] = v
        return ['P', t.kind, params]
    if isinstance(t, L):
        return ['L', tsig(model, ns_name, t.item), t.min_items, t.max_items]
    if isinstance(t, M):
        return ['M', ['P', 'String', {}], tsig(model, ns_name, t.value)]
    if isinstance(t, N):
        return ['N', tsig(model, ns_name, t.inner)]
    if isinstance(t, R):
        tns, d = mm.resolve(model, ns_name, t)
        return ['A' if isinstance(d, Alias) else 'U', tns, d.name]
    raise TypeError(t)


def vsig(model, ns_name, ftype, v):
    """Expected IR value of a literal given for a field of type ftype."""
    ns2, u, _, _ = mm.strip(model, ns_name, ftype)
    if isinstance(v, TagLit):
        tns, d = mm.resolve(model, ns2, u)
        return ['tag', tns, d.name, v.tag]
    if isinstance(u, P) and u.kind in FLOATS and isinstance(v, (int, float)) and not isinstance(v, bool):
        return ['float', float(v)]
    if isinstance(v, bool):
        return ['bool', v]
    if isinstance(v, int):
        return ['int', v]
    if isinstance(v, float):
        return ['float', v]
    if isinstance(v, str):
        return ['str', v]
    if v is None:
        return ['null']
    raise TypeError(v)


def annotations_of(model, ns_name, refs):
    """Resolve AnnRefs to Annotation definitions: [(defining ns, Annotation)]."""
    out = []
    for a in refs:
        ans = a.ns or ns_name
        for n, fi, di, d in mm.all_defs(model, ans):
            if isinstance(d, Annotation) and d.name == a.name:
                out.append((ans, d))
    return out


def _ann_sig(model, ans, a):
    d = {'cls': a.kind if a.kind in ('Omitted', 'RedactedBlot', 'RedactedHash', 'Deprecated', 'Preview') else 'CustomAnnotation',
         'name': a.name, 'ns': ans}
    if a.kind in ('RedactedBlot', 'RedactedHash'):
        d['regex'] = a.args[0] if a.args else dict(a.kwargs).get('regex')
    if a.kind == 'Omitted':
        d['caller'] = a.args[0] if a.args else dict(a.kwargs).get('omitted_caller')
    return d


def fsig(model, ns_name, f, is_struct):
    anns = annotations_of(model, ns_name, f.anns)
    d = {'name': f.name, 'raw_doc': f.doc,
         'type': ['P', 'Void', {}] if f.type is None else tsig(model, ns_name, f.type)}
    omitted = [a for _, a in anns if a.kind == 'Omitted']
    red = [(n, a) for n, a in anns if a.kind in ('RedactedBlot', 'RedactedHash')]
    d['omitted'] = _ann_sig(model, None, omitted[0])['caller'] if omitted else None
    d['redactor'] = _ann_sig(model, red[0][0], red[0][1]) if red else None
    d['deprecated'] = any(a.kind == 'Deprecated' for _, a in anns)
    d['preview'] = any(a.kind == 'Preview' for _, a in anns)
    if not anns:
        d['doc'] = doc_unwrap(f.doc)
    if is_struct:
        d['has_default'] = f.default != NODEF
        d['default'] = vsig(model, ns_name, f.type, f.default) if f.default != NODEF else None
    else:
        d['catch_all'] = False
    return d


def _alias_nullable_in_chain(model, ns_name, s):
    for cns, cs in mm.struct_chain(model, ns_name, s):
        for f in mm.own_members(model, cns, cs):
            if not isinstance(f.type, N) and mm.is_nullable(model, cns, f.type):
                return True
    return False


def struct_all_fields(model, ns_name, s):
    chain = list(reversed(mm.struct_chain(model, ns_name, s)))   # root first
    req, opt = [], []
    for cns, cs in chain:
        for f in mm.own_members(model, cns, cs):
            if mm.is_nullable(model, cns, f.type) or f.default != NODEF:      # nullable also through an alias
                opt.append(f.name)
            else:
                req.append(f.name)
    return req, opt


def union_all_tags(model, ns_name, u):
    """[(name, type-or-None, is_catch_all)] parents first, including implicit catch-all tags."""
    out = []
    chain = list(reversed(mm.struct_chain(model, ns_name, u)))
    prev = None
    for cns, cu in chain:
        for t in mm.own_members(model, cns, cu):
            out.append((t.name, t.type, False, cns))
        if not cu.closed and (prev is None or prev.closed):
            out.append(('other', None, True, cns))
        prev = cu
    return out


def typesig(model, ns_name, d):
    o = {'kind': 'struct' if isinstance(d, Struct) else 'union', 'name': d.name, 'ns': ns_name, 'raw_doc': d.doc,
         'doc': doc_unwrap(d.doc)}
    if d.parent is not None:
        pns, pd = mm.resolve(model, ns_name, d.parent)
        o['parent'] = [pns, pd.name]
    else:
        o['parent'] = None
    members = mm.own_members(model, ns_name, d)
    if isinstance(d, Struct):
        o['fields'] = [fsig(model, ns_name, f, True) for f in members]
        req, opt = struct_all_fields(model, ns_name, d)
        o['all_fields'] = req + opt
        o['all_required_fields'] = req
        o['all_optional_fields'] = opt
        if d.subtypes is not None:
            closed, subs = d.subtypes
            tags = [[t, [ns_name, r.name]] for t, r in subs]
            o['subtypes'] = {'catch_all': not closed, 'tags': tags, 'all': [[[t], x] for t, x in tags]}
        else:
            o['subtypes'] = None
        o['child_types'] = sorted([n, c.name] for n, c in mm.children_of(model, ns_name, d.name))
    else:
        fields = [fsig(model, ns_name, t, False) for t in members]
        o['closed'] = bool(d.closed)
        parent_closed = None
        if d.parent is not None:
            parent_closed = mm.resolve(model, ns_name, d.parent)[1].closed
        if not d.closed and (d.parent is None or parent_closed):
            fields.append({'name': 'other', 'raw_doc': None, 'doc': None, 'type': ['P', 'Void', {}], 'omitted': None,
                           'redactor': None, 'deprecated': False, 'preview': False, 'catch_all': True})
            o['catch_all_field'] = 'other'
        else:
            o['catch_all_field'] = None
        o['fields'] = fields
        o['all_fields'] = [t[0] for t in union_all_tags(model, ns_name, d)]
    o['examples'] = expected_examples(model, ns_name, d)
    o['annotations_below'] = annotations_below(model, ns_name, d)
    return o


def annotations_below(model, ns_name, d):
    """Custom annotations applied to any member (or alias) reachable from definition d through parents, member types, alias
    targets, list items, map values and nullables - a plain reachability closure, so the members of a reference cycle agree."""
    found = set()
    seen = set()
    todo = [(ns_name, d)]
    while todo:
        n, x = todo.pop()
        key = (n, getattr(x, 'name', None), type(x).__name__)
        if key in seen:
            continue
        seen.add(key)
        refs = []
        if isinstance(x, (Struct, Union)):
            if x.parent is not None:
                refs += [(n, r) for r in mm.type_refs(x.parent)]
            for f in mm.own_members(model, n, x):
                for an, a in annotations_of(model, n, f.anns):
                    if a.kind not in ('Omitted', 'RedactedBlot', 'RedactedHash', 'Deprecated', 'Preview'):
                        found.add('%s@%s' % (f.name, a.name))
                if f.type is not None:
                    refs += [(n, r) for r in mm.type_refs(f.type)]
        elif isinstance(x, Alias):
            for an, a in annotations_of(model, n, x.anns):
                if a.kind not in ('Omitted', 'RedactedBlot', 'RedactedHash', 'Deprecated', 'Preview'):
                    found.add('%s@%s' % (x.name, a.name))
            refs += [(n, r) for r in mm.type_refs(x.type)]
        for rn, r in refs:
            t = mm.resolve(model, rn, r)
            if t is not None:
                todo.append(t)
    return sorted(found)


def schema_fields(model):
    """The fields of stone_cfg.Route in all_fields order, or []."""
    try:
        mm.get_ns(model, 'stone_cfg')
    except KeyError:
        return []
    r = mm.find_def(model, 'stone_cfg', 'Route', (Struct,))
    if r is None:
        return []
    s = r[2]
    req, opt = struct_all_fields(model, 'stone_cfg', s)
    by = {}
    for cns, cs in mm.struct_chain(model, 'stone_cfg', s):
        for f in mm.own_members(model, cns, cs):
            by[f.name] = f
    return [by[n] for n in req + opt]


def routesig(model, ns_name, r, schema):
    dep = None
    if r.deprecated is True:
        dep = ['dep', None]
    elif r.deprecated:
        dep = ['dep', [r.deprecated[0], r.deprecated[1]]]
    attrs = {}
    given = dict(r.attrs)
    for f in schema:
        if f.name in given and given[f.name] is not None:
            attrs[f.name] = attr_vsig(model, f, given[f.name])
        elif f.default != NODEF:
            attrs[f.name] = vsig(model, 'stone_cfg', f.type, f.default)
        else:
            attrs[f.name] = ['null']
    return {'name': r.name, 'version': r.version, 'deprecated': dep, 'arg': tsig(model, ns_name, r.arg),
            'result': tsig(model, ns_name, r.result), 'error': tsig(model, ns_name, r.error), 'raw_doc': r.doc,
            'doc': doc_unwrap(r.doc), 'attrs': attrs}


def attr_vsig(model, f, v):
    ns2, u, _, _ = mm.strip(model, 'stone_cfg', f.type)
    if isinstance(u, P) and u.kind == 'Timestamp' and isinstance(v, str):
        import datetime
        return ['datetime', datetime.datetime.strptime(v, dict(u.args)['']).isoformat()]
    if isinstance(u, P) and u.kind == 'Bytes' and isinstance(v, str):
        return ['str', v]
    if isinstance(u, P) and u.kind in FLOATS and isinstance(v, int) and not isinstance(v, bool):
        return None      # int literal for a float attribute: representation not specified
    return vsig(model, 'stone_cfg', f.type, v)


def alias_sig(model, ns_name, a):
    d = {'name': a.name, 'type': tsig(model, ns_name, a.type), 'raw_doc': a.doc, 'doc': doc_unwrap(a.doc)}
    anns = annotations_of(model, ns_name, a.anns)
    red = [(n, x) for n, x in anns if x.kind in ('RedactedBlot', 'RedactedHash')]
    d['redactor'] = _ann_sig(model, red[0][0], red[0][1]) if red else None
    return d


def referenced_namespaces(model, ns_name):
    """(all, data_type_only): namespaces this namespace refers to through `ns.Name` type references."""
    allr, dtr = set(), set()

    def visit(t):
        if t is None:
            return
        for r in mm.type_refs(t):
            if r.ns is not None:
                res = mm.resolve(model, ns_name, r)
                if res is None:
                    continue
                allr.add(r.ns)
                if not isinstance(res[1], Alias):
                    dtr.add(r.ns)
    for n, fi, di, d in mm.all_defs(model, ns_name):
        if isinstance(d, Struct):
            visit(d.parent)
            for f in d.fields:
                visit(f.type)
        elif isinstance(d, Union):
            visit(d.parent)
            for t in d.tags:
                visit(t.type)
        elif isinstance(d, Alias):
            visit(d.type)
        elif isinstance(d, Route):
            visit(d.arg), visit(d.result), visit(d.error)
        elif isinstance(d, Patch):
            for f in d.fields:
                visit(f.type)
        elif isinstance(d, AnnType):
            for f in d.params:
                visit(f.type)
    return allr, dtr


def uses_annotations(model):
    return any(isinstance(d, AnnType) or (isinstance(d, Annotation) and d.kind_ns) for _, _, _, d in mm.all_defs(model))


def expected_signature(model, with_examples=None):
    names = sorted(ns.name for ns in model.namespaces if ns.name != 'stone_cfg')
    out = {'namespaces': names, 'ns': {}}
    schema = schema_fields(model)
    ann = uses_annotations(model)
    for name in names:
        ns = mm.get_ns(model, name)
        docs = [doc_unwrap(f.doc) + '\n' for f in ns.files if f.doc is not None]
        defs = [d for _, _, _, d in mm.all_defs(model, name)]
        types = [d for d in defs if isinstance(d, (Struct, Union))]
        aliases = [d for d in defs if isinstance(d, Alias)]
        routes = [d for d in defs if isinstance(d, Route)]
        o = {'name': name, 'doc': ''.join(docs) if docs else None,
             'data_types': sorted(d.name for d in types),
             'aliases': sorted(d.name for d in aliases),
             'routes': sorted([r.name, r.version] for r in routes),
             'annotations': sorted(d.name for d in defs if isinstance(d, Annotation)),
             'annotation_types_set': sorted(d.name for d in defs if isinstance(d, AnnType)),
             'types': {d.name: typesig(model, name, d) for d in types},
             'alias': {a.name: alias_sig(model, name, a) for a in aliases},
             'route': {'%s:%d' % (r.name, r.version): routesig(model, name, r, schema) for r in routes},
             'by_name': {'data_type': sorted(d.name for d in types), 'alias': sorted(d.name for d in aliases),
                         'route': sorted(r.name for r in routes if r.version == 1),
                         'routes': sorted([r.name, r.version] for r in routes)},
             }
        if not ann:
            allr, dtr = referenced_namespaces(model, name)
            o['imports'] = sorted(allr)
            o['imports_data_type'] = sorted(dtr)
        for r in list(o['route'].values()):
            for k in [k for k, v in r['attrs'].items() if v is None]:
                del r['attrs'][k]
        out['ns'][name] = o
    out['route_schema_names'] = [f.name for f in schema]
    return out


def first_diff(exp, act, path=''):
    """First position where `act` departs from `exp`; only keys of `exp` are compared. None if none."""
    if isinstance(exp, dict):
        if not isinstance(act, dict):
            return path, exp, act
        for k in exp:
            if k.endswith('_set'):
                base = k[:-4]
                a = act.get(base)
                if sorted(a) if isinstance(a, list) else a != exp[k]:
                    if (sorted(a) if isinstance(a, list) else a) != exp[k]:
                        return path + '.' + base + '(set)', exp[k], a
                continue
            if k == 'route_schema_names':
                a = [f['name'] for f in (act.get('route_schema') or [])]
                if a != exp[k]:
                    return path + '.route_schema', exp[k], a
                continue
            if k not in act:
                return path + '.' + k, exp[k], '<missing>'
            d = first_diff(exp[k], act[k], path + '.' + k)
            if d:
                return d
        return None
    if isinstance(exp, list):
        if not isinstance(act, list) or len(exp) != len(act):
            return path, exp, act
        for i, (e, a) in enumerate(zip(exp, act)):
            d = first_diff(e, a, '%s[%d]' % (path, i))
            if d:
                return d
        return None
    if isinstance(exp, float) and isinstance(act, float):
        return None if exp == act else (path, exp, act)
    if type(exp) is not type(act) and not (isinstance(exp, (int, float)) and isinstance(act, (int, float))
                                           and not isinstance(exp, bool) and not isinstance(act, bool)):
        return path, exp, act
    return None if exp == act else (path, exp, act)


def diff_identity(path):
    """Erase indices and concrete names from a diff path: `.ns.na.types.Sa.fields[1].type` -> `ns.*.types.*.fields.type`."""
    p = re.sub(r'\[\d+\]', '', path)
    parts = [x for x in p.split('.') if x]
    out = []
    skip_next = False
    for i, x in enumerate(parts):
        if skip_next:
            out.append('*')
            skip_next = False
            continue
        out.append(x)
        if x in ('ns', 'types', 'alias', 'route', 'attrs', 'examples', 'annotation', 'annotation_type'):
            skip_next = True
    return '.'.join(out)


# ---------------------------------------------------------------------------
# expected examples (lang_ref.rst "Examples", "union-examples"; backend_ref: get_examples())


def _jsonable(v):
    from .render import RawMap
    if isinstance(v, RawMap):
        return {k: _jsonable(x) for k, x in v.items}
    if isinstance(v, (list, tuple)):
        return [_jsonable(x) for x in v]
    return v


def _example_of(model, ns_name, d, label, depth=0):
    """Expected JSON value of example `label` of struct/union d, or raises KeyError."""
    if depth > 20:
        raise KeyError('example reference cycle')
    if isinstance(d, Struct):
        ex = None
        for e in d.examples:
            if e.label == label:
                ex = e
        if ex is None:
            raise KeyError(label)
        given = dict(ex.fields)
        for p_ in mm.patches_for(model, ns_name, d.name):
            for pe in p_.examples:
                if pe.label == label:
                    given.update(dict(pe.fields))
        if d.subtypes is not None:
            (tag, ref), = given.items()
            leaf_ref = dict(d.subtypes[1])[tag]
            lns, leaf = mm.resolve(model, ns_name, leaf_ref)
            out = {'.tag': tag}
            out.update(_example_of(model, lns, leaf, ref.tag, depth + 1))
            return out
        out = {}
        for cns, cs in reversed(mm.struct_chain(model, ns_name, d)):
            for f in mm.own_members(model, cns, cs):
                if f.name in given:
                    if given[f.name] is None:
                        continue
                    out[f.name] = _example_json(model, cns, f.type, given[f.name], depth)
                elif f.default != NODEF:
                    if isinstance(f.default, TagLit):
                        out[f.name] = {'.tag': f.default.tag}
                    else:
                        out[f.name] = vsig(model, cns, f.type, f.default)[1]
        return out
    # union
    for e in d.examples:
        if e.label == label:
            (tag, val), = e.fields
            ttype = None
            tns = ns_name
            for (n, t, ca, cns) in union_all_tags(model, ns_name, d):
                if n == tag:
                    ttype, tns = t, cns
            out = {'.tag': tag}
            if ttype is None or val is None:
                return out
            ns2, u, _, _ = mm.strip(model, tns, ttype)
            inner = _example_json(model, tns, ttype, val, depth)
            target = mm.resolve(model, ns2, u) if isinstance(u, R) else None
            if target is not None and isinstance(target[1], Struct) and target[1].subtypes is None:
                out.update(inner)
            else:
                out[tag] = inner
            return out
    for (n, t, ca, cns) in union_all_tags(model, ns_name, d):
        if n == label and t is None:
            return {'.tag': n}
    raise KeyError(label)


def _example_json(model, ns_name, t, val, depth):
    from .render import RawMap
    ns2, u, _, _ = mm.strip(model, ns_name, t)
    if isinstance(val, TagLit):
        tns, td = mm.resolve(model, ns2, u)
        return _example_of(model, tns, td, val.tag, depth + 1)
    if isinstance(val, RawMap):
        return {k: _example_json(model, ns2, u.value, x, depth) for k, x in val.items}
    if isinstance(val, (list, tuple)):
        return [_example_json(model, ns2, u.item, x, depth) for x in val]
    return val


def expected_examples(model, ns_name, d):
    out = {}
    for e in d.examples:
        out[e.label] = {'text': doc_unwrap(e.text) if e.text else e.text, 'value': _example_of(model, ns_name, d, e.label)}
    if isinstance(d, Union):
        for (n, t, ca, cns) in union_all_tags(model, ns_name, d):
            if t is None:
                out[n] = {'text': None, 'value': {'.tag': n}}
    return out
