"""Feature-family profiles of the construction machine (DESIGN 3.2).

A profile = the always-on scaffold (struct+, field+) plus a small set of families.  The quick
tier explores every *pair* of families, the thorough tier every *triple*, each to the deepest
depth whose complete state space stays below a per-profile budget (`explore_budget`).
"""
import itertools

from .model import prim, ts, P
from .machine import Profile
from .machine_ext import SpecMachineExt as SpecMachine
from . import explore

# family -> (machine feature flags, profile keyword overrides)
FAMILIES = {
    'F1-imports': (('ns', 'imports'), dict(max_ns=2)),
    'F2-files': (('files',), dict(max_files=2)),
    'F3-inherit': (('inherit',), dict(max_structs=3)),
    'F4-subtypes': (('subtypes',), dict(max_structs=3)),
    'F5-unions': (('unions', 'uinherit'), dict(max_unions=2)),
    'F6-aliases': (('aliases',), dict(max_aliases=2)),
    'F7-wrappers': (('wrappers',), dict(nest=1)),
    'F8-params': ((), dict(prims=(prim('Int32', min_value=-2147483648, max_value=5), prim('UInt64', max_value=2**64 - 1),
                                  prim('Float64', min_value=-1, max_value=2.5), prim('Float32', max_value=3.40282e38),
                                  prim('String', min_length=1, max_length=3), prim('String', pattern='[a-c]+'),
                                  ts('%Y-%m-%dT%H:%M:%SZ'), prim('Bytes'), prim('Boolean')))),
    'F9-defaults': (('defaults',), dict()),
    'F12-routes': (('routes', 'versions', 'deprecation'), dict(max_routes=2)),
    'F10-examples': (('examples',), dict()),
    'F11-docs': (('docs',), dict()),
    'F13-annotations': (('annotations',), dict()),
    'F14-patches': (('patches',), dict(max_files=2)),
    'F12b-attrs': (('routes', 'attrs'), dict(max_routes=2)),
    'F12c-attrs-required': (('routes', 'attrs'), dict(max_routes=2, schema=1)),
    'F12d-attrs-mixed-order': (('routes', 'attrs'), dict(max_routes=2, schema=2)),
}

IMPLEMENTED = None   # set by machine: families whose actions exist


def make_profile(fams, depth=8):
    flags = set()
    kw = {}
    for f in fams:
        fl, over = FAMILIES[f]
        flags.update(fl)
        for k, v in over.items():
            if k in kw and isinstance(v, int) and isinstance(kw[k], int):
                kw[k] = max(kw[k], v)
            else:
                kw[k] = v
    kw.setdefault('prims', (prim('Int32'),))
    kw.setdefault('max_fields', 2 if ('defaults' in flags or 'examples' in flags) else 1)
    return Profile('+'.join(fams), flags, depth, **kw)


def combos(k, families=None):
    fams = families or [f for f in FAMILIES if implemented(f)]
    return list(itertools.combinations(fams, k))


def implemented(f):
    from . import machine
    return all(fl in machine.IMPLEMENTED_FLAGS for fl in FAMILIES[f][0])


def explore_budget(profile, budget, max_depth=8):
    """Deepest complete BFS whose state count stays <= budget."""
    m = SpecMachine(profile)
    best = None
    for d in range(1, max_depth + 1):
        r = explore.bfs(m, d, max_states=budget + 1)
        if r.caps_hit:
            break
        best = r
        if r.per_depth and r.per_depth[-1] == 0:
            break
    return best


def cross_namespace_models():
    """A product family that the pair profiles reach only at great depth: every primitive of the parameter menu, bare and
    wrapped, aliased in one namespace and used directly as a field / tag / route type in that namespace AND in an
    importing one (both alphabetical orders of importer and imported), with no other use of that primitive there."""
    from .model import (Model, Namespace, File, Alias, R, N, L, M, VOID, mkfield, mktag, mkstruct, mkunion, mkroute)
    prims = FAMILIES['F8-params'][1]['prims']
    out = []
    for pi, p in enumerate(prims):
        for wi, wrap in enumerate([lambda t: t, lambda t: N(t), lambda t: L(t, None, None), lambda t: M(t)]):
            for home, user in (('na', 'nb'), ('nb', 'na')):
                al = Alias('Aal', p, None, ())
                home_defs = (al, mkstruct('Sho', fields=[mkfield('fh', wrap(R(None, 'Aal')))]))
                user_defs = (mkstruct('Sus', fields=[mkfield('fu', wrap(R(home, 'Aal')))]),
                             mkunion('Uus', tags=[mktag('tv'), mktag('tu', wrap(R(home, 'Aal')))]),
                             mkroute('rus', 1, wrap(R(home, 'Aal')), VOID, VOID))
                nss = {home: Namespace(home, (File(None, (), home_defs),)), user: Namespace(user, (File(None, (home,), user_defs),))}
                out.append((Model((nss['na'], nss['nb'])), ('cross-namespace-alias', 'prim%d' % pi, 'wrap%d' % wi, home + '->' + user)))
    return out


def annotation_models():
    """Custom annotation types, which the construction machine's annotation family (built-in annotations only) does not build:
    annotation types with 0 / 1 / 2 parameters (with and without defaults and docs), annotations created from them with
    positional and keyword arguments, applied to struct fields, union tags and aliases, locally and from an imported namespace."""
    from .model import (Model, Namespace, File, Alias, AnnType, Annotation, AnnRef, R, N, L, P, VOID, mkfield, mktag, mkstruct, mkunion, mkroute)
    I32, STR, BOOL, F64 = P('Int32', ()), P('String', ()), P('Boolean', ()), P('Float64', ())
    out = []
    param_sets = [
        ('p0', ()),
        ('p1', (mkfield('level', I32),)),
        ('p1d', (mkfield('note', STR, 'n/a', doc='A note with "quotes".'),)),
        ('p2', (mkfield('level', I32), mkfield('flag', BOOL, True))),
        ('p2n', (mkfield('ratio', N(F64)), mkfield('note', STR, 'a b'))),
    ]
    for pname, params in param_sets:
        for doc in (None, 'Marks things.\n\nSecond paragraph.'):
            if not params and doc is None:
                continue        # an annotation type needs a body: a doc or a parameter
            at = AnnType('Mark', params, doc)
            required = [p for p in params if p.default == ('nodef',) and not isinstance(p.type, N)]
            arg_sets = []
            vals = {'level': 3, 'flag': False, 'note': 'hello', 'ratio': 1.5}
            arg_sets.append(((), tuple((p.name, vals[p.name]) for p in required)))                      # keyword arguments, required only
            arg_sets.append((tuple(vals[p.name] for p in params), ()))                                  # all positional
            if len(params) == 2:
                arg_sets.append(((vals[params[0].name],), ()))                                          # a positional prefix (when the rest is optional)
                if params[1].default == ('nodef',) and not isinstance(params[1].type, N):
                    arg_sets.pop()
            for ai, (args, kwargs) in enumerate(arg_sets):
                for home in (None, 'nb'):
                    ann = Annotation('Mk', 'Mark', None, args, kwargs)
                    ann2 = Annotation('Mk2', 'Mark', None if home is None else 'nb', args, kwargs)
                    user = (mkstruct('Sus', fields=[mkfield('fa', I32, anns=(AnnRef(home, 'Mk'),)), mkfield('fb', N(STR), anns=(AnnRef(None, 'Mk2'),))]),
                            mkunion('Uus', tags=[mktag('tv'), mktag('tu', STR, anns=(AnnRef(home, 'Mk'),))]),
                            Alias('Aus', I32, None, (AnnRef(None, 'Mk2'),)),
                            mkroute('rus', 1, R(None, 'Sus'), VOID, VOID),
                            ann2)
                    if home is None:
                        na = Namespace('na', (File(None, (), tuple(sorted((at, ann) + user, key=mm_def_key))),))
                        model = Model((na,))
                    else:
                        nb = Namespace('nb', (File(None, (), (ann, at)),))
                        na = Namespace('na', (File(None, ('nb',), tuple(sorted(user, key=mm_def_key))),))
                        model = Model((na, nb))
                    out.append((model, ('annotation-types', pname, 'doc' if doc else 'nodoc', 'args%d' % ai, 'imported' if home else 'local')))
    # custom annotations inside reference cycles: which annotations apply below a type must not depend on the order of the definitions
    import itertools
    at = AnnType('Mark', (mkfield('level', I32),), None)
    mk = Annotation('Mk', 'Mark', None, (), (('level', 1),))
    mk2 = Annotation('Mk2', 'Mark', None, (), (('level', 2),))
    cyc = {'Ca': mkstruct('Ca', fields=[mkfield('b', N(R(None, 'Cb')))]),
           'Cb': mkstruct('Cb', fields=[mkfield('a', N(R(None, 'Ca'))), mkfield('x', I32, anns=(AnnRef(None, 'Mk'),)), mkfield('d', N(R(None, 'Cd')))]),
           'Cd': mkstruct('Cd', fields=[mkfield('plain', I32)], doc='referred to by an annotated struct, but it reaches no annotation itself'),
           'Cc': mkstruct('Cc', fields=[mkfield('a', L(R(None, 'Ca'), None, None)), mkfield('y', N(STR), anns=(AnnRef(None, 'Mk2'),))])}
    rest = (mkunion('Cu', tags=[mktag('tv'), mktag('ta', R(None, 'Ca')), mktag('tc', N(R(None, 'Cc')))]), mkroute('rcy', 1, R(None, 'Ca'), R(None, 'Cu'), VOID))
    for perm in itertools.permutations(sorted(cyc)):
        defs = (at, mk, mk2) + tuple(cyc[k] for k in perm) + rest
        out.append((Model((Namespace('na', (File(None, (), defs),)),)), ('annotation-types', 'reference-cycle', 'order ' + ' '.join(perm))))
    return out


def mm_def_key(d):
    from . import model as mm
    return mm.def_sort_key(d)


def cross_namespace_inheritance_models():
    """Inheritance across namespaces where the parent's members use names local to the parent's namespace, with and without
    same-named definitions in the child's namespace, for both alphabetical orders of the two namespaces (the importing file is
    compiled first in one of them, the imported one in the other)."""
    from .model import (Model, Namespace, File, Alias, TagLit, R, N, L, M, P, VOID, mkfield, mktag, mkstruct, mkunion, mkroute)
    I32, STR = P('Int32', ()), P('String', ())
    out = []
    member_types = [('direct', R(None, 'Dep')), ('list', L(R(None, 'Dep'), None, None)), ('nullable', N(R(None, 'Dep'))), ('alias', R(None, 'DepAl')),
                    ('map', M(R(None, 'Dep'))), ('union', R(None, 'DepU'))]
    for home, user in (('na', 'nb'), ('nb', 'na')):
        for kind in ('struct', 'union'):
            for mname, mt in member_types:
                for same in (False, True):
                    for with_default in ((False, True) if (kind == 'struct' and mname == 'union') else (False,)):
                        home_defs = [mkstruct('Dep', fields=[mkfield('x', I32)]), Alias('DepAl', R(None, 'Dep'), None, ()),
                                     mkunion('DepU', tags=[mktag('dv'), mktag('dw', R(None, 'Dep'))])]
                        if kind == 'struct':
                            home_defs.append(mkstruct('Parent', fields=[mkfield('m', mt, TagLit('dv') if with_default else ('nodef',))]))
                            user_defs = [mkstruct('Child', parent=R(home, 'Parent'), fields=[mkfield('c', I32)]),
                                         mkroute('rc', 1, R(None, 'Child'), VOID, VOID)]
                        else:
                            home_defs.append(mkunion('Parent', tags=[mktag('pv'), mktag('m', mt)]))
                            user_defs = [mkunion('Child', parent=R(home, 'Parent'), tags=[mktag('c')]),
                                         mkroute('rc', 1, R(None, 'Child'), VOID, VOID)]
                        if same:
                            user_defs += [mkstruct('Dep', fields=[mkfield('y', STR)]), Alias('DepAl', STR, None, ()),
                                          mkunion('DepU', tags=[mktag('dx'), mktag('dv', STR)])]
                        nss = {home: Namespace(home, (File(None, (), tuple(sorted(home_defs, key=mm_def_key))),)),
                               user: Namespace(user, (File(None, (home,), tuple(sorted(user_defs, key=mm_def_key))),))}
                        out.append((Model((nss['na'], nss['nb'])), ('cross-namespace-inheritance', kind, mname, 'same-names' if same else 'distinct', 'default' if with_default else 'plain',
                                                                    home + '<-' + user)))
    return out


def three_namespace_chain_models():
    """Alias chains that span three namespaces: `low` defines a struct and a union, `mid` aliases them, `top` aliases the aliases
    and uses them (field, nullable, list item, tag default, parent through the alias chain is not allowed) without ever naming `low`.
    Every assignment of the three roles to the names na / nb / nc (six import-order situations)."""
    import itertools
    from .model import (Model, Namespace, File, Alias, TagLit, R, N, L, M, P, VOID, mkfield, mktag, mkstruct, mkunion, mkroute)
    I32 = P('Int32', ())
    out = []
    for low, mid, top in itertools.permutations(('na', 'nb', 'nc')):
        for variant in ('alias-of-alias', 'direct-use-of-mid', 'both'):
            low_defs = (mkstruct('Base', fields=[mkfield('x', I32)]), mkunion('Mode', tags=[mktag('serial'), mktag('parallel', I32)]))
            mid_defs = (Alias('MidBase', R(low, 'Base'), None, ()), Alias('MidMode', R(low, 'Mode'), None, ()), Alias('MidList', L(R(low, 'Base'), None, None), None, ()))
            top_defs = []
            fields = []
            if variant in ('alias-of-alias', 'both'):
                top_defs += [Alias('TopBase', R(mid, 'MidBase'), None, ()), Alias('TopMode', R(mid, 'MidMode'), None, ())]
                fields += [mkfield('tb', R(None, 'TopBase')), mkfield('tm', R(None, 'TopMode'), TagLit('serial')), mkfield('tn', N(R(None, 'TopBase')))]
            if variant in ('direct-use-of-mid', 'both'):
                fields += [mkfield('mb', R(mid, 'MidBase')), mkfield('mm', R(mid, 'MidMode'), TagLit('serial')), mkfield('ml', R(mid, 'MidList')),
                           mkfield('mq', L(R(mid, 'MidMode'), None, None))]
            top_defs += [mkstruct('Use', fields=fields), mkunion('UseU', tags=[mktag('uv'), mktag('ub', R(mid, 'MidBase')), mktag('um', N(R(mid, 'MidMode')))]),
                         mkroute('ru', 1, R(None, 'Use'), R(mid, 'MidBase'), R(None, 'UseU'))]
            nss = {low: Namespace(low, (File(None, (), tuple(sorted(low_defs, key=mm_def_key))),)),
                   mid: Namespace(mid, (File(None, (low,), tuple(sorted(mid_defs, key=mm_def_key))),)),
                   top: Namespace(top, (File(None, (mid,), tuple(sorted(top_defs, key=mm_def_key))),))}
            out.append((Model((nss['na'], nss['nb'], nss['nc'])), ('three-namespace-alias-chain', variant, 'low=%s mid=%s top=%s' % (low, mid, top))))
    return out


def import_reason_models():
    """Why a namespace is imported: the complete product.  `nx` offers a struct, a union, an alias, an annotation type with an
    annotation of that type, and an annotation whose type lives in a fourth namespace `ny`; `nb` aliases nx's struct.  `nc`
    imports nx and uses it for EVERY subset of the reasons {data type, alias, annotation of an nx type, annotation of a foreign
    type, annotation type, documentation reference} - the empty subset is an unused import - each with and without additionally
    reaching nx's struct through nb's alias (with nx imported, and in the 'via' variants also without importing nx at all)."""
    import itertools
    from .model import (Model, Namespace, File, Alias, AnnType, Annotation, AnnRef, R, N, L, P, VOID, mkfield, mktag, mkstruct, mkunion, mkroute)
    I32, STR = P('Int32', ()), P('String', ())
    ny = Namespace('ny', (File(None, (), (AnnType('Ftype', (mkfield('q', I32),), None),)),))
    nx_defs = (Alias('Aitem', R(None, 'Item'), None, ()), AnnType('Imp', (mkfield('p', I32),), None), Annotation('Far', 'Ftype', 'ny', (), (('q', 1),)),
               Annotation('High', 'Imp', None, (), (('p', 1),)), mkstruct('Item', fields=[mkfield('x', I32)]), mkunion('Kind', tags=[mktag('ka'), mktag('kb', I32)]))
    nx = Namespace('nx', (File(None, ('ny',), tuple(sorted(nx_defs, key=mm_def_key))),))
    nb = Namespace('nb', (File(None, ('nx',), (Alias('ItemRef', R('nx', 'Item'), None, ()), Alias('KindRef', R('nx', 'Kind'), None, ()))),))
    reasons = ['D', 'A', 'N', 'F', 'T', 'R']
    out = []
    for k in range(len(reasons) + 1):
        for sub in itertools.combinations(reasons, k):
            for via in (False, True):
                for import_nx in ((True, False) if (via and not sub) else (True,)):
                    fields = [mkfield('plain', I32)]
                    defs = []
                    if 'D' in sub:
                        fields.append(mkfield('d', R('nx', 'Item')))
                    if 'A' in sub:
                        fields.append(mkfield('a', N(R('nx', 'Aitem'))))
                    if 'N' in sub:
                        fields.append(mkfield('n', I32, anns=(AnnRef('nx', 'High'),)))
                    if 'F' in sub:
                        fields.append(mkfield('f', STR, anns=(AnnRef('nx', 'Far'),)))
                    if 'T' in sub:
                        defs.append(Annotation('Loc', 'Imp', 'nx', (), (('p', 2),)))
                        fields.append(mkfield('t', I32, anns=(AnnRef(None, 'Loc'),)))
                    if via:
                        fields.append(mkfield('v', R('nb', 'ItemRef')))
                        fields.append(mkfield('vk', L(R('nb', 'KindRef'), None, None)))
                    doc = 'Uses :type:`nx.Item` in words only.' if 'R' in sub else None
                    defs += [mkstruct('User', fields=fields, doc=doc), mkroute('ru', 1, R(None, 'User'), VOID, VOID)]
                    if via:
                        defs.append(mkunion('UserU', tags=[mktag('uv'), mktag('ur', R('nb', 'ItemRef'))]))
                        # a route whose signature names only aliases of a namespace that declares nothing but aliases
                        defs.append(mkroute('rv', 1, R('nb', 'ItemRef'), R('nb', 'KindRef'), N(R('nb', 'ItemRef'))))
                    imports = (('nb',) if via else ()) + (('nx',) if import_nx else ())
                    nc = Namespace('nc', (File(None, tuple(sorted(imports)), tuple(sorted(defs, key=mm_def_key))),))
                    out.append((Model((nb, nc, nx, ny)), ('import-reasons', '+'.join(sub) or 'unused', 'via-alias' if via else 'direct', 'nx-imported' if import_nx else 'nx-not-imported')))
    return out


def deep_inheritance_models():
    """Inheritance chains of four structs (and three unions) in which every level either adds nothing or adds a required and an
    optional field - all sixteen patterns, so that field-less middle levels and fields that exist only on a grandparent occur -
    inside one namespace and split over two (the two upper levels imported)."""
    import itertools
    from .model import (Model, Namespace, File, Alias, R, N, L, P, VOID, mkfield, mktag, mkstruct, mkunion, mkroute)
    I32, STR = P('Int32', ()), P('String', ())
    out = []
    for pattern in itertools.product((False, True), repeat=4):
        for split in (False, True):
            upper_ns = 'nb' if split else None
            defs_na, defs_nb = [], []
            for lvl, has in enumerate(pattern):
                fields = [mkfield('r%d' % lvl, I32), mkfield('o%d' % lvl, STR, 'd%d' % lvl)] if has else []
                home = defs_nb if (split and lvl < 2) else defs_na
                parent = None
                if lvl > 0:
                    parent = R(upper_ns if (split and lvl == 2) else None, 'Lv%d' % (lvl - 1))
                home.append(mkstruct('Lv%d' % lvl, parent=parent, fields=fields, doc=None if fields else 'level %d adds nothing' % lvl))
            defs_na += [mkstruct('Uses', fields=[mkfield('mid', N(R(None, 'Lv2'))), mkfield('leafs', L(R(None, 'Lv3'), None, None))]),
                        mkunion('Ua', tags=[mktag('a0'), mktag('a1', R(None, 'Lv3'))]),
                        mkunion('Ub', parent=R(None, 'Ua'), tags=[mktag('b0', I32)]),
                        mkunion('Uc', parent=R(None, 'Ub'), tags=[mktag('c0'), mktag('c1', N(R(None, 'Lv2')))]),
                        mkunion('Ka', closed=True, tags=[mktag('k0'), mktag('k1', I32)]),
                        mkunion('Kb', parent=R(None, 'Ka'), tags=[mktag('kb0')]),
                        mkunion('Kc', parent=R(None, 'Kb'), tags=[mktag('kc0', STR)]),
                        Alias('Al3', R(None, 'Lv3'), None, ()), Alias('AlS', STR, None, ()),
                        mkstruct('Lists', fields=[mkfield('la', L(N(R(None, 'Al3')), None, None)), mkfield('ls', L(N(R(None, 'AlS')), None, None)), mkfield('k', N(R(None, 'Kc')))]),
                        mkroute('rleaf', 1, R(None, 'Lv3'), R(None, 'Uc'), R(None, 'Lv2'))]
            na = Namespace('na', (File(None, ('nb',) if split else (), tuple(sorted(defs_na, key=mm_def_key))),))
            nss = (na, Namespace('nb', (File(None, (), tuple(sorted(defs_nb, key=mm_def_key))),))) if split else (na,)
            out.append((Model(nss), ('deep-inheritance', ''.join('F' if x else '-' for x in pattern), 'two-namespaces' if split else 'one-namespace')))
    return out


def path_route_models():
    """Route names with a path (`get/metadata`, lang_ref "Route"): alone, with several versions, as the successor of a deprecated
    route, next to a plain route of the corresponding underscore-free name, in one and two namespaces."""
    from .model import (Model, Namespace, File, R, N, L, P, VOID, mkfield, mktag, mkstruct, mkunion, mkroute)
    I32 = P('Int32', ())
    arg = mkstruct('Parg', fields=[mkfield('a', I32)])
    uni = mkunion('Perr', tags=[mktag('pv'), mktag('pt', I32)])
    out = []
    sets = [
        ('single', [mkroute('get/metadata', 1, R(None, 'Parg'), VOID, R(None, 'Perr'))]),
        ('versions', [mkroute('files/list/continue', 1, VOID, VOID, VOID), mkroute('files/list/continue', 2, R(None, 'Parg'), R(None, 'Parg'), VOID)]),
        ('successor', [mkroute('files/list/continue', 2, R(None, 'Parg'), VOID, VOID), mkroute('old', 1, VOID, VOID, VOID, deprecated=('files/list/continue', 2)),
                       mkroute('files/list/continue', 1, VOID, VOID, VOID, deprecated=True)]),
        ('mixed', [mkroute('a/b', 1, R(None, 'Parg'), VOID, VOID), mkroute('ab', 1, VOID, R(None, 'Perr'), VOID), mkroute('a/b/c', 3, VOID, VOID, VOID)]),
    ]
    for lab, routes in sets:
        defs = tuple(sorted([arg, uni] + routes, key=mm_def_key))
        out.append((Model((Namespace('na', (File(None, (), defs),)),)), ('path-routes', lab, 'one-namespace')))
        nb = Namespace('nb', (File(None, (), (arg, uni)),))

        def q(t):
            return R('nb', t.name) if isinstance(t, R) else t
        routes2 = tuple(sorted([r._replace(arg=q(r.arg), result=q(r.result), error=q(r.error)) for r in routes], key=mm_def_key))
        out.append((Model((Namespace('na', (File(None, ('nb',), routes2),)), nb)), ('path-routes', lab, 'types-imported')))
    return out


def tree_across_namespaces_models():
    """A struct with enumerated subtypes (open and closed) that is referred to from its own namespace and from an importing one -
    as field, nullable field, list item, map value, union member and route argument / result - for both alphabetical orders of the
    two namespaces (which of them a backend formats first)."""
    from .model import (Model, Namespace, File, Alias, R, N, L, M, P, VOID, mkfield, mktag, mkstruct, mkunion, mkroute)
    I32, STR = P('Int32', ()), P('String', ())
    out = []
    for home, far in (('na', 'nb'), ('nb', 'na')):
        for closed in (False, True):
            home_defs = [mkstruct('Root', fields=[mkfield('r', I32)], subtypes=(closed, (('leafa', R(None, 'LeafA')), ('leafb', R(None, 'LeafB'))))),
                         mkstruct('LeafA', parent=R(None, 'Root'), fields=[mkfield('a', N(STR))]),
                         mkstruct('LeafB', parent=R(None, 'Root'), fields=[mkfield('b', I32, 2)]),
                         mkstruct('UsesHome', fields=[mkfield('t', R(None, 'Root')), mkfield('lt', L(R(None, 'Root'), None, None))]),
                         mkunion('PickHome', tags=[mktag('ph'), mktag('pr', R(None, 'Root'))]),
                         mkroute('rhome', 1, R(None, 'Root'), R(None, 'UsesHome'), VOID)]
            far_defs = [mkstruct('UsesFar', fields=[mkfield('t', R(home, 'Root')), mkfield('nt', N(R(home, 'Root'))), mkfield('lt', L(R(home, 'Root'), None, None)),
                                                      mkfield('mt', M(R(home, 'LeafA')))]),
                        mkunion('PickFar', tags=[mktag('pf'), mktag('pr', R(home, 'Root')), mktag('pl', N(R(home, 'LeafB')))]),
                        Alias('FarRoot', R(home, 'Root'), None, ()),
                        mkroute('rfar', 1, R(home, 'Root'), R(None, 'UsesFar'), R(None, 'PickFar')),
                        mkroute('rfar', 2, R(None, 'FarRoot'), R(home, 'LeafA'), VOID)]
            nss = {home: Namespace(home, (File(None, (), tuple(sorted(home_defs, key=mm_def_key))),)),
                   far: Namespace(far, (File(None, (home,), tuple(sorted(far_defs, key=mm_def_key))),))}
            out.append((Model((nss['na'], nss['nb'])), ('tree-across-namespaces', 'closed' if closed else 'open', 'home=%s' % home)))
    return out
