"""Layout variants of a spec model (C11): everything the language reference says must not matter.

A variant is (kind, label, specs, variant_model_or_None) where specs is the [(path, text)] list handed to the
compiler in that order.  Structural variants (file order, definition order, splits) come with the variant model so
that the one documented order dependence (namespace docs concatenate in file order) can be recomputed.
"""
import itertools
import re

from . import render
from . import model as mm
from .model import File, Namespace, Model


def _specs_in_order(model, order=None):
    """order: list of (ns_name, file_index) giving the global file order."""
    files = [(ns.name, fi) for ns in model.namespaces for fi in range(len(ns.files))]
    order = order or files
    out = []
    for nsn, fi in order:
        ns = mm.get_ns(model, nsn)
        out.append((render.file_path(nsn, fi), render.render_file(nsn, ns.files[fi])))
    return out


def file_orders(model):
    files = [(ns.name, fi) for ns in model.namespaces for fi in range(len(ns.files))]
    n = len(files)
    if n < 2:
        return
    if n <= 4:
        perms = list(itertools.permutations(files))[1:]
    else:
        perms = [tuple(reversed(files))]
        for i in range(n - 1):
            p = list(files)
            p[i], p[i + 1] = p[i + 1], p[i]
            perms.append(tuple(p))
        for r in range(1, n):
            perms.append(tuple(files[r:] + files[:r]))
    for p in perms:
        yield 'file-order', ' '.join('%s/%d' % x for x in p), _specs_in_order(model, list(p)), (model, list(p))


def def_orders(model):
    for ns in model.namespaces:
        for fi, f in enumerate(ns.files):
            n = len(f.defs)
            if n < 2:
                continue
            if n <= 4:
                perms = list(itertools.permutations(range(n)))[1:]
            else:
                perms = [tuple(reversed(range(n)))] + [tuple(list(range(r, n)) + list(range(r))) for r in range(1, n)]
                for i in range(n - 1):
                    p = list(range(n))
                    p[i], p[i + 1] = p[i + 1], p[i]
                    perms.append(tuple(p))
            for p in perms:
                m2 = mm.update_file(model, ns.name, fi, lambda x, p=p: x._replace(defs=tuple(x.defs[i] for i in p)))
                yield 'def-order', '%s/%d %s' % (ns.name, fi, p), _specs_in_order(m2), (m2, None)


def _partitions(items, max_blocks):
    """All set partitions of items into at most max_blocks blocks (blocks ordered by first element)."""
    if not items:
        yield []
        return
    first, rest = items[0], items[1:]
    for part in _partitions(rest, max_blocks):
        # put first in its own block (at the front) or in any existing block
        if len(part) < max_blocks:
            yield [[first]] + part
        for i in range(len(part)):
            yield part[:i] + [[first] + part[i]] + part[i + 1:]


def splits(model, max_blocks=3, max_defs=5):
    for ns in model.namespaces:
        if ns.name == 'stone_cfg':
            continue
        docs = [f.doc for f in ns.files if f.doc is not None]
        if len(docs) > 1:
            continue
        defs = [d for f in ns.files for d in f.defs]
        if len(defs) < 2:
            continue
        imports = tuple(sorted({i for f in ns.files for i in f.imports}))
        blocks_list = list(_partitions(list(range(len(defs))), max_blocks)) if len(defs) <= max_defs else \
            [[list(range(k)), list(range(k, len(defs)))] for k in range(1, len(defs))]
        current = [[defs.index(d) for d in f.defs] for f in ns.files if f.defs]
        for blocks in blocks_list:
            if sorted(map(sorted, blocks)) == sorted(map(sorted, current)) and len(blocks) == len(ns.files):
                continue
            for imp_pos in ((0,) if len(blocks) == 1 or not imports else (0, len(blocks) - 1)):
                files = []
                for bi, b in enumerate(blocks):
                    files.append(File(docs[0] if (docs and bi == 0) else None, imports if bi == imp_pos else (),
                                      tuple(defs[i] for i in b)))
                ns2 = ns._replace(files=tuple(files))
                i = mm.ns_index(model, ns.name)
                m2 = model._replace(namespaces=model.namespaces[:i] + (ns2,) + model.namespaces[i + 1:])
                yield 'split', '%s %s imports@%d' % (ns.name, blocks, imp_pos), _specs_in_order(m2), (m2, None)


def _file_lines(model):
    out = []
    for ns in model.namespaces:
        for fi, f in enumerate(ns.files):
            out.append((render.file_path(ns.name, fi), render.render_file_lines(ns.name, f)))
    return out


def _join(lines):
    return '\n'.join(lines) + '\n'


COMMENT_INSERTS = ['', '   ', '# c', '    # c', '        # deeper', '\t# tab', '#']
TRAILERS = ['  ', ' # trailing', '# t', '\t']


def comment_variants(model):
    """One insertion at every line boundary / end of line, except inside multi-line doc strings."""
    files = _file_lines(model)
    for k, (path, lines) in enumerate(files):
        texts = [t for t, _ in lines]
        in_doc_after = []
        # a boundary i (before line i) is inside a doc string iff line i is a continuation line
        for i in range(len(lines) + 1):
            inside = i < len(lines) and lines[i][1]
            if inside:
                continue
            for ins in COMMENT_INSERTS:
                new = texts[:i] + [ins] + texts[i:]
                specs = [(p, _join(new) if j == k else _join([t for t, _ in ls])) for j, (p, ls) in enumerate(files)]
                yield 'comment', '%s@%d:%r' % (path, i, ins), specs, None
        for i, (t, cont) in enumerate(lines):
            if not t.strip():
                if cont and i + 1 < len(lines) and lines[i + 1][1]:
                    # an empty line inside a doc string (paragraph break): blanks on it do not make it text
                    for ws in ('            ', '\t'):
                        new = texts[:i] + [ws] + texts[i + 1:]
                        specs = [(p, _join(new) if j == k else _join([t2 for t2, _ in ls])) for j, (p, ls) in enumerate(files)]
                        yield 'doc-blank', '%s@%d:%r' % (path, i, ws), specs, None
                continue
            # a line that opens or continues a multi-line string cannot take a trailer (it would be text)
            opens = (i + 1 < len(lines) and lines[i + 1][1])
            if cont or opens:
                # inside a multi-line doc string only blanks can be appended: trailing whitespace of a doc line is not part of the doc
                last = not (i + 1 < len(lines) and lines[i + 1][1])
                for tr in ('  ', '\t'):
                    if last and cont:
                        continue        # the closing line ends with the quote: blanks after it are ordinary trailing whitespace (covered)
                    new = texts[:i] + [t + tr] + texts[i + 1:]
                    specs = [(p, _join(new) if j == k else _join([t2 for t2, _ in ls])) for j, (p, ls) in enumerate(files)]
                    yield 'doc-trailer', '%s@%d:%r' % (path, i, tr), specs, None
                continue
            for tr in TRAILERS:
                new = texts[:i] + [t + tr] + texts[i + 1:]
                specs = [(p, _join(new) if j == k else _join([t2 for t2, _ in ls])) for j, (p, ls) in enumerate(files)]
                yield 'trailer', '%s@%d:%r' % (path, i, tr), specs, None


def continuation_variants(model):
    """Break every parenthesised list after every comma, with the legal continuation indent."""
    files = _file_lines(model)
    for k, (path, lines) in enumerate(files):
        texts = [t for t, _ in lines]
        for i, (t, cont) in enumerate(lines):
            if cont or '(' not in t or t.strip().startswith('"'):
                continue
            indent = len(t) - len(t.lstrip(' '))
            depth = 0
            in_str = False
            cuts = []
            for pos, ch in enumerate(t):
                if ch == '"' and (pos == 0 or t[pos - 1] != '\\'):
                    in_str = not in_str
                if in_str:
                    continue
                if ch == '(':
                    depth += 1
                    cuts.append(pos + 1)
                elif ch == ')':
                    depth -= 1
                elif ch == ',' and depth > 0:
                    cuts.append(pos + 1)
            for c in cuts:
                head, tail = t[:c].rstrip(), t[c:].lstrip()
                if not tail:
                    continue
                new = texts[:i] + [head, ' ' * (indent + 4) + tail] + texts[i + 1:]
                specs = [(p, _join(new) if j == k else _join([t2 for t2, _ in ls])) for j, (p, ls) in enumerate(files)]
                yield 'continuation', '%s@%d:%d' % (path, i, c), specs, None
            if len(cuts) > 1:
                # break at every cut at once
                pieces = []
                last = 0
                for c in cuts:
                    pieces.append(t[last:c])
                    last = c
                pieces.append(t[last:])
                pieces = [p_ for p_ in pieces if p_.strip()]
                new_lines = [pieces[0].rstrip()] + [' ' * (indent + 4) + p_.strip() for p_ in pieces[1:]]
                new = texts[:i] + new_lines + texts[i + 1:]
                specs = [(p, _join(new) if j == k else _join([t2 for t2, _ in ls])) for j, (p, ls) in enumerate(files)]
                yield 'continuation', '%s@%d:all' % (path, i), specs, None


def _split_top(text):
    """Split the inside of a {...} literal at its top-level commas (strings and nested brackets respected)."""
    parts, depth, cur, in_str, esc = [], 0, '', False, False
    for ch in text:
        if in_str:
            cur += ch
            if esc:
                esc = False
            elif ch == '\\':
                esc = True
            elif ch == '"':
                in_str = False
            continue
        if ch == '"':
            in_str = True
        elif ch in '{[':
            depth += 1
        elif ch in '}]':
            depth -= 1
        if ch == ',' and depth == 0:
            parts.append(cur.strip())
            cur = ''
        else:
            cur += ch
    if cur.strip():
        parts.append(cur.strip())
    return parts


def example_map_variants(model):
    """The multi-line forms of a map example value (lang_ref "Examples"): the literal on its own indented line after `key =`, and
    one pair per line between the braces."""
    files = _file_lines(model)
    for k, (path, lines) in enumerate(files):
        texts = [t for t, _ in lines]
        for i, (t, cont) in enumerate(lines):
            m = re.match(r'^( +)(\w+) = (\{.*\})$', t)
            if cont or not m:
                continue
            ind, key, lit = m.group(1), m.group(2), m.group(3)
            forms = [[ind + key + ' =', ind + '    ' + lit]]
            pairs = _split_top(lit[1:-1])
            if pairs:
                forms.append([ind + key + ' = {'] + [ind + '    ' + p + (',' if j < len(pairs) - 1 else '') for j, p in enumerate(pairs)] + [ind + '}'])
                forms.append([ind + key + ' =', ind + '    {'] + [ind + '        ' + p + (',' if j < len(pairs) - 1 else '') for j, p in enumerate(pairs)] + [ind + '    }'])
            for fi, new_lines in enumerate(forms):
                new = texts[:i] + new_lines + texts[i + 1:]
                specs = [(p, _join(new) if j == k else _join([t2 for t2, _ in ls])) for j, (p, ls) in enumerate(files)]
                yield 'example-map-layout', '%s@%d:form%d' % (path, i, fi), specs, None


def expected_ns_docs(model, order=None):
    """{ns: doc} with namespace docs concatenated in file order (the documented order dependence)."""
    from .refsem import doc_unwrap
    files = [(ns.name, fi) for ns in model.namespaces for fi in range(len(ns.files))]
    order = order or files
    out = {}
    for nsn, fi in order:
        f = mm.get_ns(model, nsn).files[fi]
        if f.doc is not None:
            out[nsn] = out.get(nsn, '') + doc_unwrap(f.doc) + '\n'
    return out
