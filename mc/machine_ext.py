"""Further feature families of the construction machine: docs (F11), examples (F10), annotations (F13),
patches (F14) and route attributes against a stone_cfg schema (F12b)."""
from .model import (P, L, M, N, R, VOID, NODEF, TagLit, Field, Tag, Struct, Union, Alias, Route, Annotation, AnnType,
                    Patch, AnnRef, Example, File, Namespace, Model, EMPTY_FILE, mkfield, mktag, mkstruct, mkunion, mkroute,
                    prim, ts)
from . import model as mm
from .machine import SpecMachine, type_defs, visible_refs, valid_literals, void_tags, LETTERS, type_ok
from .render import RawMap

# ---------------------------------------------------------------------------
# stone_cfg schemas for the attrs family

SCHEMAS = [
    (mkfield('a', prim('String'), default='d'), mkfield('b', N(prim('Boolean'))), mkfield('n', N(prim('Int32'))),
     mkfield('f', prim('Float64'), default=1.5)),
    (mkfield('r', prim('Int32')), mkfield('a', N(prim('String', pattern='[a-c]+'))), mkfield('t', N(ts('%Y')))),
    # optional attributes declared before a required one: declaration order differs from required-first order
    (mkfield('a', prim('String'), default='d'), mkfield('r', prim('Int32')), mkfield('b', N(prim('Boolean')))),
]


def with_schema(model, idx):
    cfg = Namespace('stone_cfg', (File(None, (), (mkstruct('Route', fields=SCHEMAS[idx]),)),))
    return model._replace(namespaces=tuple(sorted(model.namespaces + (cfg,), key=lambda n: n.name)))


BUILTIN_ANNS = [('Om1', 'Omitted', ('alpha',)), ('Om2', 'Omitted', ('beta',)), ('Rb', 'RedactedBlot', ()),
                ('Rh', 'RedactedHash', ('x(y)',)), ('Dp', 'Deprecated', ()), ('Pv', 'Preview', ())]


def doc_menu(model, ns_name, owner=None, own_field=None):
    """Valid doc strings at a site (reference: lang_ref.rst 'Documentation')."""
    out = ['Plain doc about this namespace.', 'Two\nlines here.\n\nAnd a paragraph with "quotes" and a \\ backslash.',
           'A link :link:`Stone Repo https://github.com/dropbox/stone` and :val:`null`, :val:`"s"`, :val:`-1.5`. Quoted ":val:`"x"`", :val:`""`:val:`"a"` and the path C:\\temp\\new.',
           'Triple """quotes""", a caf\u00e9 \u2603, {braces} %s and a trailing backslash \\']
    for r in visible_refs(model, ns_name):
        tgt = mm.resolve(model, ns_name, r)
        if isinstance(tgt[1], (Struct, Union)):
            nm = (r.ns + '.' if r.ns else '') + r.name
            out.append('See :type:`%s`.' % nm)
            members = mm.own_members(model, tgt[0], tgt[1])
            if members:
                out.append('See :field:`%s.%s`.' % (nm, members[0].name))
            break
    if owner is not None and own_field is not None:
        out.append('About :field:`%s`.' % own_field)
    for n, fi, di, d in mm.all_defs(model, ns_name):
        if isinstance(d, Route):
            out.append('Use :route:`%s%s`.' % (d.name, ':%d' % d.version if d.version != 1 else ''))
            break
    return out


def example_values(model, ns_name, t, label):
    """Example literals the reference accepts for type t (first = simplest)."""
    if isinstance(t, N):
        return example_values(model, ns_name, t.inner, label) + [None]
    if isinstance(t, L):
        inner = example_values(model, ns_name, t.item, label)
        out = []
        lo = t.min_items or 0
        if inner:
            n = max(lo, 1)
            if t.max_items is None or n <= t.max_items:
                out.append(tuple([inner[0]] * n))
        if lo == 0:
            out.append(())
        return out
    if isinstance(t, M):
        inner = example_values(model, ns_name, t.value, label)
        out = [RawMap(())]
        if inner:
            out.insert(0, RawMap((('k', inner[0]),)))
        return out
    if isinstance(t, P):
        return list(valid_literals(t))[:2]
    if isinstance(t, R):
        r = mm.resolve(model, ns_name, t)
        if r is None:
            return []
        if isinstance(r[1], Alias):
            return example_values(model, r[0], r[1].type, label)
        labels = [e.label for e in r[1].examples]
        for p_ in mm.patches_for(model, r[0], r[1].name):
            pass
        if isinstance(r[1], Union):
            labels = labels + void_tags(model, r[0], r[1])
        return [TagLit(x) for x in labels[:2]]
    return []


class SpecMachineExt(SpecMachine):
    def init_states(self):
        base = super().init_states()
        if self.p.has('attrs'):
            return [with_schema(b, self.p.schema) for b in base]
        return base

    def extra_actions(self, m):
        p = self.p
        out = []
        for ns in m.namespaces:
            if ns.name == 'stone_cfg':
                continue
            tdefs = type_defs(m, ns.name)
            if p.has('docs'):
                out.extend(self._doc_actions(m, ns))
            if p.has('examples'):
                out.extend(self._example_actions(m, ns))
            if p.has('annotations'):
                out.extend(self._annotation_actions(m, ns))
            if p.has('patches'):
                out.extend(self._patch_actions(m, ns))
            if p.has('attrs'):
                out.extend(self._attr_actions(m, ns))
        return out

    # -- docs ---------------------------------------------------------------------------------
    def _doc_actions(self, m, ns):
        out = []
        for fi, f in enumerate(ns.files):
            if f.doc is None:
                for i, doc in enumerate(doc_menu(m, ns.name)[:3]):
                    out.append(('doc= %s/%d #%d' % (ns.name, fi, i), mm.update_file(m, ns.name, fi, lambda x, doc=doc: x._replace(doc=doc))))
        for n, fi, di, d in mm.all_defs(m, ns.name):
            if isinstance(d, (Struct, Union)):
                if d.doc in (None, 'd'):
                    for i, doc in enumerate(doc_menu(m, ns.name, d)):
                        out.append(('doc= %s.%s #%d' % (ns.name, d.name, i), mm.replace_def(m, ns.name, fi, di, d._replace(doc=doc))))
                members = d.fields if isinstance(d, Struct) else d.tags
                for j, f in enumerate(members):
                    if f.doc is None:
                        for i, doc in enumerate(doc_menu(m, ns.name, d, f.name)):
                            f2 = f._replace(doc=doc)
                            key = 'fields' if isinstance(d, Struct) else 'tags'
                            d2 = d._replace(**{key: members[:j] + (f2,) + members[j + 1:]})
                            out.append(('doc= %s.%s.%s #%d' % (ns.name, d.name, f.name, i), mm.replace_def(m, ns.name, fi, di, d2)))
            elif isinstance(d, (Alias, Route)) and d.doc is None:
                for i, doc in enumerate(doc_menu(m, ns.name)):
                    out.append(('doc= %s.%s #%d' % (ns.name, d.name, i), mm.replace_def(m, ns.name, fi, di, d._replace(doc=doc))))
        return out

    # -- examples -----------------------------------------------------------------------------
    def _example_actions(self, m, ns):
        out = []
        p = self.p
        for n, fi, di, d in mm.all_defs(m, ns.name):
            if isinstance(d, Struct):
                if len(d.examples) >= p.max_examples:
                    continue
                label = ['default', 'second'][len(d.examples)]
                if d.subtypes is not None:
                    # example of an enumerating struct: exactly one subtype tag referring to a label of that subtype
                    for tag, ref in d.subtypes[1]:
                        sub = mm.resolve(m, ns.name, ref)[1]
                        for e in sub.examples[:1]:
                            ex = Example(label, None, ((tag, TagLit(e.label)),))
                            out.append(('example+ %s.%s %s=%s' % (ns.name, d.name, label, tag),
                                        mm.replace_def(m, ns.name, fi, di, d._replace(examples=d.examples + (ex,)))))
                    continue
                chain = list(reversed(mm.struct_chain(m, ns.name, d)))
                fields = []
                for cns, cs in chain:
                    for f in mm.own_members(m, cns, cs):
                        fields.append((cns, f))
                # variant A: required fields only; variant B: every field
                variants = []
                for every in (False, True):
                    vals = []
                    ok = True
                    for cns, f in fields:
                        optional = f.default != NODEF or mm.is_nullable(m, cns, f.type)
                        if optional and not every:
                            continue
                        ev = example_values(m, cns, f.type, label)
                        if not ev:
                            if optional:
                                continue
                            ok = False
                            break
                        vals.append((f.name, ev[0]))
                    if ok and tuple(vals) not in variants:
                        variants.append(tuple(vals))
                for i, vals in enumerate(variants):
                    if not vals and not fields:
                        continue
                    ex = Example(label, 'Example text.' if i else None, vals)
                    out.append(('example+ %s.%s %s/%d' % (ns.name, d.name, label, i),
                                mm.replace_def(m, ns.name, fi, di, d._replace(examples=d.examples + (ex,)))))
            elif isinstance(d, Union):
                if len(d.examples) >= p.max_examples:
                    continue
                label = ['default', 'second'][len(d.examples)]
                for cns, cu in reversed(mm.struct_chain(m, ns.name, d)):
                    for t in mm.own_members(m, cns, cu):
                        if t.type is None:
                            vals = [None]
                        else:
                            vals = example_values(m, cns, t.type, label)[:2]
                        for v in vals:
                            ex = Example(label, None, ((t.name, v),))
                            out.append(('example+ %s.%s %s:%s=%r' % (ns.name, d.name, label, t.name, v),
                                        mm.replace_def(m, ns.name, fi, di, d._replace(examples=d.examples + (ex,)))))
        return out

    # -- annotations --------------------------------------------------------------------------
    def _annotation_actions(self, m, ns):
        out = []
        have = [d for _, _, _, d in mm.all_defs(m, ns.name) if isinstance(d, Annotation)]
        if len(have) < 2:
            for nm, kind, args in BUILTIN_ANNS:
                if any(a.name == nm for a in have):
                    continue
                a = Annotation(nm, kind, None, args, ())
                out.append(('annotation+ %s %s' % (ns.name, nm), mm.add_def(m, ns.name, 0, a)))
        visible = [(None, a) for a in have]
        for imp in sorted(mm.imports_of(m, ns.name)):
            for _, _, _, d in mm.all_defs(m, imp):
                if isinstance(d, Annotation):
                    visible.append((imp, d))
        for n, fi, di, d in mm.all_defs(m, ns.name):
            if isinstance(d, (Struct, Union)):
                members = d.fields if isinstance(d, Struct) else d.tags
                key = 'fields' if isinstance(d, Struct) else 'tags'
                for j, f in enumerate(members):
                    for ans, a in visible:
                        if not self._can_annotate(m, ns.name, f, a):
                            continue
                        f2 = f._replace(anns=f.anns + (AnnRef(ans, a.name),))
                        d2 = d._replace(**{key: members[:j] + (f2,) + members[j + 1:]})
                        out.append(('annotate %s.%s.%s @%s' % (ns.name, d.name, f.name, a.name), mm.replace_def(m, ns.name, fi, di, d2)))
            elif isinstance(d, Alias):
                for ans, a in visible:
                    if a.kind not in ('RedactedBlot', 'RedactedHash') or d.anns:
                        continue
                    if self._redacted_alias_refers_to(m, ns.name, d.name):
                        continue      # an alias of this alias is already redacted: "already defined" conflict
                    if not self._redactable(m, ns.name, d.type, allow_alias=True):
                        continue
                    out.append(('annotate %s.%s @%s' % (ns.name, d.name, a.name),
                                mm.replace_def(m, ns.name, fi, di, d._replace(anns=d.anns + (AnnRef(ans, a.name),)))))
        return out

    @staticmethod
    def _redacted_alias_refers_to(m, ns_name, name):
        for n, fi, di, x in mm.all_defs(m):
            if isinstance(x, Alias) and x.anns:
                ctx, t = n, x.type
                hops = 0
                while hops < 20:
                    hops += 1
                    if isinstance(t, N):
                        t = t.inner
                        continue
                    if isinstance(t, R):
                        r = mm.resolve(m, ctx, t)
                        if r is None or not isinstance(r[1], Alias):
                            break
                        if (r[0], r[1].name) == (ns_name, name):
                            return True
                        ctx, t = r[0], r[1].type
                        continue
                    break
        return False

    def _kinds_on(self, m, ns_name, f):
        from .refsem import annotations_of
        return [a.kind for _, a in annotations_of(m, ns_name, f.anns)]

    def _can_annotate(self, m, ns_name, f, a):
        kinds = self._kinds_on(m, ns_name, f)
        if any(x.name == a.name for x in f.anns):
            return False
        if len(kinds) >= 2:
            return False
        if a.kind == 'Omitted':
            return 'Omitted' not in kinds
        if a.kind in ('Deprecated', 'Preview'):
            return 'Deprecated' not in kinds and 'Preview' not in kinds
        if a.kind in ('RedactedBlot', 'RedactedHash'):
            if 'RedactedBlot' in kinds or 'RedactedHash' in kinds:
                return False
            t = getattr(f, 'type', None)
            if t is None:
                return False                     # void tag: redactors can't be applied to void types
            return self._redactable(m, ns_name, t, allow_alias=False)
        return False

    def _redactable(self, m, ns_name, t, allow_alias):
        """lang_ref: only string and numeric typed fields are eligible (also as list items / map values / nullable);
        not user-defined or void types; a redactor goes on an alias *definition*, not on a reference to an alias,
        and an already redacted alias cannot be redacted again."""
        if isinstance(t, R):
            r = mm.resolve(m, ns_name, t)
            if r is None or not isinstance(r[1], Alias) or not allow_alias or r[1].anns:
                return False
            return self._redactable(m, r[0], r[1].type, True)
        if isinstance(t, N):
            return self._redactable(m, ns_name, t.inner, False)
        if isinstance(t, L):
            return self._redactable(m, ns_name, t.item, False)
        if isinstance(t, M):
            return self._redactable(m, ns_name, t.value, False)
        if isinstance(t, P):
            return t.kind in ('String', 'Int32', 'Int64', 'UInt32', 'UInt64', 'Float32', 'Float64')
        return False

    # -- patches ------------------------------------------------------------------------------
    def _patch_actions(self, m, ns):
        out = []
        p = self.p
        patches = [d for _, _, _, d in mm.all_defs(m, ns.name) if isinstance(d, Patch)]
        if len(patches) >= p.max_patches:
            return out
        from .machine import frozen_structs
        frozen = frozen_structs(m)
        for n, fi0, di0, d in mm.all_defs(m, ns.name):
            if not isinstance(d, (Struct, Union)) or (ns.name, d.name) in frozen:
                continue
            npatched = sum(len(x.fields) for x in patches if x.target == d.name)
            for fi in range(len(ns.files)):
                if isinstance(d, Struct):
                    base = 'p%s%d' % (d.name[1:], npatched)
                    cands = [mkfield(base, N(prim('Int32'))), mkfield(base, prim('Int32'), default=7)]
                    if not d.examples:
                        cands.append(mkfield(base, prim('String')))
                    for f in cands:
                        pt = Patch('struct', d.name, (f,), ())
                        out.append(('patch+ %s/%d %s %s' % (ns.name, fi, d.name, f.name + ':' + repr(f.type) + repr(f.default)),
                                    mm.add_def(m, ns.name, fi, pt, sort=False)))
                else:
                    base = 'q%s%d' % (d.name[1:], npatched)
                    for t in (mktag(base), mktag(base, prim('Int32'))):
                        pt = Patch('union_closed' if d.closed else 'union', d.name, (t,), ())
                        out.append(('patch+ %s/%d %s %s' % (ns.name, fi, d.name, base + repr(t.type)), mm.add_def(m, ns.name, fi, pt, sort=False)))
        return out

    # -- route attributes ---------------------------------------------------------------------
    def _attr_actions(self, m, ns):
        out = []
        from .refsem import schema_fields
        schema = schema_fields(m)
        for n, fi, di, d in mm.all_defs(m, ns.name):
            if not isinstance(d, Route):
                continue
            given = dict(d.attrs)
            for f in schema:
                if f.name in given:
                    continue
                ns2, u, nullable, _ = mm.strip(m, 'stone_cfg', f.type)
                vals = list(valid_literals(u)) if isinstance(u, P) else []
                if nullable:
                    vals.append(None)
                for v in vals:
                    attrs = tuple(sorted(d.attrs + ((f.name, v),)))
                    out.append(('attr= %s.%s:%d %s=%r' % (ns.name, d.name, d.version, f.name, v),
                                mm.replace_def(m, ns.name, fi, di, d._replace(attrs=attrs))))
        return out

    def _route_actions(self, m, ns, fi, routes):
        out = super()._route_actions(m, ns, fi, routes)
        if not self.p.has('attrs'):
            return out
        # routes must carry the required attributes of the schema
        from .refsem import schema_fields
        req = [f for f in schema_fields(m) if f.default == NODEF and not mm.is_nullable(m, 'stone_cfg', f.type)]
        if not req:
            return out
        fixed = []
        for label, m2 in out:
            for n, fj, dj, d in mm.all_defs(m2, ns.name):
                if isinstance(d, Route) and not any(k == req[0].name for k, _ in d.attrs) and \
                        not any(r.name == d.name and r.version == d.version for r in routes):
                    attrs = tuple(sorted(d.attrs + tuple((f.name, valid_literals(mm.strip(m, 'stone_cfg', f.type)[1])[0]) for f in req)))
                    m2 = mm.replace_def(m2, ns.name, fj, dj, d._replace(attrs=attrs))
            fixed.append((label, m2))
        return fixed
