"""The spec-evolution machine of C07: states are spec versions (models), transitions are the edits
docs/evolve_spec.rst lists as backwards compatible, applied at every applicable site.

Every version carries a *lineage* map {(kind, current name): original name} so that a type of a later version can
be paired with the same type of an earlier one across renames.
"""
from .model import (P, L, M, N, R, VOID, NODEF, TagLit, Field, Tag, Struct, Union, Alias, Route, Model, Namespace, File,
                    mkfield, mktag, mkstruct, mkunion, mkroute, prim)
from . import model as mm

NS = 'ev'


def base_model():
    I32, S = prim('Int32'), prim('String')
    defs = (
        Alias('Ai', R(None, 'Inner'), None, ()),
        mkstruct('Inner', fields=[mkfield('a', I32), mkfield('b', N(S))]),
        mkstruct('Child', parent=R(None, 'Inner'), fields=[mkfield('c', I32, default=1)]),
        mkstruct('Root', fields=[mkfield('r', I32)], subtypes=(False, (('leaf', R(None, 'Leaf')),))),
        mkstruct('Leaf', parent=R(None, 'Root'), fields=[mkfield('l', N(S))]),
        mkstruct('Holder', fields=[mkfield('inner', R(None, 'Inner')), mkfield('ninner', N(R(None, 'Inner'))),
                                   mkfield('li', L(R(None, 'Inner'), None, None)), mkfield('mi', M(R(None, 'Inner'))),
                                   mkfield('ou', R(None, 'Ou')), mkfield('lou', L(R(None, 'Ou'), None, None)),
                                   mkfield('root', R(None, 'Root')), mkfield('nroot', N(R(None, 'Root'))),
                                   mkfield('uu', R(None, 'Uu')), mkfield('cu', R(None, 'Cu')), mkfield('child', N(R(None, 'Child'))),
                                   mkfield('ai', N(R(None, 'Ai'))),
                                   mkfield('oc', N(R(None, 'OuChild'))), mkfield('og', N(L(R(None, 'OuGrand'), None, None))),
                                   mkfield('oco', N(R(None, 'CuOpen'))),
                                   # a subtype tree behind every container and behind an alias; a struct without any field
                                   mkfield('lroot', N(L(R(None, 'Root'), None, None))), mkfield('mroot', N(M(R(None, 'Root')))), mkfield('aroot', N(R(None, 'ARoot'))),
                                   mkfield('nothing', N(R(None, 'Nothing'))), mkfield('lnothing', N(L(R(None, 'Nothing'), None, None)))]),
        Alias('ARoot', R(None, 'Root'), None, ()),
        mkstruct('Nothing', doc='no fields at all'),
        mkunion('Ou', tags=[mktag('v'), mktag('w'), mktag('t', I32), mktag('s', R(None, 'Inner')), mktag('ns', N(R(None, 'Inner'))),
                            mktag('r', R(None, 'Root'))]),
        mkunion('OuChild', parent=R(None, 'Ou'), tags=[mktag('cx'), mktag('cy', I32)]),
        mkunion('OuGrand', parent=R(None, 'OuChild'), tags=[mktag('gx')]),
        mkunion('Uu', tags=[mktag('x'), mktag('o', R(None, 'Ou')), mktag('no', N(R(None, 'Ou'))), mktag('lo', L(R(None, 'Ou'), None, None)),
                            mktag('nr', N(R(None, 'Root'))), mktag('en', R(None, 'Nothing')), mktag('nen', N(R(None, 'Nothing')))]),
        mkunion('Cu', closed=True, tags=[mktag('c1'), mktag('c2', R(None, 'Inner'))]),
        mkunion('CuOpen', parent=R(None, 'Cu'), tags=[mktag('co1'), mktag('co2', I32)]),     # an open union that extends a closed one
        mkroute('rr', 1, R(None, 'Inner'), R(None, 'Ou'), VOID),
    )
    return Model((Namespace(NS, (File(None, (), defs),)),))


class Version:
    __slots__ = ('model', 'lineage', 'void_to_required')

    def __init__(self, model, lineage, void_to_required=frozenset()):
        self.model = model
        self.lineage = lineage                    # {current type name: original name}
        self.void_to_required = void_to_required  # {(union original name, tag)}: Void tags that got a non-nullable type

    def key(self):
        return (self.model, tuple(sorted(self.lineage.items())), tuple(sorted(self.void_to_required)))

    def __hash__(self):
        return hash(self.key())

    def __eq__(self, o):
        return self.key() == o.key()


def base_version():
    m = base_model()
    names = [d.name for _, _, _, d in mm.all_defs(m) if isinstance(d, (Struct, Union, Alias))]
    return Version(m, {n: n for n in names})


def _defs(m, cls):
    return [(fi, di, d) for n, fi, di, d in mm.all_defs(m, NS) if isinstance(d, cls)]


def _rename_refs(t, old, new):
    if isinstance(t, R):
        return R(t.ns, new) if t.name == old else t
    if isinstance(t, L):
        return L(_rename_refs(t.item, old, new), t.min_items, t.max_items)
    if isinstance(t, M):
        return M(_rename_refs(t.value, old, new))
    if isinstance(t, N):
        return N(_rename_refs(t.inner, old, new))
    return t


def rename_type(m, old, new):
    out = m
    for n, fi, di, d in list(mm.all_defs(m, NS)):
        if isinstance(d, Struct):
            d2 = d._replace(name=new if d.name == old else d.name,
                            parent=_rename_refs(d.parent, old, new) if d.parent is not None else None,
                            fields=tuple(f._replace(type=_rename_refs(f.type, old, new)) for f in d.fields),
                            subtypes=None if d.subtypes is None else (d.subtypes[0], tuple((t, _rename_refs(r, old, new)) for t, r in d.subtypes[1])))
        elif isinstance(d, Union):
            d2 = d._replace(name=new if d.name == old else d.name,
                            parent=_rename_refs(d.parent, old, new) if d.parent is not None else None,
                            tags=tuple(t._replace(type=_rename_refs(t.type, old, new) if t.type is not None else None) for t in d.tags))
        elif isinstance(d, Alias):
            d2 = d._replace(name=new if d.name == old else d.name, type=_rename_refs(d.type, old, new))
        elif isinstance(d, Route):
            d2 = d._replace(arg=_rename_refs(d.arg, old, new), result=_rename_refs(d.result, old, new), error=_rename_refs(d.error, old, new))
        else:
            d2 = d
        out = mm.replace_def(out, NS, fi, di, d2)
    return out


def edits(v, step):
    """All compatible edits of version v: (label, Version). `step` makes the names of added items unique."""
    m = v.model
    I32, S = prim('Int32'), prim('String')
    out = []
    tag = 'e%d' % step
    structs = _defs(m, Struct)
    unions = _defs(m, Union)
    # E1/E2: add an optional or defaulted field to every struct
    ou_name = [d.name for _, _, d in unions if v.lineage[d.name] == 'Ou'][0]
    inner_name = [d.name for _, _, d in structs if v.lineage[d.name] == 'Inner'][0]
    ou_def = [d for _, _, d in unions if d.name == ou_name][0]
    void_of_ou = [t.name for t in ou_def.tags if t.type is None and t.name != 'v']
    for fi, di, d in structs:
        new_fields = [('n' + tag, N(I32), NODEF), ('ns' + tag, N(R(None, inner_name)), NODEF), ('nu' + tag, N(R(None, ou_name)), NODEF),
                      ('d' + tag, I32, 3), ('ds' + tag, S, 'dflt'), ('nl' + tag, N(L(R(None, inner_name), None, None)), NODEF)]
        if void_of_ou:
            new_fields.append(('du' + tag, R(None, ou_name), TagLit(void_of_ou[0])))
        if v.lineage[d.name] in ('Inner', 'Child') :
            new_fields = [x for x in new_fields if not (isinstance(mm.strip(m, NS, x[1])[1], R))]   # keep Inner finite and acyclic
        for fname, ftype, default in new_fields:
            d2 = d._replace(fields=d.fields + (mkfield(fname, ftype, default=default),))
            out.append(('field+ %s.%s:%s' % (d.name, fname, 'opt' if default == NODEF else 'dflt'),
                        Version(mm.replace_def(m, NS, fi, di, d2), v.lineage, v.void_to_required)))
    # E3: add a tag to every open union
    for fi, di, d in unions:
        if d.closed:
            continue
        for tname, ttype in [('tv' + tag, None), ('ti' + tag, I32), ('ts' + tag, R(None, inner_name)), ('tn' + tag, N(R(None, inner_name))),
                             ('tl' + tag, L(I32, None, None))]:
            d2 = d._replace(tags=d.tags + (mktag(tname, ttype),))
            out.append(('tag+ %s.%s' % (d.name, tname), Version(mm.replace_def(m, NS, fi, di, d2), v.lineage, v.void_to_required)))
    # E4: give a Void tag a type
    used_as_default = {(mm.strip(m, NS, f.type)[1].name, f.default.tag) for _, _, s_ in structs for f in s_.fields
                       if isinstance(f.default, TagLit) and isinstance(mm.strip(m, NS, f.type)[1], R)}
    for fi, di, d in unions:
        for i, t in enumerate(d.tags):
            if t.type is not None or (d.name, t.name) in used_as_default:
                continue          # a tag that is some field's default must stay Void
            for lab, ttype in [('Int32', I32), ('Inner', R(None, inner_name)), ('Inner?', N(R(None, inner_name))), ('List', L(I32, None, None)),
                               ('Ou?', N(R(None, ou_name)))]:
                if v.lineage[d.name] == 'Ou' and lab == 'Ou?':
                    continue
                d2 = d._replace(tags=d.tags[:i] + (t._replace(type=ttype),) + d.tags[i + 1:])
                vr = v.void_to_required
                if not isinstance(ttype, N):
                    vr = vr | {(v.lineage[d.name], t.name)}
                out.append(('void->%s %s.%s' % (lab, d.name, t.name), Version(mm.replace_def(m, NS, fi, di, d2), v.lineage, vr)))
    # E5: add a subtype under a catch-all root
    for fi, di, d in structs:
        if d.subtypes is not None and not d.subtypes[0]:
            leaf_name = 'Leaf%s' % tag.capitalize()
            d2 = d._replace(subtypes=(False, d.subtypes[1] + (('k' + tag, R(None, leaf_name)),)))
            m2 = mm.replace_def(m, NS, fi, di, d2)
            m2 = mm.add_def(m2, NS, 0, mkstruct(leaf_name, parent=R(None, d.name), fields=[mkfield('z' + tag, N(I32)), mkfield('y' + tag, S, default='yy')]), sort=False)
            lin = dict(v.lineage)
            lin[leaf_name] = leaf_name
            out.append(('subtype+ %s>%s' % (d.name, leaf_name), Version(m2, lin, v.void_to_required)))
    # E6: add a route
    out.append(('route+ r' + tag, Version(mm.add_def(m, NS, 0, mkroute('r' + tag, 1, R(None, inner_name), VOID, VOID), sort=False), v.lineage, v.void_to_required)))
    # E7: rename a struct / union / alias
    for fi, di, d in structs + unions + _defs(m, Alias):
        if v.lineage[d.name] in ('Inner', 'Ou', 'Root', 'Ai', 'Leaf', 'Cu'):
            new = d.name + 'X' + tag
            lin = {(new if k == d.name else k): o for k, o in v.lineage.items()}
            out.append(('rename %s->%s' % (d.name, new), Version(rename_type(m, d.name, new), lin, v.void_to_required)))
    # E8: introduce an alias for a type expression / inline an alias
    for fi, di, d in structs:
        if v.lineage[d.name] != 'Holder':
            continue
        for i, f in enumerate(d.fields):
            if f.name == 'li':
                al = 'Al%s' % tag.capitalize()
                m2 = mm.add_def(m, NS, 0, Alias(al, f.type, None, ()), sort=False)
                d2 = d._replace(fields=d.fields[:i] + (f._replace(type=R(None, al)),) + d.fields[i + 1:])
                fi2, di2, _ = mm.find_def(m2, NS, d.name)
                lin = dict(v.lineage)
                lin[al] = al
                out.append(('alias-intro %s.%s' % (d.name, f.name), Version(mm.replace_def(m2, NS, fi2, di2, d2), lin, v.void_to_required)))
            if f.name == 'ai' and isinstance(f.type, N) and isinstance(f.type.inner, R):
                r = mm.resolve(m, NS, f.type.inner)
                if r is not None and isinstance(r[1], Alias):
                    d2 = d._replace(fields=d.fields[:i] + (f._replace(type=N(r[1].type)),) + d.fields[i + 1:])
                    out.append(('alias-inline %s.%s' % (d.name, f.name), Version(mm.replace_def(m, NS, fi, di, d2), v.lineage, v.void_to_required)))
    return out
