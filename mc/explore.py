"""Generic explicit-state explorer and check runner.

A *machine* supplies
    init_states()            -> iterable of states
    actions(state)           -> iterable of (label, next_state)
    canon(state)             -> hashable canonical form (default: the state itself)
States are *descriptions* (tuples, strings, frozen dataclasses), never live stone
objects.  `bfs` enumerates every state reachable within `max_depth` actions,
deduplicating on `canon`; it never samples and never truncates silently: if a cap is
hit it is recorded in `caps_hit` and the run can no longer claim `exhaustive`.

`Run` farms the per-state oracle out to worker processes (fork), aggregates
verdicts, applies the known-findings file, writes replay artefacts and the evidence
file, and prints the VIOLATION / KNOWN-FINDING lines of the interface.
"""
import atexit
import collections
import functools
import hashlib
import json
import multiprocessing
import os
import pickle
import shutil
import signal
import sys
import tempfile
import threading
import time
import traceback

VERIF = os.path.dirname(os.path.dirname(os.path.abspath(__file__)))
EVIDENCE_DIR = os.environ.get('VERIF_EVIDENCE_DIR') or os.path.join(VERIF, 'evidence')
REPLAY_DIR = os.path.join(VERIF, 'replays') if not os.environ.get('VERIF_EVIDENCE_DIR') else os.path.join(os.environ['VERIF_EVIDENCE_DIR'], 'replays')
KNOWN_FILE = os.path.join(VERIF, 'known_findings.json')


class InternalError(Exception):
    """The harness itself is wrong (never reported as a VIOLATION)."""


# ---------------------------------------------------------------------------
# breadth-first exploration


class BfsResult:
    def __init__(self):
        self.states = []          # (state, trace, depth) in BFS order
        self.transitions = 0
        self.actions_fired = collections.Counter()
        self.depth_completed = 0
        self.caps_hit = []
        self.per_depth = []

    @property
    def n(self):
        return len(self.states)


def bfs(machine, max_depth, max_states=None, label_kind=None):
    """Complete breadth-first enumeration up to `max_depth` actions.

    `label_kind(label)` maps an action label to the counter bucket used for the
    vacuity report (default: text before the first space or ':').
    """
    canon = getattr(machine, 'canon', lambda s: s)
    res = BfsResult()
    seen = {}
    frontier = []
    for s in machine.init_states():
        k = canon(s)
        if k in seen:
            continue
        seen[k] = len(res.states)
        res.states.append((s, (), 0))
        frontier.append((s, ()))
    res.per_depth.append(len(frontier))
    depth = 0
    while frontier and depth < max_depth:
        nxt = []
        for s, trace in frontier:
            for label, t in machine.actions(s):
                res.transitions += 1
                kind = label_kind(label) if label_kind else label.split(' ')[0].split(':')[0]
                res.actions_fired[kind] += 1
                k = canon(t)
                if k in seen:
                    continue
                if max_states is not None and len(res.states) >= max_states:
                    if 'max_states' not in res.caps_hit:
                        res.caps_hit.append('max_states')
                    continue
                seen[k] = len(res.states)
                tr = trace + (label,)
                res.states.append((t, tr, depth + 1))
                nxt.append((t, tr))
        depth += 1
        res.per_depth.append(len(nxt))
        frontier = nxt
        if not res.caps_hit:
            res.depth_completed = depth
    if not frontier and not res.caps_hit:
        # the space is finite and was exhausted before the bound
        res.depth_completed = max_depth
    return res


def self_test():
    """Toy machine with a known state count: multisets of size <= d over k symbols."""
    class Toy:
        def init_states(self):
            return [()]

        def actions(self, s):
            for c in 'abc':
                yield ('add ' + c, s + (c,))

        def canon(self, s):
            return tuple(sorted(s))
    r = bfs(Toy(), 4)
    # multisets over 3 symbols of size 0..4: 1+3+6+10+15
    assert r.n == 35, r.n
    assert r.transitions == 3 * (1 + 3 + 6 + 10), r.transitions
    assert r.depth_completed == 4 and not r.caps_hit
    r2 = bfs(Toy(), 4, max_states=10)
    assert r2.caps_hit == ['max_states'] and r2.n == 10
    return True


# ---------------------------------------------------------------------------
# scratch space

_scratch_root = None


def scratch_root():
    global _scratch_root
    if _scratch_root is None:
        base = os.environ.get('VERIF_SCRATCH')
        if not base:
            base = '/dev/shm' if os.path.isdir('/dev/shm') and os.access('/dev/shm', os.W_OK) else tempfile.gettempdir()
        _scratch_root = tempfile.mkdtemp(prefix='stoneverif-', dir=base)
        pid = os.getpid()

        def _cleanup(root=_scratch_root, pid=pid):
            if os.getpid() == pid:
                shutil.rmtree(root, ignore_errors=True)
        atexit.register(_cleanup)

        def _sig(signum, frame):
            _cleanup()
            os._exit(128 + signum)
        for s in (signal.SIGTERM, signal.SIGINT, signal.SIGHUP):
            try:
                signal.signal(s, _sig)
            except Exception:
                pass
    return _scratch_root


_dir_counter = [0]


def fresh_dir(tag='s'):
    _dir_counter[0] += 1
    d = os.path.join(scratch_root(), '%s-%d-%d' % (tag, os.getpid(), _dir_counter[0]))
    os.makedirs(d)
    return d


# ---------------------------------------------------------------------------
# worker side


class Hang(BaseException):
    # not an Exception: library code under test that catches Exception (inspect.getfullargspec, Compiler.build, ...) must
    # not be able to swallow the watchdog and turn it into a foreign-exception observation
    pass


def _alarm(signum, frame):
    raise Hang()


_TASK_FN = None
_TASK_BUDGET = 60.0


def _worker_init():
    signal.signal(signal.SIGINT, signal.SIG_IGN)
    signal.signal(signal.SIGALRM, _alarm)


_HANGS = None          # shared counter of confirmed hangs (created by pmap before forking)
HANG_NO_RETRY_AFTER = 8
HANG_SKIP_AFTER = 40


def _run_task(arg):
    idx, item = arg
    if _HANGS is not None and _HANGS.value >= HANG_SKIP_AFTER:
        # the run has already failed many times over; do not spend the budget of every remaining state as well
        return idx, {'outcome': 'skipped-after-hangs', 'viol': [], 'skipped': True}
    signal.signal(signal.SIGALRM, _alarm)
    signal.setitimer(signal.ITIMER_REAL, _TASK_BUDGET)
    try:
        try:
            out = _TASK_FN(item)
        except Hang:
            if _HANGS is not None and _HANGS.value >= HANG_NO_RETRY_AFTER:
                raise
            # a loaded machine must not look like non-termination: one retry with three times the budget
            signal.setitimer(signal.ITIMER_REAL, _TASK_BUDGET * 3)
            out = _TASK_FN(item)
    except Hang:
        if _HANGS is not None:
            with _HANGS.get_lock():
                _HANGS.value += 1
        out = {'outcome': 'hang', 'viol': [viol('hang:task', 'state exceeded its time budget of %ss (and of %ss on retry)' % (_TASK_BUDGET, 3 * _TASK_BUDGET),
                                                 {'item': repr(item)[:2000]})]}
    except InternalError:
        out = {'internal': traceback.format_exc()}
    except Exception:
        out = {'internal': traceback.format_exc()}
    finally:
        signal.setitimer(signal.ITIMER_REAL, 0)
    return idx, out


def _run_forked(fn, item):
    r, w = os.pipe()
    pid = os.fork()
    if pid == 0:
        try:
            os.close(r)
            signal.setitimer(signal.ITIMER_REAL, 0)
            try:
                out = fn(item)
            except BaseException:
                out = {'internal': traceback.format_exc()}
            with os.fdopen(w, 'wb') as f:
                f.write(pickle.dumps(out))
        finally:
            os._exit(0)
    os.close(w)
    try:
        with os.fdopen(r, 'rb') as f:
            data = f.read()
        os.waitpid(pid, 0)
    except BaseException:
        try:
            os.kill(pid, signal.SIGKILL)
            os.waitpid(pid, 0)
        except OSError:
            pass
        raise
    if not data:
        return {'internal': 'forked task died without a result: %r' % (item,)}
    return pickle.loads(data)


def viol(identity, what, inputs=None, observed=None, expected=None):
    return {'id': identity, 'what': what, 'inputs': inputs, 'observed': observed, 'expected': expected}


def nproc():
    try:
        n = int(os.environ.get('VERIF_JOBS', '0'))
    except ValueError:
        n = 0
    return n or min(16, os.cpu_count() or 4)


def pmap(fn, items, budget=60.0, chunksize=None, jobs=None, fresh=False):
    """Ordered-by-index parallel map of `fn` over `items` in forked workers.

    Yields (index, result-dict).  `fn` must return a dict; see Run.absorb.
    fresh=True: every item runs in a newly forked copy of the (pristine) parent process, so that what an item
    leaves behind in module-level or class-level state (caches, memo tables) is seen by no other item.  Used by the
    history layers, where the order of operations inside one item is the explored dimension.
    """
    global _TASK_FN, _TASK_BUDGET, _HANGS
    _TASK_FN = fn
    _TASK_BUDGET = budget
    if _HANGS is None:
        _HANGS = multiprocessing.Value('i', 0)
    items = list(items)
    jobs = jobs or nproc()
    if (jobs <= 1 or len(items) <= 1) and not fresh:
        for a in enumerate(items):
            yield _run_task(a)
        return
    if chunksize is None:
        chunksize = max(1, min(64, len(items) // (jobs * 8) or 1))
    ctx = multiprocessing.get_context('fork')
    scratch_root()  # create before forking so that children share it
    if fresh:
        # the pool workers never run an item themselves: each item runs in a child forked from the worker, which is
        # still an unused copy of the parent
        _TASK_FN = functools.partial(_run_forked, fn)
    pool = ctx.Pool(jobs, initializer=_worker_init)
    done = False
    try:
        for r in pool.imap_unordered(_run_task, list(enumerate(items)), chunksize):
            yield r
        done = True
    finally:
        _shutdown_pool(pool, graceful=done)


def _shutdown_pool(pool, graceful):
    """Ends a pool without ever blocking for good.

    Pool.terminate() signals the workers with SIGTERM and then joins them; a worker that receives the signal just before it
    blocks on the task-queue semaphore never runs its Python-level handler and is waited for indefinitely (observed under
    heavy machine load).  So: when every result has been received the pool is closed (workers leave through the queue
    sentinel, no signals involved); in every case the join runs under a watchdog that falls back to SIGKILL."""
    procs = list(getattr(pool, '_pool', ()))

    def finish():
        try:
            if graceful:
                pool.close()
                pool.join()
            else:
                pool.terminate()
                pool.join()
        except Exception:
            pass
    t = threading.Thread(target=finish, daemon=True)
    t.start()
    t.join(20 if graceful else 10)
    if t.is_alive():
        for pr in procs + list(getattr(pool, '_pool', ())):
            try:
                os.kill(pr.pid, signal.SIGKILL)
            except (OSError, AttributeError, TypeError):
                pass
        if graceful:
            try:
                pool.terminate()
            except Exception:
                pass
        t.join(30)


# ---------------------------------------------------------------------------
# known findings


def load_known():
    if not os.path.exists(KNOWN_FILE):
        return {}
    with open(KNOWN_FILE) as f:
        data = json.load(f)
    out = {}
    for e in data.get('findings', []):
        if e.get('status') == 'known':
            out[(e['property'], e['identity'])] = e
    return out


# ---------------------------------------------------------------------------
# a run of one check


class Run:
    def __init__(self, prop, tier, seed):
        self.prop = prop
        self.tier = tier
        self.seed = seed
        self.t0 = time.time()
        self.states = 0
        self.transitions = 0
        self.validated = 0
        self.outcomes = collections.Counter()
        self.viol = {}           # identity -> (order, violation)
        self.viol_count = collections.Counter()
        self.samples = []
        self.bounds = {}
        self.caps_hit = []
        self.actions_fired = collections.Counter()
        self.notes = []
        self.parts = {}
        self.internal = None
        self.assumptions = []
        self.extra = {}

    # -- bookkeeping -------------------------------------------------------
    def add_bfs(self, name, r):
        self.parts[name] = {'states': r.n, 'transitions': r.transitions, 'depth_completed': r.depth_completed,
                            'per_depth': r.per_depth, 'caps_hit': list(r.caps_hit)}
        self.transitions += r.transitions
        for k, v in r.actions_fired.items():
            self.actions_fired[name + '.' + k] += v
        for c in r.caps_hit:
            self.caps_hit.append(name + ':' + c)

    def sample(self, s, limit=12):
        if len(self.samples) < limit:
            self.samples.append(s)

    def absorb(self, order, out):
        """out: {'outcome': str | [str], 'viol': [...], 'n': int (evaluations on the impl), 'sample': any}"""
        if 'internal' in out:
            if self.internal is None:
                self.internal = out['internal']
            return
        if out.get('skipped'):
            msg = 'states skipped after %d confirmed hangs (the run fails anyway; not exhaustive)' % HANG_SKIP_AFTER
            if msg not in self.caps_hit:
                self.caps_hit.append(msg)
            self.outcomes['skipped-after-hangs'] += 1
            return
        self.states += 1
        self.validated += out.get('n', 1)
        oc = out.get('outcome')
        if isinstance(oc, (list, tuple)):
            for o in oc:
                self.outcomes[o] += 1
        elif isinstance(oc, dict):
            for o, c in oc.items():
                self.outcomes[o] += c
        elif oc is not None:
            self.outcomes[oc] += 1
        self.transitions += out.get('transitions', 0)
        for v in out.get('viol', ()):
            self.viol_count[v['id']] += 1
            cur = self.viol.get(v['id'])
            if cur is None or order < cur[0]:
                self.viol[v['id']] = (order, v)
        if 'sample' in out:
            self.sample(out['sample'])

    def run_tasks(self, fn, items, budget=60.0, chunksize=None, order_base=0, fresh=False):
        n = 0
        for idx, out in pmap(fn, items, budget=budget, chunksize=chunksize, fresh=fresh):
            self.absorb(order_base + idx, out)
            n += 1
        return n

    # -- finishing ---------------------------------------------------------
    def finish(self, rule_text, exhaustive=True, level='model_checking'):
        wall = time.time() - self.t0
        if self.internal is not None:
            sys.stdout.flush()
            sys.stderr.write('INTERNAL ERROR in check %s (not a violation):\n%s\n' % (self.prop, self.internal))
            sys.exit(2)
        known = load_known()
        os.makedirs(EVIDENCE_DIR, exist_ok=True)
        new, seen_known = [], []
        def lookup(ident):
            if (self.prop, ident) in known:
                return (self.prop, ident)
            for (p, i) in known:
                # a listed identity ending in '*' covers the identities that share the prefix (same defect, several sites)
                if p == self.prop and i.endswith('*') and ident.startswith(i[:-1]):
                    return (p, i)
            return None
        matched = set()
        for ident in sorted(self.viol, key=lambda i: (self.viol[i][0], i)):
            v = self.viol[ident][1]
            k = lookup(ident)
            if k is not None:
                seen_known.append(ident)
                if k not in matched:
                    print('KNOWN-FINDING: property=%s %s [%s] (%d occurrences)' % (
                        self.prop, known[k].get('what', v['what']), k[1], self.viol_count[ident]))
                matched.add(k)
            else:
                new.append(v)
        stale = [i for (p, i) in known if p == self.prop and (p, i) not in matched]
        replay_paths = []
        if os.path.isdir(REPLAY_DIR):
            for fn in os.listdir(REPLAY_DIR):
                if fn.startswith(self.prop + '-') and fn.endswith('.json'):
                    os.unlink(os.path.join(REPLAY_DIR, fn))
        if new:
            os.makedirs(REPLAY_DIR, exist_ok=True)
        for v in new:
            h = hashlib.sha1(v['id'].encode()).hexdigest()[:10]
            path = os.path.join(REPLAY_DIR, '%s-%s.json' % (self.prop, h))
            with open(path, 'w') as f:
                json.dump({'property': self.prop, 'tier': self.tier, 'identity': v['id'], 'what': v['what'],
                           'inputs': v.get('inputs'), 'observed': v.get('observed'), 'expected': v.get('expected'),
                           'occurrences': self.viol_count[v['id']]}, f, indent=1, default=repr, sort_keys=True)
            replay_paths.append(path)
            print('VIOLATION property=%s replay=%s' % (self.prop, path))
            print('  identity: %s' % v['id'])
            print('  what: %s' % (v['what'][:600],))
        if exhaustive and self.caps_hit:
            exhaustive = False
        coverage = {
            'states': self.states,
            'transitions': max(self.transitions, self.states),
            'traces_validated_against_impl': self.validated,
            'exhaustive': bool(exhaustive),
            'bounds': self.bounds,
            'rule': rule_text,
            'distinct_outcomes': len(self.outcomes),
            'outcome_histogram': dict(sorted(self.outcomes.items(), key=lambda kv: (-kv[1], kv[0]))[:60]),
            'actions_fired': dict(sorted(self.actions_fired.items())),
            'caps_hit': self.caps_hit,
            'parts': self.parts,
            'samples': self.samples or ['(no sample recorded)'],
            'known_findings_seen': seen_known,
            'known_findings_not_observed': stale,
            'violation_identities': [v['id'] for v in new],
            'notes': self.notes,
        }
        coverage.update(self.extra)
        ev = {'property_id': self.prop, 'tier': self.tier, 'seed': self.seed, 'level': level,
              'coverage': coverage, 'assumptions': self.assumptions, 'wall_s': round(wall, 2),
              'violations': len(new)}
        with open(os.path.join(EVIDENCE_DIR, self.prop + '.json'), 'w') as f:
            json.dump(ev, f, indent=1, default=repr, sort_keys=True)
        print('%s %s: states=%d transitions=%d validated=%d outcomes=%d known=%d new_violations=%d exhaustive=%s wall=%.1fs' % (
            self.prop, self.tier, self.states, coverage['transitions'], self.validated, len(self.outcomes),
            len(seen_known), len(new), coverage['exhaustive'], wall))
        if self.states == 0:
            sys.stderr.write('check %s explored zero states\n' % self.prop)
            sys.exit(2)
        sys.exit(1 if new else 0)


def stone_frame_identity(exc, tb=None):
    """(exception type, innermost stone.* function on the stack) for escape identities."""
    tb = tb or exc.__traceback__
    inner = None
    entry = None
    for fs, _ in traceback.walk_tb(tb):
        fn = fs.f_code.co_filename
        if '/stone/' in fn and '/verif/' not in fn:
            mod = fn.split('/stone/', 1)[1].rsplit('.', 1)[0].replace('/', '.')
            q = getattr(fs.f_code, 'co_qualname', fs.f_code.co_name)
            name = 'stone.%s.%s' % (mod, q)
            inner = name
            if 'ply' not in mod and (mod.startswith('frontend.ir_generator') or mod.startswith('frontend.parser')
                                     or mod.startswith('frontend.lexer')):
                entry = name
    return type(exc).__name__, inner, entry
