"""The parameter and literal product spaces of C01/C02/C10 (DESIGN 6, "parameter profile", "literal profile").

These are products rather than deep construction sequences: every primitive with every combination of
boundary keyword arguments at every kind of site, every entry of the bad-parameter catalogue at every
kind of site, and every boundary literal (valid and invalid) as a default of every defaultable type.
"""
import itertools

from .model import (P, L, M, N, R, VOID, NODEF, TagLit, Model, Namespace, File, Alias, mkfield, mktag, mkstruct, mkunion,
                    mkroute, prim, ts)
from . import render
from .render import RawType
from .machine import INT_RANGES, valid_literals, PATTERN_MATCHES
from .faults import BAD_PARAM_TYPES, bad_literals


def valid_param_types(tier):
    out = []
    for k, (lo, hi) in INT_RANGES.items():
        mins = [None, lo, 0, 1]
        maxs = [None, hi, 1, 5]
        for a, b in itertools.product(mins, maxs):
            if a is not None and b is not None and a > b:
                continue
            kw = {}
            if a is not None:
                kw['min_value'] = a
            if b is not None:
                kw['max_value'] = b
            out.append(prim(k, **kw))
    for k in ('Float32', 'Float64'):
        for a, b in itertools.product([None, -1.5, 0, -3.40282e38], [None, 2.5, 1, 3.40282e38]):
            if a is not None and b is not None and a > b:
                continue
            kw = {}
            if a is not None:
                kw['min_value'] = a
            if b is not None:
                kw['max_value'] = b
            out.append(prim(k, **kw))
    for a, b, pat in itertools.product([None, 0, 1, 3], [None, 1, 3], [None] + sorted(PATTERN_MATCHES)):
        if a is not None and b is not None and a > b:
            continue
        kw = {}
        if a is not None:
            kw['min_length'] = a
        if b is not None:
            kw['max_length'] = b
        if pat is not None:
            kw['pattern'] = pat
        out.append(prim('String', **kw))
    out += [ts('%Y-%m-%dT%H:%M:%SZ'), ts('%Y'), ts('%a, %d %b %Y %H:%M:%S +0000'), prim('Bytes'), prim('Boolean')]
    return out


def valid_list_types():
    out = []
    for a, b in itertools.product([None, 0, 1, 2], [None, 1, 2]):
        if a is not None and b is not None and a > b:
            continue
        out.append(L(prim('Int32'), a, b))
    return out


# site builders: type expression -> Model
def site_models(t, with_void=False):
    def m(*defs):
        return Model((Namespace('na', (File(None, (), tuple(defs)),)),))
    out = [('field', m(mkstruct('S', fields=[mkfield('f', t)]))),
           ('tag', m(mkunion('U', tags=[mktag('t', t)]))),
           ('alias', m(Alias('A', t, None, ()))),
           ('route-arg', m(mkroute('r', 1, t, VOID, VOID))),
           ('route-result', m(mkroute('r', 1, VOID, t, VOID))),
           ('route-error', m(mkroute('r', 2, VOID, VOID, t))),
           ('field/item', m(mkstruct('S', fields=[mkfield('f', L(t, None, None))]))),
           ('field/value', m(mkstruct('S', fields=[mkfield('f', M(t))]))),
           ('field/inner', m(mkstruct('S', fields=[mkfield('f', N(t))]))),
           ('field@alias', m(Alias('A', t, None, ()), mkstruct('S', fields=[mkfield('f', R(None, 'A'))]))),
           ('field@alias/inner', m(Alias('A', t, None, ()), mkstruct('S', fields=[mkfield('f', N(R(None, 'A')))]))),
           ('tag/item/item', m(mkunion('U', tags=[mktag('t', L(L(t, None, None), None, None))]))),
           ('tag/value/inner', m(mkunion('U', tags=[mktag('t', M(N(t)))]))),
           ]
    return out


def default_model(t, lit, via_alias=False):
    if via_alias:
        defs = (Alias('A', t, None, ()), mkstruct('S', fields=[mkfield('f', R(None, 'A'), default=lit)]))
    else:
        defs = (mkstruct('S', fields=[mkfield('f', t, default=lit)]),)
    return Model((Namespace('na', (File(None, (), defs),)),))


def items(tier, with_models=False):
    """Yield (label, expect_valid, rule, specs[, model])."""
    def pack(label, ok, rule, model):
        specs = render.render(model)
        return (label, ok, rule, specs, model) if with_models else (label, ok, rule, specs)
    types = valid_param_types(tier) + valid_list_types()
    for t in types:
        sites = site_models(t)
        if tier == 'quick':
            sites = sites[:4] + sites[6:10]
        for kind, m in sites:
            yield pack('%s|%s' % (kind, render.texpr(t)), True, None, m)
    # the bad-parameter catalogue at every site kind
    for rule, text in BAD_PARAM_TYPES:
        for kind, m in site_models(RawType(text)):
            if with_models:
                continue
            yield pack('%s|%s' % (kind, text), False, rule, m)
    # literals as defaults
    for t in valid_param_types(tier):
        for via_alias in (False, True):
            for v in valid_literals(t, rich=True):
                yield pack('default%s|%s=%r' % ('@alias' if via_alias else '', render.texpr(t), v), True, None,
                           default_model(t, v, via_alias))
            if with_models:
                continue
            for v in bad_literals(t):
                yield pack('default/%s%s|%s=%r' % (t.kind, '@alias' if via_alias else '', render.texpr(t), v), False,
                           'default-fits-type', default_model(t, v, via_alias))


def fixed_items():
    """Hand-written specs whose verdict follows from a single rule of the language reference (text, not models: the
    construction machine cannot build them because they are either invalid or need more definitions than its depth allows).
    Yields (label, expect_valid, rule, specs)."""
    def ring(n, used):
        names = ['c%d' % i for i in range(n)]
        out = []
        for i, nm in enumerate(names):
            nxt = names[(i + 1) % n]
            body = 'struct X%d\n    f %s.X%d?\n' % (i, nxt, (i + 1) % n) if used else 'struct X%d\n    f Int32\n' % i
            out.append(('%s.stone' % nm, 'namespace %s\n\nimport %s\n\n%s' % (nm, nxt, body)))
        return out
    import itertools
    for n in (2, 3, 4):
        for used in (True, False):
            files = ring(n, used)
            # the cycle must be found whichever file the compiler sees first
            for perm in itertools.permutations(range(n)):
                yield ('import-cycle|length %d%s, file order %s' % (n, '' if used else ' (imports unused)', ''.join(map(str, perm))), False, 'import-acyclic',
                       [files[i] for i in perm])
    # a cycle next to an acyclic part, and a diamond (no cycle)
    for perm in itertools.permutations(range(4)):
        files = [('d0.stone', 'namespace d0\n\nimport d1\nimport d2\n\nstruct X0\n    f d1.X1?\n    g d2.X2?\n'), ('d1.stone', 'namespace d1\n\nimport d3\n\nstruct X1\n    f d3.X3?\n'),
                 ('d2.stone', 'namespace d2\n\nimport d3\n\nstruct X2\n    f d3.X3?\n'), ('d3.stone', 'namespace d3\n\nstruct X3\n    f Int32\n')]
        yield ('import-diamond|file order %s' % ''.join(map(str, perm)), True, None, [files[i] for i in perm])
        cyc = list(files)
        cyc[3] = ('d3.stone', 'namespace d3\n\nimport d2\n\nstruct X3\n    f Int32\n')
        cyc[2] = ('d2.stone', 'namespace d2\n\nimport d3\n\nstruct X2\n    f d3.X3?\n')
        yield ('import-cycle|diamond with a two-cycle at the bottom, file order %s' % ''.join(map(str, perm)), False, 'import-acyclic', [cyc[i] for i in perm])
    # the head of a route definition (signature arity x version x deprecation x body)
    from .textspace import route_head_items
    for label, valid, specs in route_head_items():
        yield (label.replace(':', '|', 1), valid, None if valid else 'route-head-grammar', specs)
    # a chain of imports is fine
    yield ('import-chain|length 3', True, None, [('c0.stone', 'namespace c0\n\nimport c1\n\nstruct X0\n    f c1.X1\n'), ('c1.stone', 'namespace c1\n\nimport c2\n\nstruct X1\n    f c2.X2\n'),
                                                 ('c2.stone', 'namespace c2\n\nstruct X2\n    f Int32\n')])
    # tag defaults and union-typed route attributes along union inheritance chains: every void tag of the union or of an ancestor is a legal value,
    # typed tags, tags of descendants and unknown names are not
    upre = ('union Pu\n    pa\n    pb Int32\n\nunion Cu extends Pu\n    ca\n    cb String\n\nunion Gu extends Cu\n    ga\n\nunion_closed Ku\n    ka\n    kb Int32\n\n'
            'union Ko extends Ku\n    koa\n\nalias Acu = Cu\n\nalias Agu = Gu\n\n')
    legal = {'Pu': ['pa'], 'Cu': ['pa', 'ca'], 'Gu': ['pa', 'ca', 'ga'], 'Ku': ['ka'], 'Ko': ['ka', 'koa'], 'Acu': ['pa', 'ca'], 'Agu': ['pa', 'ca', 'ga']}
    every = ['pa', 'pb', 'ca', 'cb', 'ga', 'ka', 'kb', 'koa', 'zz']
    for u, ok_tags in sorted(legal.items()):
        for tag in every:
            ok = tag in ok_tags
            yield ('tag-default|%s = %s' % (u, tag), ok, None if ok else 'default-tag-is-void-tag',
                   [('m.stone', 'namespace mx\n\n' + upre + 'struct S\n    f %s = %s\n' % (u, tag))])
            yield ('tag-default|imported %s = %s' % (u, tag), ok, None if ok else 'default-tag-is-void-tag',
                   [('m.stone', 'namespace mx\n\n' + upre), ('n.stone', 'namespace nx\n\nimport mx\n\nstruct S\n    f mx.%s = %s\n' % (u, tag))])
            yield ('tag-attr|%s = %s' % (u, tag), ok, None if ok else 'attr-union-is-void-tag',
                   [('m.stone', 'namespace mx\n\n' + upre + 'route r(Void, Void, Void)\n    attrs\n        u = %s\n' % tag),
                    ('cfg.stone', 'namespace stone_cfg\n\nimport mx\n\nstruct Route\n    u mx.%s?\n' % u)])
    # names of imported namespaces versus definitions
    yield ('import-names|imported namespace defines a type named like the importer', True, None,
           [('a.stone', 'namespace na\n\nimport nb\n\nstruct S\n    f nb.na\n'), ('b.stone', 'namespace nb\n\nstruct na\n    x Int32\n')])
    yield ('import-names|imported namespace defines an alias and a route named like the importer', True, None,
           [('b.stone', 'namespace nb\n\nalias na = Int32\n\nroute nc(Void, Void, Void)\n'), ('a.stone', 'namespace na\n\nimport nb\n\nstruct S\n    f nb.na\n'),
            ('c.stone', 'namespace nc\n\nimport nb\n\nstruct T\n    g nb.na?\n')])
    for kind, text in (('struct', 'struct nb\n    x Int32\n'), ('union', 'union nb\n    x\n'), ('alias', 'alias nb = Int32\n'), ('route', 'route nb(Void, Void, Void)\n'),
                       ('annotation', 'annotation nb = Deprecated()\n')):
        yield ('import-names|import of a namespace named like a local %s' % kind, False, 'symbol-unique',
               [('a.stone', 'namespace na\n\nimport nb\n\n' + text + '\nstruct S\n    f Int32\n'), ('b.stone', 'namespace nb\n\nstruct T\n    y Int32\n')])
        yield ('import-names|import (in a second file) of a namespace named like a local %s' % kind, False, 'symbol-unique',
               [('a.stone', 'namespace na\n\n' + text + '\nstruct S\n    f Int32\n'), ('a2.stone', 'namespace na\n\nimport nb\n'), ('b.stone', 'namespace nb\n\nstruct T\n    y Int32\n')])
    # aliases: a cycle among aliases (directly or through nullables, lists, maps) denotes no type; recursion goes through structs and unions
    for lab, text, ok in (('alias-self', 'alias Aa = Aa\n', False), ('alias-cycle-2', 'alias Aa = Bb\nalias Bb = Aa\n', False), ('alias-cycle-3', 'alias Aa = Bb\nalias Bb = Cc\nalias Cc = Aa\n', False),
                          ('alias-cycle-through-nullable', 'alias Aa = Bb?\nalias Bb = Aa\n', False), ('alias-self-nullable', 'alias Aa = Aa?\n', False),
                          ('alias-cycle-list', 'alias Aa = List(Aa)\nstruct S\n    f Aa\n', False), ('alias-cycle-map-2', 'alias Aa = Map(String, Bb)\nalias Bb = Aa?\nstruct S\n    f Bb\n', False),
                          ('alias-cycle-list-2', 'alias Aa = List(Bb)\nalias Bb = Aa\n', False), ('alias-cycle-map-list', 'alias Aa = Map(String, List(Aa?))\n', False),
                          ('recursive-struct-through-alias', 'alias Al = List(Node)\nstruct Node\n    kids Al\n', True), ('recursive-union-through-alias', 'alias Au = Tree?\nunion Tree\n    leaf\n    pair Map(String, Au)\n', True)):
        yield ('alias-shape|' + lab, ok, None if ok else 'alias-acyclic', [('m.stone', 'namespace mx\n\n' + text)])
    # examples
    pre = 'namespace mx\n\nstruct T\n    x Int32\n\n    example default\n        x = 1\n\n'
    for lab, text, ok, rule in (
            ('example-ref-alias-nullable', 'alias AT = T?\n\nstruct S\n    t AT\n\n    example default\n        t = default\n', True, None),
            ('example-ref-alias-chain', 'alias AT = T\n\nalias AU = AT\n\nstruct S\n    t AU\n\n    example default\n        t = default\n', True, None),
            ('example-map-not-a-map', 'struct S\n    m Map(String, Int32)\n\n    example default\n        m = 5\n', False, 'example-fits-type'),
            ('example-map-list', 'struct S\n    m Map(String, Int32)\n\n    example default\n        m = [1]\n', False, 'example-fits-type'),
            ('example-map-key-too-short', 'struct S\n    m Map(String(min_length=2), Int32)\n\n    example default\n        m = {"a": 1}\n', False, 'example-fits-type'),
            ('example-map-key-pattern', 'struct S\n    m Map(String(pattern="[a-c]+"), Int32)\n\n    example default\n        m = {"zz": 1}\n', False, 'example-fits-type'),
            ('example-map-key-ok', 'struct S\n    m Map(String(min_length=2), Int32)\n\n    example default\n        m = {"ab": 1}\n', True, None),
            ('example-map-nested-key', 'struct S\n    m Map(String, Map(String(max_length=1), Int32))\n\n    example default\n        m = {"k": {"toolong": 1}}\n', False, 'example-fits-type'),
            ('example-map-key-via-alias', 'alias Am = Map(String(min_length=2), Int32)\n\nstruct S\n    m Am\n\n    example default\n        m = {"a": 1}\n', False, 'example-fits-type'),
            ('example-map-key-in-union', 'union U\n    m Map(String(min_length=2), Int32)\n\n    example default\n        m = {"a": 1}\n', False, 'example-fits-type'),
            ('example-self-reference', 'struct S\n    t S?\n\n    example default\n        t = default\n', False, 'example-acyclic')):
        yield ('example|' + lab, ok, rule, [('m.stone', pre + text)])
    # doc reference values: every float literal the lexer accepts as a default is a value
    for v, ok in (('1e5', True), ('2e10', True), ('2.5e3', True), ('10.e2', True), ('-1.5e-3', True), ('1e', False), ('e5', False), ('1.5.2', False), ('--1', False), ('\\"a\\"', True), ('\\"a', False),
                  ('null', True), ('true', True), ('True', False), ('0', True), ('-0', True), ('.5', False)):
        yield ('docref-val|%s' % v, ok, None if ok else 'docref-val', [('m.stone', 'namespace mx\n\nstruct S\n    "A value :val:`%s`."\n    f Int32\n' % v)])
    # route attribute schema
    cfg = 'namespace stone_cfg\n\nimport mx\n\n'
    mx = 'namespace mx\n\nstruct Ms\n    a Int32\n\nunion Mu\n    mv\n    mw Int32\n\nalias Al = List(Int32)\n\nroute r(Void, Void, Void)\n'
    for lab, body, attrs, ok, rule in (
            ('attr-list-type', 'struct Route\n    k List(String)?\n', '', False, 'attr-type'), ('attr-map-type', 'struct Route\n    k Map(String, Int32)?\n', '', False, 'attr-type'),
            ('attr-struct-type-set', 'struct Route\n    k mx.Ms?\n', '    attrs\n        k = 1\n', False, 'attr-type'), ('attr-alias-of-list-set', 'struct Route\n    k mx.Al?\n', '    attrs\n        k = 1\n', False, 'attr-type'),
            ('schema-is-union', 'union Route\n    a\n', '', False, 'cfg-only-route-struct'), ('attr-union-tag', 'struct Route\n    k mx.Mu = mv\n', '    attrs\n        k = mv\n', True, None),
            ('attr-union-not-a-tag', 'struct Route\n    k mx.Mu = mv\n', '    attrs\n        k = 3\n', False, 'attr-fits-type')):
        if lab in ('attr-list-type', 'attr-map-type'):
            continue        # whether an attribute of list / map type may be declared (it can never be given a value) is left open
        yield ('route-schema|' + lab, ok, rule, [('cfg.stone', cfg + body), ('m.stone', mx + attrs)])
    # numbers
    big = '1' + '0' * 400
    for lab, text, ok, rule in (('float-default-huge-int', 'struct S\n    f Float64 = %s\n' % big, False, 'default-fits-type'), ('int-default-huge', 'struct S\n    f Int64 = %s\n' % big, False, 'default-fits-type'),
                                ('float32-default-in-range', 'struct S\n    f Float32 = 1e30\n', True, None), ('pattern-repeat-overflow', 'struct S\n    f String(pattern="a{99999999999}")\n', False, 'pattern-compiles'),
                                ('pattern-unbalanced', 'struct S\n    f String(pattern="(")\n', False, 'pattern-compiles')):
        yield ('numbers|' + lab, ok, rule, [('m.stone', 'namespace mx\n\n' + text)])
