"""The parameter and literal product spaces of C01/C02/C10 (DESIGN 6, "parameter profile", "literal profile").

These are products rather than deep construction sequences: every primitive with every combination of
boundary keyword arguments at every kind of site, every entry of the bad-parameter catalogue at every
kind of site, and every boundary literal (valid and invalid) as a default of every defaultable type.
"""
import itertools

from .model import (P, L, M, N, R, VOID, NODEF, TagLit, Model, Namespace, File, Alias, mkfield, mktag, mkstruct, mkunion,
                    mkroute, prim, ts)
from . import render
from .render import RawType
from .machine import INT_RANGES, valid_literals, PATTERN_MATCHES
from .faults import BAD_PARAM_TYPES, bad_literals


def valid_param_types(tier):
    out = []
    for k, (lo, hi) in INT_RANGES.items():
        mins = [None, lo, 0, 1]
        maxs = [None, hi, 1, 5]
        for a, b in itertools.product(mins, maxs):
            if a is not None and b is not None and a > b:
                continue
            kw = {}
            if a is not None:
                kw['min_value'] = a
            if b is not None:
                kw['max_value'] = b
            out.append(prim(k, **kw))
    for k in ('Float32', 'Float64'):
        for a, b in itertools.product([None, -1.5, 0, -3.40282e38], [None, 2.5, 1, 3.40282e38]):
            if a is not None and b is not None and a > b:
                continue
            kw = {}
            if a is not None:
                kw['min_value'] = a
            if b is not None:
                kw['max_value'] = b
            out.append(prim(k, **kw))
    for a, b, pat in itertools.product([None, 0, 1, 3], [None, 1, 3], [None] + sorted(PATTERN_MATCHES)):
        if a is not None and b is not None and a > b:
            continue
        kw = {}
        if a is not None:
            kw['min_length'] = a
        if b is not None:
            kw['max_length'] = b
        if pat is not None:
            kw['pattern'] = pat
        out.append(prim('String', **kw))
    out += [ts('%Y-%m-%dT%H:%M:%SZ'), ts('%Y'), ts('%a, %d %b %Y %H:%M:%S +0000'), prim('Bytes'), prim('Boolean')]
    return out


def valid_list_types():
    out = []
    for a, b in itertools.product([None, 0, 1, 2], [None, 1, 2]):
        if a is not None and b is not None and a > b:
            continue
        out.append(L(prim('Int32'), a, b))
    return out


# site builders: type expression -> Model
def site_models(t, with_void=False):
    def m(*defs):
        return Model((Namespace('na', (File(None, (), tuple(defs)),)),))
    out = [('field', m(mkstruct('S', fields=[mkfield('f', t)]))),
           ('tag', m(mkunion('U', tags=[mktag('t', t)]))),
           ('alias', m(Alias('A', t, None, ()))),
           ('route-arg', m(mkroute('r', 1, t, VOID, VOID))),
           ('route-result', m(mkroute('r', 1, VOID, t, VOID))),
           ('route-error', m(mkroute('r', 2, VOID, VOID, t))),
           ('field/item', m(mkstruct('S', fields=[mkfield('f', L(t, None, None))]))),
           ('field/value', m(mkstruct('S', fields=[mkfield('f', M(t))]))),
           ('field/inner', m(mkstruct('S', fields=[mkfield('f', N(t))]))),
           ('field@alias', m(Alias('A', t, None, ()), mkstruct('S', fields=[mkfield('f', R(None, 'A'))]))),
           ('field@alias/inner', m(Alias('A', t, None, ()), mkstruct('S', fields=[mkfield('f', N(R(None, 'A')))]))),
           ('tag/item/item', m(mkunion('U', tags=[mktag('t', L(L(t, None, None), None, None))]))),
           ('tag/value/inner', m(mkunion('U', tags=[mktag('t', M(N(t)))]))),
           ]
    return out


def default_model(t, lit, via_alias=False):
    if via_alias:
        defs = (Alias('A', t, None, ()), mkstruct('S', fields=[mkfield('f', R(None, 'A'), default=lit)]))
    else:
        defs = (mkstruct('S', fields=[mkfield('f', t, default=lit)]),)
    return Model((Namespace('na', (File(None, (), defs),)),))


def items(tier, with_models=False):
    """Yield (label, expect_valid, rule, specs[, model])."""
    def pack(label, ok, rule, model):
        specs = render.render(model)
        return (label, ok, rule, specs, model) if with_models else (label, ok, rule, specs)
    types = valid_param_types(tier) + valid_list_types()
    for t in types:
        sites = site_models(t)
        if tier == 'quick':
            sites = sites[:4] + sites[6:10]
        for kind, m in sites:
            yield pack('%s|%s' % (kind, render.texpr(t)), True, None, m)
    # the bad-parameter catalogue at every site kind
    for rule, text in BAD_PARAM_TYPES:
        for kind, m in site_models(RawType(text)):
            if with_models:
                continue
            yield pack('%s|%s' % (kind, text), False, rule, m)
    # literals as defaults
    for t in valid_param_types(tier):
        for via_alias in (False, True):
            for v in valid_literals(t, rich=True):
                yield pack('default%s|%s=%r' % ('@alias' if via_alias else '', render.texpr(t), v), True, None,
                           default_model(t, v, via_alias))
            if with_models:
                continue
            for v in bad_literals(t):
                yield pack('default/%s%s|%s=%r' % (t.kind, '@alias' if via_alias else '', render.texpr(t), v), False,
                           'default-fits-type', default_model(t, v, via_alias))
