#!/bin/sh
# Offline setup: nothing is installed or fetched. Verifies the toolchain and runs the explorer's self-tests.
set -e
cd "$(dirname "$0")"
test -x /venv/bin/python || { echo "missing /venv/bin/python"; exit 1; }
command -v node >/dev/null || { echo "missing node (needed by C16)"; exit 1; }
PYTHONDONTWRITEBYTECODE=1 PYTHONHASHSEED=0 /venv/bin/python - <<'PY'
import sys, os
sys.path.insert(0, os.getcwd())
from mc import explore, impl
impl.assert_repo()
assert explore.self_test()
# replay determinism of the toy machine in a second process
import subprocess
out = [subprocess.run([sys.executable, '-c', 'import sys; sys.path.insert(0, %r); from mc import explore; r = explore.bfs(type("T", (), {"init_states": lambda s: [()], "actions": lambda s, x: [("a " + c, x + (c,)) for c in "ab"], "canon": lambda s, x: tuple(sorted(x))})(), 3); print(r.n, r.transitions)' % os.getcwd()],
                      capture_output=True, text=True, env=dict(os.environ, PYTHONHASHSEED=str(h))).stdout for h in (0, 1)]
assert out[0] == out[1] and out[0].strip() == '10 12', out
print('setup ok: stone from', impl.REPO)
PY
mkdir -p evidence replays
